#!/venv/bin/python
"""Failing inputs of the genuine defects F15-F30 (DESIGN.md section 6), as runnable reproducers.

Not a registered check (the checks are static): this script *runs* flox.  On the original snapshot (80f0cb3) every case fails as described;
on the repaired tree every case prints OK.  Usage:  cd <a checkout of /repo> && /venv/bin/python /verif/defects/repro.py
"""
import os, sys, warnings
sys.path.insert(0, os.getcwd())
warnings.filterwarnings("ignore")
import numpy as np, pandas as pd, dask, dask.array as da
from flox.core import groupby_reduce, groupby_scan

ALLOWED = (ValueError, NotImplementedError, ImportError)
results = []


def case(name, fn, expect=None, refusal_ok=False):
    try:
        got = fn()
        ok = expect is None or expect(got)
        results.append((name, "OK" if ok else f"WRONG ANSWER: {got!r}"))
    except ALLOWED as e:
        results.append((name, "OK (refused: %s)" % type(e).__name__ if refusal_ok else f"REFUSED unexpectedly: {type(e).__name__}: {e}"))
    except Exception as e:
        results.append((name, f"INTERNAL ERROR {type(e).__name__}: {str(e)[:80]}"))


# F15: labels as their own codes for every RangeIndex
case("F15 int8 labels, RangeIndex(200)", lambda: groupby_reduce(np.arange(4.), np.array([0, 1, -1, 1], dtype=np.int8), func="sum", expected_groups=pd.RangeIndex(200), fill_value=0)[0][:2].tolist(), lambda r: r == [0.0, 4.0])
case("F15 uint8 labels", lambda: groupby_reduce(np.arange(4.), np.array([0, 1, 250, 1], dtype=np.uint8), func="sum", expected_groups=pd.RangeIndex(3))[0][:2].tolist(), lambda r: r == [0.0, 4.0])
case("F15 float labels", lambda: groupby_reduce(np.arange(5.), np.array([0, 1, np.nan, 1, 5.]), func="sum", expected_groups=pd.RangeIndex(3))[0][:2].tolist(), lambda r: r == [0.0, 4.0])
case("F15 RangeIndex(1, 5)", lambda: groupby_reduce(np.arange(5.), np.array([1, 2, 4, 1, 5]), func="sum", expected_groups=pd.RangeIndex(1, 5), fill_value=0)[0].tolist(), lambda r: r == [3.0, 1.0, 0.0, 2.0])


# F16: two merged cohorts spanning the same blocks
def f16():
    sets = {0: range(0, 8), 1: range(4, 12)}
    lab = 2
    for k in (8, 9, 10, 11):
        sets[lab] = [0, 1, 2, k]; lab += 1
    for k in (0, 1, 2, 3):
        sets[lab] = [k, 8, 9, 10, 11]; lab += 1
    for c in range(12, 30):
        sets[lab] = [c]; lab += 1
    per_chunk = [[l for l, s in sets.items() if c in s] for c in range(30)]
    labels = np.concatenate([np.array(p) for p in per_chunk])
    chunks = (tuple(len(p) for p in per_chunk),)
    arr = da.from_array(np.ones(labels.size), chunks=chunks)
    want = groupby_reduce(arr, labels, func="sum", method="map-reduce")[0].compute()
    return all(np.array_equal(groupby_reduce(arr, labels, func="sum", method=m)[0].compute(), want) for m in (None, "cohorts"))


case("F16 cohorts with equal block sets", f16, lambda r: r is True)
# F17
case("F17 blockwise, group in two blocks", lambda: groupby_reduce(da.from_array(np.arange(5), chunks=2), np.array([0, 1, 0, 1, 2]), func="sum", method="blockwise")[0].compute(), refusal_ok=True)
# F18
case("F18 all labels missing, default method", lambda: groupby_reduce(da.from_array(np.arange(2), chunks=1), np.array([np.nan, np.nan]), func="max")[0].compute().tolist(), lambda r: r == [])
# F19
def f19():
    r = groupby_reduce(da.from_array(np.arange(2), chunks=1), np.array([np.nan, np.nan]), func="max", expected_groups=np.array([1, 2]))[0].compute()
    return isinstance(r, np.ndarray)


case("F19 all labels missing, expected groups, no fill", f19, lambda r: r is True, refusal_ok=True)
# F20
case("F20 timedelta nanfirst, absent group", lambda: groupby_reduce(np.array([1, 2, 3, 4], dtype="timedelta64[ns]"), np.array([0, 0, 1, 1]), func="nanfirst", expected_groups=np.array([0, 1, 2]), engine="numpy")[0], lambda r: bool(np.isnat(r[2])))
# F21
case("F21 scan with labels of another length", lambda: groupby_scan(np.arange(5.), np.array([0, 1, 0]), func="nancumsum"), refusal_ok=True)
# F22
def f22():
    v = np.arange(6.); b2 = np.array([0, 0, 1, 1, 2, 2]); b1 = np.array([0, 1, 0, 1, 0, 1])
    e = groupby_reduce(v, b2, b1, func="sum", expected_groups=(None, np.array([0, 1, 2])), fill_value=0)[0]
    d = groupby_reduce(da.from_array(v, chunks=3), b2, da.from_array(b1, chunks=3), func="sum", expected_groups=(None, np.array([0, 1, 2])), fill_value=0)[0].compute()
    return np.array_equal(e, d)


case("F22 mixed numpy / dask groupers", f22, lambda r: r is True)
# F23
case("F23 blockwise, sort=False, NaN label inside a block", lambda: groupby_reduce(da.from_array(np.arange(8), chunks=4), np.array([1, 1, np.nan, 2, 3, np.nan, 4, 4]), func="sum", method="blockwise", sort=False)[0].compute().tolist(), lambda r: r == [1, 3, 4, 13])

# F24
case("F24 axis outside the labels' dimensions", lambda: groupby_reduce(np.arange(12.).reshape(3, 4), np.array([0, 1, 0, 1]), func="max", axis=0)[0].tolist(), lambda r: False, refusal_ok=True)
# F25
case("F25 size-1 label dimension, partial reduction", lambda: groupby_reduce(np.arange(12.).reshape(4, 3), np.array([[0], [1], [2], [0]]), func="sum", axis=-1, engine="flox", expected_groups=np.array([0, 1, 2]), fill_value=0)[0].tolist(), lambda r: r == [[3.0, 0.0, 0.0], [0.0, 12.0, 0.0], [0.0, 0.0, 21.0], [30.0, 0.0, 0.0]])
# F26
def f26():
    import xarray as xr
    from flox.xarray import xarray_reduce
    da_ = xr.DataArray(np.arange(12.).reshape(3, 4), dims=("x", "y"), coords={"x": np.arange(3), "y": np.arange(4)}, name="a")
    lab = xr.DataArray(np.array([0, 1, 0, 1]), dims="y", name="lab")
    return xarray_reduce(da_, lab, func="first", dim="x")


case("F26 xarray_reduce func='first' along a non-grouper dim", f26, refusal_ok=True)

# F27
case("F27 chunked nancumsum of int8", lambda: np.asarray(groupby_scan(da.from_array(np.array([100] * 6, dtype=np.int8), chunks=2), np.zeros(6, dtype=int), func="nancumsum")).tolist(), lambda r: r == [100, 200, 300, 400, 500, 600])

# F28
case("F28 labels of shape (1,), one reduced axis, flox engine", lambda: groupby_reduce(np.ones((2, 3)), np.array([0]), func="sum", engine="flox")[0].tolist(), lambda r: r == [[3.0], [3.0]])
# F29
case("F29 nancumsum of a lone NaN, every position its own group", lambda: groupby_scan(np.array([1.0, np.nan, 2.0]), np.array([0, 1, 2]), func="nancumsum").tolist(), lambda r: r == [1.0, 0.0, 2.0])
# F30
case("F30 negative quantile level", lambda: groupby_reduce(np.array([1.0, 5, 2, 9, 4, 7]), np.array([0, 0, 1, 1, 2, 2]), func="quantile", finalize_kwargs={"q": -0.5}, engine="flox")[0].tolist(), lambda r: False, refusal_ok=True)

# F31
case("F31 ffill over a dask array with a zero-length chunk", lambda: np.asarray(groupby_scan(da.from_array(np.array([1.0, np.nan, 3.0]), chunks=((2, 0, 1),)), np.array([0, 0, 0]), func="ffill")).tolist(), lambda r: r == [1.0, 1.0, 3.0])
# F32
case("F32 groupby_scan with dtype given as a string", lambda: groupby_scan(np.array([1.0, np.nan, 3.0]), np.array([0, 0, 0]), func="ffill", dtype="float32").tolist(), lambda r: r == [1.0, 1.0, 3.0])
# F33
case("F33 method=None with reindex=True, one group per block", lambda: groupby_reduce(da.from_array(np.arange(12.), chunks=2), np.repeat(np.arange(6), 2), func="sum", reindex=True)[0].compute().tolist(), lambda r: r == [1.0, 5.0, 9.0, 13.0, 17.0, 21.0])

# F34
case("F34 blockwise with a size-1 label dimension over several blocks", lambda: groupby_reduce(da.from_array(np.arange(6.), chunks=3), np.array([0.]), func="sum", method="blockwise")[0].compute().tolist(), lambda r: r == [15.0])
case("F34 auto plan, size-1 labels, no requested label present", lambda: groupby_reduce(da.from_array(np.arange(6.), chunks=3), np.array([5.]), func="sum", expected_groups=np.array([0.]), fill_value=0)[0].compute().tolist(), lambda r: r == [0.0])
# F35
case("F35 auto plan, arg reduction, no requested label present", lambda: groupby_reduce(da.from_array(np.arange(6.), chunks=3), np.full(6, 7.), func="argmax", expected_groups=np.array([0., 1., 2.]), fill_value=-1)[0].compute().tolist(), lambda r: r == [-1, -1, -1])
# F36
case("F36 blockwise over three reduced axes", lambda: groupby_reduce(da.ones((2, 2, 2), chunks=(1, 1, 1)), np.arange(8).reshape(2, 2, 2), func="sum", method="blockwise")[0].compute().tolist(), lambda r: r == [1.0] * 8)

# F37
case("F37 cohort planner with a zero-length chunk", lambda: groupby_reduce(da.from_array(np.array([1., 2., 4.]), chunks=((2, 0, 1),)), np.array([0, 1, 0]), func="sum")[0].compute().tolist(), lambda r: r == [5.0, 2.0])
# F38
def f38():
    by = np.zeros((3, 3, 4), int); by[0, :, 0] = by[0, :, 2] = by[2, :, 0] = by[2, :, 2] = 1; by[1, :, 1] = by[1, :, 3] = 2
    return groupby_reduce(da.from_array(np.arange(36.).reshape(3, 3, 4), chunks=1), by, func="sum")[0].compute().tolist()


case("F38 cohort non-contiguous along two separated block axes", f38, lambda r: r == [318.0, 204.0, 108.0])
# F39
case("F39 unsorted axis tuple on a dask array", lambda: groupby_reduce(da.from_array(np.arange(24.).reshape(4, 6), chunks=((2, 2), (3, 3))), np.array([[0, 1, 0, 1, 2, 1]] * 2 + [[2, 0, 2, 3, 3, 3]] * 2), func="sum", axis=(1, 0))[0].compute().tolist(), lambda r: r == [48.0, 36.0, 78.0, 114.0])

# F40
case("F40 argmax of datetime64 data", lambda: (lambda r: (r.dtype.kind, r.tolist()))(groupby_reduce(np.array(["2001-01-01", "2001-01-05", "2001-01-03", "2001-01-02"], "M8[ns]"), np.array([0, 0, 1, 1]), func="argmax")[0]), lambda r: r == ("i", [1, 2]))
# F41
case("F41 nanfirst, flox engine, size-1 label dimension", lambda: groupby_reduce(np.array([[np.nan, 2.0], [3.0, 4.0]]), np.array([[0, 0]]), func="nanfirst", engine="flox")[0].tolist(), lambda r: r == [2.0])
# F42
def f42():
    from flox.core import ReindexStrategy
    return groupby_reduce(da.from_array(np.arange(6.), chunks=2), np.array([0, 1, 0, 1, 2, 2]), func="argmax", reindex=ReindexStrategy(blockwise=True))[0].compute()


# (on the original snapshot this request dies earlier, in dask's adjust_chunks ValueError of F33; the TypeError shows once F33 is repaired:
#  the case accepts only the refusal flox itself documents for reindex=True)
def f42_strict():
    try:
        f42()
    except NotImplementedError:
        return "refused"
    return "computed"


case("F42 ReindexStrategy(blockwise=True) with an arg reduction", f42_strict, lambda r: r == "refused")

# F43
case("F43 any with a negative fill, finalizer reindex", lambda: groupby_reduce(da.from_array(np.arange(6.) > 2, chunks=2), np.array([1, 1, 2, 2, 5, 5]), func="any", expected_groups=np.array([0, 1, 2, 3]), fill_value=-1, method="map-reduce", reindex=False)[0].compute().tolist(), lambda r: r == [-1, 0, 1, -1])
case("F43 count with a fractional fill, finalizer reindex", lambda: groupby_reduce(da.from_array(np.arange(6.), chunks=2), np.array([1, 1, 2, 2, 5, 5]), func="count", expected_groups=np.array([0, 1, 2, 3]), fill_value=0.5, method="map-reduce", reindex=False)[0].compute().tolist(), lambda r: r == [0.5, 2.0, 2.0, 0.5])

# F44
case("F44 nansum of int8 on the automatic engine", lambda: groupby_reduce(np.array([100, 100], dtype=np.int8), np.zeros(2, int), func="nansum")[0].tolist(), lambda r: r == [200])
case("F44 count of 300 int8 values on the automatic engine", lambda: groupby_reduce(np.ones(300, dtype=np.int8), np.zeros(300, int), func="count")[0].tolist(), lambda r: r == [300])
# F45
case("F45 var of int8 [100, -100]", lambda: groupby_reduce(np.array([100, -100], dtype=np.int8), np.zeros(2, int), func="var", engine="numpy")[0].tolist(), lambda r: r == [10000.0])
# F46
case("F46 chunked var of int8", lambda: groupby_reduce(da.from_array(np.array([100, -100, 50, 20], dtype=np.int8), chunks=2), np.zeros(4, int), func="var")[0].compute().tolist(), lambda r: r == [5418.75])

# F47
case("F47 vector quantile, no requested label present", lambda: groupby_reduce(np.arange(12.).reshape(2, 6), np.full(6, 9), func="quantile", finalize_kwargs={"q": [0.25, 0.75]}, expected_groups=np.array([0, 1]), fill_value=np.nan)[0].shape, lambda r: r == (2, 2, 2))
# F48
def f48():
    rng = np.random.default_rng(0)
    a = rng.normal(size=(3, 2, 4)); by = np.array([[0, 0, 1, 1], [0, 1, 1, 5]])
    r = groupby_reduce(a, by, func="quantile", finalize_kwargs={"q": [0.25, 0.75]}, expected_groups=np.array([0, 1, 2]), fill_value=-1.0)[0]
    exp = np.full((2, 3, 3), -1.0)
    for b in range(3):
        for g in (0, 1):
            exp[:, b, g] = np.quantile(a[b][by == g], [0.25, 0.75])
    return r.shape == exp.shape and bool(np.allclose(r, exp))


case("F48 vector quantile over two reduced axes with a fill", f48, lambda r: r is True)
# F49
case("F49 nanmedian of an all-NaN group between others", lambda: groupby_reduce(np.array([1.0, 2.0, np.nan, np.nan, 5.0, 6.0]), np.array([0, 0, 1, 1, 2, 2]), func="nanmedian")[0].tolist(), lambda r: r[0] == 1.5 and r[2] == 5.5 and r[1] != r[1])

# F50
def f50():
    lab = np.array(["NaT", "NaT", "2001-01-01", "2001-01-02", "2001-01-01", "2001-01-03"], dtype="M8[ns]")
    r, g = groupby_reduce(da.from_array(np.arange(6.), chunks=2), da.from_array(lab, chunks=2), func="sum")
    return r.compute().tolist()


case("F50 lazy datetime labels with a block of NaT", f50, lambda r: r == [6.0, 3.0, 5.0])

# F51
case("F51 several groupers, a label combination that never occurs", lambda: groupby_reduce(np.arange(1.0, 5), np.array([1, -2, 1, -2]), np.array([0, 0, 0, -3]), func="sum", fill_value=-5)[0].tolist(), lambda r: r == [[4.0, 2.0], [-5.0, 4.0]])

# F52
case("F52 integer fill outside the range of a preserved int8 dtype (chunked)", lambda: groupby_reduce(da.from_array(np.arange(6, dtype=np.int8), chunks=2), np.array([1, 1, 2, 2, 5, 5]), func="max", expected_groups=np.array([0, 1, 2, 3]), fill_value=1000, method="map-reduce")[0].compute().tolist(), lambda r: r == [1000, 1, 3, 1000])
case("F52 the same, in memory", lambda: groupby_reduce(np.arange(6, dtype=np.int8), np.array([1, 1, 2, 2, 5, 5]), func="max", expected_groups=np.array([0, 1, 2, 3]), fill_value=1000)[0].tolist(), lambda r: r == [1000, 1, 3, 1000])

# F53
def f53():
    kw = {"q": 0.5}
    r = groupby_reduce(da.from_array(np.arange(12.0), chunks=6), np.repeat([0, 1], 6), func="quantile", finalize_kwargs=kw)[0]
    kw["q"] = 0.0
    return r.compute().tolist()


case("F53 finalize_kwargs edited after the lazy result was built", f53, lambda r: r == [2.5, 8.5])

# F54
case("F54 argmax with a NaN fill on an in-memory array", lambda: groupby_reduce(np.array([1.0, 5, 2, 9, 4, 7]), np.array([0, 0, 1, 1, 2, 2]), func="argmax", fill_value=np.nan, expected_groups=np.array([0, 1, 2, 3]))[0].tolist()[:3], lambda r: r == [1.0, 3.0, 5.0])

# F55
case("F55 integer dtype= for mean on the flox engine", lambda: groupby_reduce(np.array([1, 2, 3, 4], dtype=np.int8), np.array([0, 0, 1, 1]), func="mean", dtype="int16", engine="flox")[0].tolist(), lambda r: r == [1, 3])
case("F55 integer dtype= for median (automatic engine)", lambda: groupby_reduce(np.array([1, 2, 3, 4], dtype=np.int8), np.array([0, 0, 1, 1]), func="median", dtype="int16")[0].tolist(), lambda r: r == [1, 3])

# F56
def f56():
    a = np.array([1e8, 1.0, -1e8, 1.0], dtype=np.float32)
    rs = [groupby_reduce(da.from_array(a, chunks=4), np.zeros(4, int), func="nansum", engine=e)[0] for e in ("numpy", "flox")]
    alone = [r.compute().tolist() for r in rs]
    import dask
    together = [x.tolist() for x in dask.compute(*rs)]
    return alone == together


case("F56 lazy results that differ only in the engine, computed together", f56, lambda r: r is True)

# F57
def f57():
    bins = pd.date_range("2001-01-01", periods=4, freq="D")
    by = np.array(["2001-01-01T12", "2001-01-02T12", "2001-01-02T13", "2001-01-03T01"], dtype="M8[ns]")
    return groupby_reduce(np.ones(4), by, expected_groups=bins, isbin=True, func="count")[0].tolist()


case("F57 datetime labels and bin edges of different units", f57, lambda r: r == [1, 2, 1])
case("F57 bins closed on neither side", lambda: groupby_reduce(np.ones(5), np.array([0.0, 0.5, 1.0, 1.5, 2.0]), expected_groups=pd.IntervalIndex.from_breaks([0.0, 1.0, 2.0], closed="neither"), func="count")[0].tolist(), lambda r: r == [1, 1])

# F58
def f58():
    import flox.aggregations as A
    return str(groupby_reduce(np.array([True, False, True, True]), np.array([0, 0, 1, 1]), func=A.max_)[0].dtype)


case("F58 bool max given as an Aggregation object", f58, lambda r: r == "bool")

# F59
case("F59 complex min of a chunked array", lambda: groupby_reduce(da.from_array(np.array([1 + 1j, 2 - 1j, 3 + 0j, -1 + 2j, 0.5j, 4 + 4j]), chunks=2), np.array([0, 0, 1, 1, 2, 2]), func="min", engine="numpy", method="map-reduce", reindex=True)[0].compute().tolist(), lambda r: r == [1 + 1j, -1 + 2j, 0.5j])

# F60
case("F60 nanargmax of a 2-D in-memory array with a NaN fill", lambda: groupby_reduce(np.arange(6, dtype=np.float32).reshape(3, 2), np.zeros(2, int), func="nanargmax", fill_value=np.nan)[0].tolist(), lambda r: r == [[1.0], [1.0], [1.0]])

# F61
case("F61 chunked nancumsum with a missing label", lambda: groupby_scan(da.from_array(np.arange(5, dtype=np.float32), chunks=1), np.array([2.0, 1.0, np.nan, 0.0, 0.0]), func="nancumsum").compute(), lambda r: False, refusal_ok=True)

# F62
def f62():
    by3 = np.array([[[0, 0], [1, 1]], [[2, 2], [2, 2]]])
    r, g = groupby_reduce(da.from_array(np.ones((2, 2, 2)), chunks=(1, 2, 2)), da.from_array(by3, chunks=(1, 2, 2)), func="sum", axis=(1, 2), fill_value=0)
    return r.compute().tolist()


case("F62 unknown labels, two of three label axes reduced", f62, lambda r: r == [[2.0, 2.0, 0.0], [0.0, 0.0, 4.0]], refusal_ok=True)

# F63
case("F63 chunked std of a group of equal values", lambda: groupby_reduce(da.from_array(np.full(3, -17477.209205516196), chunks=2), np.zeros(3, int), func="std", engine="numpy")[0].compute().tolist(), lambda r: r == [0.0])

# F64
case("F64 empty expected_groups with sort=False", lambda: groupby_reduce(np.arange(4.0), np.array([0, 1, 0, 1]), func="sum", expected_groups=np.array([], dtype=int), sort=False, fill_value=0)[0].tolist(), lambda r: r == [])

# F65
case("F65 IntervalIndex with gaps", lambda: groupby_reduce(np.ones(12), np.array([0.0, 0.5, 1.0, 1.5, 2.0, 2.5, 3.0, 4.0, 5.0, 5.5, 6.0, 7.0]), expected_groups=pd.IntervalIndex.from_tuples([(0, 1), (2, 3), (5, 6)]), func="count")[0].tolist(), lambda r: r == [2, 2, 2])

# F66
case("F66 max on the numba engine with a NaN member", lambda: groupby_reduce(np.array([1.0, np.nan, 2.0]), np.array([0, 0, 0]), func="max", engine="numba")[0].tolist(), lambda r: r[0] != r[0])

# F67
case("F67 automatic plan with a zero-length chunk", lambda: groupby_reduce(da.from_array(np.arange(24.0), chunks=((5, 7, 0, 12),)), np.array([0] * 5 + [1] * 7 + [2] * 12), func="sum", expected_groups=np.arange(4), fill_value=-1)[0].compute().tolist(), lambda r: r == [10.0, 56.0, 210.0, -1.0])
# F68
case("F68 nancumsum over a zero-length chunk", lambda: [groupby_scan(da.from_array(np.array([1.0, 2.0, 3.0]), chunks=c), np.array([0, 0, 1]), func="nancumsum").compute(scheduler="sync").tolist() for c in (((2, 0, 1),), ((3, 0),), ((0, 1, 0, 2),))], lambda r: r == [[1.0, 3.0, 3.0]] * 3)
# F69
def f69():
    u = np.array([2**63 + 1] * 3 + [2**62 + 1] * 3 + [1] * 6, dtype=np.uint64)
    fl = np.array([0, 0, 2, 2, 2, 1, 1, 2, 2, 1, 1, 0], float)
    fl[:3] = np.nan
    return groupby_reduce(da.from_array(u, chunks=3), da.from_array(fl, chunks=3), func="max")[0].compute().tolist()


case("F69 uint64 max next to a block of missing labels", f69, lambda r: r == [1, 2**62 + 1, 2**62 + 1])

bad = 0
for name, verdict in results:
    print(f"{name:55s} {verdict}")
    bad += not verdict.startswith("OK")
sys.exit(1 if bad else 0)
