"""Checker self-test (thorough tier): breaking variants must fire and name the edited construct; behaviour-preserving twins
must stay silent.  Variants are textual edits applied to scratch copies of the *current* tree under a mkdtemp directory
outside /repo and /verif (deleted on exit).  A self-test failure is a checker bug: exit 2, never a VIOLATION."""
from __future__ import annotations

import os
import shutil
import subprocess
import sys
import tempfile
from concurrent.futures import ThreadPoolExecutor
from dataclasses import dataclass

from .model import AnalysisError, REPO


@dataclass
class Variant:
    name: str
    props: tuple            # properties whose check must fire (fire) / stay silent (silent)
    rule: str               # rule expected to fire ('' for silent twins)
    file: str               # relative to flox/
    old: str
    new: str
    expect: str = "fire"    # fire | silent
    must_mention: str = ""  # substring expected in the report line
    transform: tuple = ()   # ("reformat",) or ("rename", function, old, new): AST-level edit instead of old/new text


V = Variant
VARIANTS = [
    # ---------------- R-ALGEBRA / R-PARALLEL (C04, C02, C03, C06)
    V("nanmax fill NINF->0", ("C04",), "R-ALGEBRA", "aggregations.py", 'combine="nanmax",\n    fill_value=dtypes.NINF,', 'combine="nanmax",\n    fill_value=0,', must_mention="nanmax"),
    V("max combine max->nanmax", ("C04",), "R-ALGEBRA", "aggregations.py", 'max_ = Aggregation("max", chunk="max", combine="max"', 'max_ = Aggregation("max", chunk="max", combine="nanmax"', must_mention="max_"),
    V("nanmax combine nanmax->max", ("C04", "C02"), "R-ALGEBRA", "aggregations.py", 'chunk="nanmax",\n    combine="nanmax",', 'chunk="nanmax",\n    combine="max",', must_mention="nanmax"),
    V("mean combine (sum,sum)->(sum,max)", ("C04",), "R-ALGEBRA", "aggregations.py", '    "mean",\n    chunk=("sum", "nanlen"),\n    combine=("sum", "sum"),', '    "mean",\n    chunk=("sum", "nanlen"),\n    combine=("sum", "max"),', must_mention="mean"),
    V("argmin fill (INF,0)->(NINF,0)", ("C04", "C06"), "R-ALGEBRA", "aggregations.py", 'combine=("min", "argmin"),\n    reduction_type="argreduce",\n    fill_value=(dtypes.INF, 0),\n    final_fill_value=-1,\n    finalize=_pick_second,\n    dtypes=(None, np.intp),\n    final_dtype=np.intp,\n)\n\nnanargmax', 'combine=("min", "argmin"),\n    reduction_type="argreduce",\n    fill_value=(dtypes.NINF, 0),\n    final_fill_value=-1,\n    finalize=_pick_second,\n    dtypes=(None, np.intp),\n    final_dtype=np.intp,\n)\n\nnanargmax', must_mention="argmin"),
    V("var chunk order swapped", ("C04",), "R-ALGEBRA", "aggregations.py", '    "var",\n    chunk=("sum_of_squares", "sum", "nanlen"),', '    "var",\n    chunk=("sum", "sum_of_squares", "nanlen"),', must_mention="var"),
    V("all fill True->False", ("C04",), "R-ALGEBRA", "aggregations.py", 'combine="all",\n    fill_value=True,', 'combine="all",\n    fill_value=False,', must_mention="all_"),
    V("mean dtypes dropped", ("C04",), "R-ALGEBRA", "aggregations.py", '    "mean",\n    chunk=("sum", "nanlen"),\n    combine=("sum", "sum"),\n    finalize=_mean_finalize,\n    fill_value=(0, 0),\n    dtypes=(None, np.intp),', '    "mean",\n    chunk=("sum", "nanlen"),\n    combine=("sum", "sum"),\n    finalize=_mean_finalize,\n    fill_value=(0, 0),', must_mention="mean"),
    V("twin: fill_value=(0,0,0) instead of 0", ("C04",), "", "aggregations.py", '    "var",\n    chunk=("sum_of_squares", "sum", "nanlen"),\n    combine=("sum", "sum", "sum"),\n    finalize=_var_finalize,\n    fill_value=0,', '    "var",\n    chunk=("sum_of_squares", "sum", "nanlen"),\n    combine=("sum", "sum", "sum"),\n    finalize=_var_finalize,\n    fill_value=(0, 0, 0),', expect="silent"),
    V("twin: nanargmax combine -> (nanmax, nanargmax)", ("C04", "C06"), "", "aggregations.py", 'chunk=("nanmax", "nanargmax"),  # order is important\n    combine=("max", "argmax"),', 'chunk=("nanmax", "nanargmax"),  # order is important\n    combine=("nanmax", "nanargmax"),', expect="silent"),
    V("counter combine sum->max", ("C04", "C05"), "R-PARALLEL", "aggregations.py", 'agg.combine += ("sum",)', 'agg.combine += ("max",)', must_mention="agg.combine"),
    V("counter intermediate dtype dropped", ("C04", "C05"), "R-PARALLEL", "aggregations.py", '        agg.dtype["intermediate"] += (np.intp,)\n', '', must_mention="agg.dtype['intermediate']"),
    # ---------------- R-DISPATCH / R-STABLE (C01, C10)
    V("flox nanprod substitute 1->0", ("C01",), "R-DISPATCH", "aggregate_flox.py", 'nanprod = partial(_nan_grouped_op, func=prod, fillna=1)', 'nanprod = partial(_nan_grouped_op, func=prod, fillna=0)', must_mention="nanprod"),
    V("flox max uses minimum.reduceat", ("C01",), "R-DISPATCH", "aggregate_flox.py", 'max = partial(_np_grouped_op, op=np.maximum.reduceat)', 'max = partial(_np_grouped_op, op=np.minimum.reduceat)', must_mention="max"),
    V("numbagg exports sum = nansum", ("C01",), "R-DISPATCH", "aggregate_numbagg.py", '# sum = nansum\n', 'sum = nansum\n', must_mention="sum"),
    V("numbagg nanmax -> nanmin", ("C01",), "R-DISPATCH", "aggregate_numbagg.py", 'nanmax = partial(_numbagg_wrapper, func="nanmax")', 'nanmax = partial(_numbagg_wrapper, func="nanmin")', must_mention="nanmax"),
    V("npg nansum via nan_to_num", ("C01",), "R-DISPATCH", "aggregate_npg.py", '        np.where(np.isnan(array), 0, array),\n        axis=axis,\n        func="sum",', '        np.nan_to_num(array, nan=0),\n        axis=axis,\n        func="sum",', must_mention="nansum"),
    V("stable sort dropped in _prepare_for_flox", ("C01", "C10", "C06"), "R-STABLE", "aggregate_flox.py", 'perm = group_idx.argsort(kind="stable")', 'perm = group_idx.argsort()', must_mention="_prepare_for_flox"),
    V("twin: stable dropped in ffill inverse permutation", ("C01", "C10"), "", "aggregate_flox.py", 'np.argsort(perm, kind="stable")', 'np.argsort(perm)', expect="silent"),
    V("twin: nansum partial rewritten as def", ("C01",), "", "aggregate_flox.py", 'nansum = partial(_nan_grouped_op, func=sum, fillna=0)', 'def nansum(group_idx, array, *args, **kwargs):\n    return _nan_grouped_op(group_idx, array, *args, func=sum, fillna=0, **kwargs)\n', expect="silent"),
    # ---------------- R-TRUTHY / R-FILLFLOW (C05)
    V("fill_value or default", ("C05",), "R-TRUTHY", "aggregations.py", '        if agg.fill_value["user"] is None:\n            agg.fill_value["user"] = agg.fill_value[agg.name]', '        agg.fill_value["user"] = agg.fill_value["user"] or agg.fill_value[agg.name]', must_mention="fill_value"),
    V("if fill_value: in reindex_numpy", ("C05",), "R-TRUTHY", "core.py", '        if fill_value is None:\n            raise ValueError("Filling is required. fill_value cannot be None.")\n        indexer[axis] = idx == -1', '        if not fill_value:\n            raise ValueError("Filling is required. fill_value cannot be None.")\n        indexer[axis] = idx == -1', must_mention="reindex_numpy"),
    V("min_count tested by truthiness", ("C05",), "R-TRUTHY", "core.py", '    if min_count is None:\n        if nax < by_.ndim', '    if not min_count:\n        if nax < by_.ndim', must_mention="min_count"),
    V("finalizer masks with blueprint default", ("C05",), "R-FILLFLOW", "core.py", '    fill_value = agg.fill_value["user"]\n    if min_count > 0:', '    fill_value = agg.fill_value[agg.name]\n    if min_count > 0:', must_mention="_finalize_results"),
    V("twin: if fill_value is not None", ("C05",), "", "core.py", '            if fill_value is None:\n                raise ValueError("Filling is required but fill_value is None.")', '            if not (fill_value is not None):\n                raise ValueError("Filling is required but fill_value is None.")', expect="silent"),
    # ---------------- R-PURE / R-ARGS / R-GLOBAL / R-MEMO (C13, C14)
    V("idx = flat (no copy)", ("C13", "C03"), "R-PURE", "core.py", '        idx = flat.astype(np.intp)', '        idx = flat', must_mention="_factorize_single"),
    V("scan combine adds into its right operand (out=)", ("C03", "C13", "C10", "C14"), "R-PURE", "aggregations.py", '            array=agg.binary_op(reindexed[..., right.group_idx], right.array),', '            array=agg.binary_op(reindexed[..., right.group_idx], right.array, out=right.array),', must_mention="scan_binary_op"),
    V("in-place NaN substitution", ("C13",), "R-PURE", "aggregate_flox.py", '    result = func(group_idx, np.where(isnull(array), fillna, array), *args, **kwargs)', '    array[isnull(array)] = fillna\n    result = func(group_idx, array, *args, **kwargs)', must_mention="_nan_grouped_op"),
    V("array.sort() in a kernel", ("C13",), "R-PURE", "aggregate_flox.py", '    aux = group_idx\n', '    aux = group_idx\n    array.sort()\n', must_mention="_np_grouped_op"),
    V("var wrapper subtracts in place", ("C13",), "R-PURE", "aggregate_npg.py", '    array = array - first[..., group_idx]', '    array -= first[..., group_idx]', must_mention="_var_std_wrapper"),
    V("registry shallow-copied", ("C14",), "R-ARGS", "aggregations.py", 'agg_ = copy.deepcopy(AGGREGATIONS[func])', 'agg_ = copy.copy(AGGREGATIONS[func])', must_mention="AGGREGATIONS"),
    V("registry not copied", ("C14",), "R-ARGS", "aggregations.py", 'agg_ = copy.deepcopy(AGGREGATIONS[func])', 'agg_ = AGGREGATIONS[func]', must_mention="AGGREGATIONS"),
    V("user Aggregation shallow-copied", ("C14", "C13"), "R-ARGS", "aggregations.py", '        agg = copy.deepcopy(func)', '        agg = copy.copy(func)', must_mention="func"),
    V("xarray _rechunk without copy", ("C14",), "R-ARGS", "xarray.py", '    obj = obj.copy(deep=True)\n', '', must_mention="_rechunk"),
    V("get_parts result mutated", ("C14",), "R-MEMO", "dask_array_ops.py", '    keys, parts, out_chunks = get_parts(tuple(split_every.items()), chunks)\n', '    keys, parts, out_chunks = get_parts(tuple(split_every.items()), chunks)\n    parts[0].append([0])\n', must_mention="get_parts"),
    V("twin: np.where replaced by copy + masked store", ("C13",), "", "aggregate_flox.py", '    result = func(group_idx, np.where(isnull(array), fillna, array), *args, **kwargs)', '    filled = array.copy()\n    filled[isnull(array)] = fillna\n    result = func(group_idx, filled, *args, **kwargs)', expect="silent"),
    V("twin: .copy() dropped from ffill mask", ("C13",), "", "aggregate_flox.py", '    mask = isnull(array).copy()', '    mask = isnull(array)', expect="silent"),
    # ---------------- R-PICKLE / R-NONDET (C13)
    V("NA compared by identity", ("C13",), "R-PICKLE", "core.py", '            if xrdtypes.NA == fill_value:', '            if fill_value is xrdtypes.NA:', must_mention="_finalize_results"),
    V("random tie-breaker in a task", ("C13",), "R-NONDET", "core.py", 'def _expand_dims(results: IntermediateDict) -> IntermediateDict:\n', 'def _expand_dims(results: IntermediateDict) -> IntermediateDict:\n    import random\n    random.random()\n', must_mention="_expand_dims"),
    # ---------------- R-TOKEN / R-KEYS / R-ORDER / R-COVER (C14, C03, C09, C06)
    V("token drops expected_groups", ("C14",), "R-TOKEN", "core.py", 'tokenize(array, by, agg, expected_groups, axis, method, sort, engine)', 'tokenize(array, by, agg, axis, method, sort, engine)', must_mention="expected_groups"),
    V("token drops method", ("C14",), "R-TOKEN", "core.py", 'tokenize(array, by, agg, expected_groups, axis, method, sort, engine)', 'tokenize(array, by, agg, expected_groups, axis, sort, engine)', must_mention="method"),
    V("constant preprocess layer name", ("C14",), "R-TOKEN", "aggregations.py", '        token="groupby-argreduce-preprocess",', '        name="groupby-argreduce-preprocess",', must_mention="argreduce_preprocess"),
    V("__dask_tokenize__ drops min_count", ("C14", "C09"), "R-TOKEN", "aggregations.py", '            self.min_count,\n', '', must_mention="min_count"),
    V("cohort subset named without tokenize", ("C14", "C09"), "R-TOKEN", "core.py", 'name = "groupby-cohort-" + tokenize(array, index, reindexer)', 'name = "groupby-cohort-subset"', must_mention="subset_to_blocks"),
    V("cohort subset token without the reindexer", ("C14", "C09"), "R-TOKEN", "core.py", 'tokenize(array, index, reindexer)', 'tokenize(array, index)', must_mention="reindexer"),
    V("twin: more ingredients in the token", ("C14",), "", "core.py", 'tokenize(array, by, agg, expected_groups, axis, method, sort, engine)', 'tokenize(array, by, agg, expected_groups, axis, method, sort, engine, reindex)', expect="silent"),
    V("level dropped from intermediate name", ("C03",), "R-KEYS", "dask_array_ops.py", 'newname = name + f"-{block_index}-partial-{level}"', 'newname = name + f"-{block_index}-partial"', must_mention="_tree_reduce"),
    V("block_index dropped from intermediate name", ("C03", "C09"), "R-KEYS", "dask_array_ops.py", 'newname = name + f"-{block_index}-partial-{level}"', 'newname = name + f"-partial-{level}"', must_mention="_tree_reduce"),
    V("depth from positionally zipped split_every", ("C03", "C09"), "R-AXISKEY", "dask_array_ops.py", '    for i, n in enumerate(numblocks):\n        if i in split_every and split_every[i] != 1:\n            depth = int(builtins.max(depth, math.ceil(math.log(n, split_every[i]))))', '    for n, every in zip(numblocks, split_every.values()):\n        if every != 1:\n            depth = int(builtins.max(depth, math.ceil(math.log(n, every))))', must_mention="_tree_reduce"),
    V("constant block_index for cohorts", ("C03", "C09"), "R-KEYS", "core.py", '                    block_index=icohort,', '                    block_index=0,', must_mention="dask_groupby_agg"),
    V("_unique replaced by pd.unique in _normalize_indexes", ("C03", "C06"), "R-ORDER", "core.py", '        i = _unique(idx).squeeze()', '        i = pd.unique(idx).squeeze()', must_mention="_normalize_indexes"),
    V("cohort blocks from the row label only", ("C09", "C02"), "R-COVER", "core.py", '        allchunks = (label_chunks[member].tolist() for member in cohort)\n        chunk = tuple(set(itertools.chain(*allchunks)))', '        chunk = tuple(label_chunks[present_labels[rowidx].item()].tolist())', must_mention="find_group_cohorts"),
    V("twin: cohort blocks sorted at creation", ("C09", "C03"), "", "core.py", '        chunk = tuple(set(itertools.chain(*allchunks)))', '        chunk = tuple(sorted(set(itertools.chain(*allchunks))))', expect="silent"),
    # ---------------- R-PLAN / R-FINALCAST / R-DTYPETABLE (C02, C11)
    V("cohort reindexer decoupled from combine kind", ("C02",), "R-PLAN", "core.py", 'new_reindex = ReindexStrategy(blockwise=do_simple_combine, array_type=reindex.array_type)', 'new_reindex = ReindexStrategy(blockwise=True, array_type=reindex.array_type)', must_mention="dask_groupby_agg"),
    V("reindex_intermediates uses final fill", ("C02",), "R-PLAN", "core.py", '        for v, f in zip(x["intermediates"], agg.fill_value["intermediate"])', '        for v, f in zip(x["intermediates"], agg.fill_value["numpy"])', must_mention="reindex_intermediates"),
    V("final cast made conditional", ("C11",), "R-FINALCAST", "core.py", '    finalized[agg.name] = finalized[agg.name].astype(agg.dtype["final"], copy=False)\n    return finalized', '    if agg.finalize is not None:\n        finalized[agg.name] = finalized[agg.name].astype(agg.dtype["final"], copy=False)\n    return finalized', must_mention="_finalize_results"),
    V("cast after dispatch removed", ("C11",), "R-FINALCAST", "core.py", '                ).astype(dt, copy=False)', '                )', must_mention="chunk_reduce"),
    V("meta from array dtype", ("C11",), "R-FINALCAST", "core.py", 'meta=reindex.get_dask_meta(array, dtype=agg.dtype["final"], fill_value=agg.fill_value[agg.name]),', 'meta=reindex.get_dask_meta(array, dtype=array.dtype, fill_value=agg.fill_value[agg.name]),', must_mention="dask_groupby_agg"),
    V("count final dtype int32", ("C11",), "R-DTYPETABLE", "aggregations.py", '    dtypes=np.intp,\n    final_dtype=np.intp,\n)', '    dtypes=np.intp,\n    final_dtype=np.int32,\n)', must_mention="count"),
    V("min loses preserves_dtype", ("C11",), "R-DTYPETABLE", "aggregations.py", 'min_ = Aggregation("min", chunk="min", combine="min", fill_value=dtypes.INF, preserves_dtype=True)', 'min_ = Aggregation("min", chunk="min", combine="min", fill_value=dtypes.INF)', must_mention="min_"),
    # ---------------- R-SCANTABLE (C10), R-SENTINEL (C07, C08), R-COINDEX (C16), R-BLOCKONLY (C18), R-COLLIDE/R-CASTORDER (C20)
    V("nancumsum identity 1", ("C10",), "R-SCANTABLE", "aggregations.py", 'scan="nancumsum", identity=0)', 'scan="nancumsum", identity=1)', must_mention="nancumsum"),
    V("bfill without finalize reverse", ("C10",), "R-SCANTABLE", "aggregations.py", '    preprocess=reverse,\n    finalize=reverse,\n', '    preprocess=reverse,\n', must_mention="bfill"),
    V("ffill identity 0", ("C10",), "R-SCANTABLE", "aggregations.py", '    scan="ffill",\n    # Important: this must be NaN otherwise, ffill does not work.\n    identity=dtypes.NA,', '    scan="ffill",\n    # Important: this must be NaN otherwise, ffill does not work.\n    identity=0,', must_mention="ffill"),
    V("ravel sentinel restore deleted", ("C07",), "R-SENTINEL", "core.py", '    group_idx[nan_by_mask] = -1\n    return group_idx', '    return group_idx', must_mention="_ravel_factorized"),
    V("ravel sentinel mask from output", ("C07",), "R-SENTINEL", "core.py", '    nan_by_mask = reduce(np.logical_or, [(f == -1) for f in factorized])', '    nan_by_mask = group_idx == -1', must_mention="_ravel_factorized"),
    # ---------------- R-CONTIG (C03), R-REINDEXDTYPE (C11)
    V("tree nodes take every k-th block (strided parts)", ("C03", "C06"), "R-CONTIG", "dask_array_ops.py", '    parts = [list(partition_all(split_every.get(i, 1), range(n))) for (i, n) in enumerate(numblocks)]',
      '    parts = [[tuple(range(j, n, -(-n // split_every.get(i, 1)))) for j in range(-(-n // split_every.get(i, 1)))] for (i, n) in enumerate(numblocks)]', must_mention="strided"),
    V("tree nodes from a helper with strided ranges", ("C03",), "R-CONTIG", "dask_array_ops.py", '@lru_cache\ndef get_parts(split_every_items, chunks):',
      'def _balanced_parts(n, size):\n    ngroups = -(-n // size)\n    return [tuple(range(i, n, ngroups)) for i in range(ngroups)]\n\n\n@lru_cache\ndef get_parts(split_every_items, chunks):',
      expect="silent"),
    V("tree nodes from a helper with strided ranges (used)", ("C03",), "R-CONTIG", "dask_array_ops.py", '    parts = [list(partition_all(split_every.get(i, 1), range(n))) for (i, n) in enumerate(numblocks)]',
      '    parts = [(lambda n_, s_: [tuple(range(j, n_, -(-n_ // s_))) for j in range(-(-n_ // s_))])(n, split_every.get(i, 1)) for (i, n) in enumerate(numblocks)]', must_mention="strided"),
    V("tree nodes reversed", ("C03",), "R-CONTIG", "dask_array_ops.py", '    parts = [list(partition_all(split_every.get(i, 1), range(n))) for (i, n) in enumerate(numblocks)]',
      '    parts = [list(partition_all(split_every.get(i, 1), reversed(range(n)))) for (i, n) in enumerate(numblocks)]', must_mention="reorders"),
    V("twin: contiguous parts by explicit ranges", ("C03",), "", "dask_array_ops.py", '    parts = [list(partition_all(split_every.get(i, 1), range(n))) for (i, n) in enumerate(numblocks)]',
      '    parts = [[tuple(range(j, min(j + split_every.get(i, 1), n))) for j in range(0, n, split_every.get(i, 1))] for (i, n) in enumerate(numblocks)]', expect="silent"),
    V("reindex_ widens integers for the fill value", ("C11",), "R-REINDEXDTYPE", "core.py", '    else:\n        new_dtype = array.dtype\n',
      '    elif array.dtype.kind in "iu":\n        new_dtype = np.promote_types(array.dtype, np.min_scalar_type(fill_value))\n    else:\n        new_dtype = array.dtype\n', must_mention="dtype decision"),
    V("reindex_ promotes for every fill", ("C11",), "R-REINDEXDTYPE", "core.py", '    if xrdtypes.NA == fill_value or isnull(fill_value):\n        new_dtype, fill_value = xrdtypes.maybe_promote(array.dtype)\n    else:\n        new_dtype = array.dtype\n',
      '    new_dtype, promoted_fill = xrdtypes.maybe_promote(array.dtype)\n    if xrdtypes.NA == fill_value or isnull(fill_value):\n        fill_value = promoted_fill\n', must_mention="promotes the dtype for every fill"),
    V("reindex kernel recomputes its dtype", ("C11",), "R-REINDEXDTYPE", "core.py", '        reindexed = reindexed.astype(dtype, copy=False)\n', '        reindexed = reindexed.astype(np.result_type(dtype, fill_value), copy=False)\n', must_mention="reindex_numpy"),
    V("twin: reindex_ dtype bound through an intermediate local", ("C11",), "", "core.py", '    else:\n        new_dtype = array.dtype\n\n    if array_type is ReindexArrayType.AUTO:', '    else:\n        same = array.dtype\n        new_dtype = same\n\n    if array_type is ReindexArrayType.AUTO:', expect="silent"),
    # ---------------- R-NAMES / R-ATTR / R-DICTKEYS (C19)
    V("dangling name after a refactor (math.prod -> prod)", ("C19",), "R-NAMES", "core.py", '    sparsity = bitmask.nnz / math.prod(bitmask.shape)', '    sparsity = bitmask.nnz / prod(bitmask.shape)', must_mention="prod"),
    V("TYPE_CHECKING-only name evaluated at run time", ("C19",), "R-NAMES", "core.py", '        if TYPE_CHECKING:\n            # TODO: How else to narrow that array.chunks is there?\n            assert isinstance(array, DaskArray)', '        if not isinstance(array, DaskArray):\n            raise ValueError("expected a dask array")', must_mention="DaskArray"),
    V("misspelt attribute of the reindex strategy", ("C19",), "R-ATTR", "core.py", '        if count_mask.any() or reindex.array_type is ReindexArrayType.SPARSE_COO:', '        if count_mask.any() or reindex.arraytype is ReindexArrayType.SPARSE_COO:', must_mention="arraytype"),
    V("renamed blueprint field still read", ("C19",), "R-ATTR", "aggregations.py", '        return self.new_dims_func(**self.finalize_kwargs)', '        return self.new_dim_func(**self.finalize_kwargs)', must_mention="new_dim_func"),
    V("unknown enum member", ("C19",), "R-ATTR", "core.py", '        if count_mask.any() or reindex.array_type is ReindexArrayType.SPARSE_COO:', '        if count_mask.any() or reindex.array_type is ReindexArrayType.SPARSE:', must_mention="SPARSE"),
    V("slot key never written", ("C19",), "R-DICTKEYS", "core.py", '                dtype=agg.dtype["intermediate"],\n                reindex=reindex,\n                user_dtype=agg.dtype["user"],', '                dtype=agg.dtype["intermediate"],\n                reindex=reindex,\n                user_dtype=agg.dtype["requested"],', must_mention="requested"),
    V("twin: new blueprint attribute written in __init__ and read", ("C19",), "", "aggregations.py", '        self.new_dims_func: Callable = returns_empty_tuple if new_dims_func is None else new_dims_func\n', '        self.new_dims_func: Callable = returns_empty_tuple if new_dims_func is None else new_dims_func\n        self.has_new_dims = new_dims_func is not None\n        assert self.has_new_dims in (True, False)\n', expect="silent"),
    # ---------------- R-LAYOUT (C08)
    V("collapse in memory order (order='A')", ("C08", "C01"), "R-LAYOUT", "core.py", '    return arr.reshape(newshape)', '    return arr.reshape(newshape, order="A")', must_mention="_collapse_axis"),
    V("values flattened in Fortran order without their labels", ("C08",), "R-LAYOUT", "core.py", '                group_idx = group_idx.reshape(-1, order="F")\n                order = "F"', '                order = "F"', must_mention="Fortran"),
    V("labels flattened in Fortran order without their values", ("C08",), "R-LAYOUT", "core.py", '                group_idx = group_idx.reshape(-1, order="F")\n                order = "F"', '                group_idx = group_idx.reshape(-1, order="F")', must_mention="Fortran"),
    V("twin: explicit order='C'", ("C08",), "", "core.py", '    return arr.reshape(newshape)', '    return arr.reshape(newshape, order="C")', expect="silent"),
    # ---------------- R-UNIQUEFROM (C19)
    V("blockwise duplicate refusal removed", ("C19",), "R-UNIQUEFROM", "core.py", '        if method == "blockwise" and not pd.Index(groups_).is_unique:\n            raise ValueError(', '        if False:\n            raise ValueError(', must_mention="duplicates"),
    V("twin: uniqueness refusal written with np.unique", ("C19",), "", "core.py", '        if method == "blockwise" and not pd.Index(groups_).is_unique:', '        if method == "blockwise" and len(np.unique(groups_)) != groups_.size:', expect="silent"),
    # ---------------- R-EMPTYIDX / R-FILLNONE (C19), R-SUBSUMED (C04, C11)
    V("last requested label read from a possibly empty index", ("C19",), "R-EMPTYIDX", "core.py", '    elif len(expected_groups) > 0:\n        nlabels = expected_groups[-1] + 1\n    else:\n        # no label is present (all are missing): there is nothing to group, any plan will do\n        return "map-reduce", {}\n', '    else:\n        nlabels = expected_groups[-1] + 1\n', must_mention="expected_groups[-1]"),
    V("twin: emptiness tested through .size", ("C19",), "", "core.py", '    elif len(expected_groups) > 0:\n        nlabels = expected_groups[-1] + 1', '    elif expected_groups.size > 0:\n        nlabels = expected_groups[-1] + 1', expect="silent"),
    V("all-missing shortcut fills with a None fill value", ("C19",), "R-FILLNONE", "core.py", '            if fill_value is None:\n                if len(to) > 0:\n                    raise ValueError("Filling is required. fill_value cannot be None.")\n                reindexed = np.empty_like(array, shape=shape)\n            else:\n', '            if True:\n', must_mention="fill_value=None"),
    V("reindex kernel fills without refusing None", ("C19",), "R-FILLNONE", "core.py", '        if fill_value is None:\n            raise ValueError("Filling is required. fill_value cannot be None.")\n        indexer[axis] = idx == -1', '        indexer[axis] = idx == -1', must_mention="reindex_numpy"),
    V("timedelta tested after integer in maybe_promote", ("C04", "C11"), "R-SUBSUMED", "xrdtypes.py", '    elif np.issubdtype(dtype, np.timedelta64):\n        # See https://github.com/numpy/numpy/issues/10685\n        # np.timedelta64 is a subclass of np.integer\n        # Check np.timedelta64 before np.integer\n        fill_value = np.timedelta64("NaT")\n    elif np.issubdtype(dtype, np.integer):\n        dtype = np.float32 if dtype.itemsize <= 2 else np.float64\n        fill_value = np.nan\n',
      '    elif np.issubdtype(dtype, np.integer):\n        dtype = np.float32 if dtype.itemsize <= 2 else np.float64\n        fill_value = np.nan\n    elif np.issubdtype(dtype, np.timedelta64):\n        fill_value = np.timedelta64("NaT")\n', must_mention="timedelta64"),
    # ---------------- R-PLAN all-blocks clause (C02, C05)
    V("complete blocks skip the re-indexer in the simple combine", ("C02",), "R-PLAN", "core.py", '        x_chunk = deepmap(\n            partial(\n                reindex_intermediates,\n                agg=agg,\n                unique_groups=unique_groups,\n                array_type=reindex.array_type,\n            ),\n            x_chunk,\n        )',
      '        reindexer = partial(reindex_intermediates, agg=agg, unique_groups=unique_groups, array_type=reindex.array_type)\n        x_chunk = deepmap(lambda x: x if x["groups"].shape[-1] == len(unique_groups) else reindexer(x), x_chunk)', must_mention="bypass"),
    V("twin: re-indexer bound to a local first", ("C02",), "", "core.py", '        x_chunk = deepmap(\n            partial(\n                reindex_intermediates,\n                agg=agg,\n                unique_groups=unique_groups,\n                array_type=reindex.array_type,\n            ),\n            x_chunk,\n        )',
      '        reindexer = partial(reindex_intermediates, agg=agg, unique_groups=unique_groups, array_type=reindex.array_type)\n        x_chunk = deepmap(reindexer, x_chunk)', expect="silent"),
    # ---------------- R-ALIGNED / R-AUTOREFUSE (C19), R-MEMO key granularity (C14), R-CODELABELS (C07, C02)
    V("scan entry point loses its alignment refusal", ("C19",), "R-ALIGNED", "core.py", '    if by_.shape[-1] != array.shape[-1]:\n        raise ValueError(\n            "`array` and `by` must have the same length along the scanned axis. "', '    if False:\n        raise ValueError(\n            "`array` and `by` must have the same length along the scanned axis. "', must_mention="groupby_scan"),
    V("auto plan: arg-reduction shortcut moved above the partial-axis check", ("C19",), "R-AUTOREFUSE", "core.py",
      '        if nax != by.ndim:\n            logger.debug("_choose_method: choosing \'map-reduce\'")\n            return "map-reduce"\n\n        if _is_arg_reduction(agg) and preferred_method == "blockwise":\n            return "cohorts"\n',
      '        if _is_arg_reduction(agg) and preferred_method == "blockwise":\n            return "cohorts"\n\n        if nax != by.ndim:\n            logger.debug("_choose_method: choosing \'map-reduce\'")\n            return "map-reduce"\n', must_mention="cohorts"),
    V("auto plan: partial-axis check dropped", ("C19",), "R-AUTOREFUSE", "core.py", '        if nax != by.ndim:\n            logger.debug("_choose_method: choosing \'map-reduce\'")\n            return "map-reduce"\n\n', '', expect="silent"),
    V("auto plan: proposal guard no longer consults an explicit reindex", ("C19",), "R-AUTOPARAM", "core.py", '        if (not any_by_dask and method is None and not reindex.blockwise) or method == "cohorts":', '        if (not any_by_dask and method is None) or method == "cohorts":', must_mention="reindex"),
    V("auto plan: proposal guard consults reindex with the wrong polarity", ("C19",), "R-AUTOPARAM", "core.py", '        if (not any_by_dask and method is None and not reindex.blockwise) or method == "cohorts":', '        if (not any_by_dask and method is None and reindex.blockwise) or method == "cohorts":', must_mention="reindex"),
    V("twin: proposal guard leaves reordered", ("C19",), "", "core.py", '        if (not any_by_dask and method is None and not reindex.blockwise) or method == "cohorts":', '        if (method is None and not reindex.blockwise and not any_by_dask) or method == "cohorts":', expect="silent"),
    V("auto plan: arg reductions always sent to cohorts, even with the proposal pinned", ("C19",), "R-AUTOPARAM", "core.py", '        if _is_arg_reduction(agg) and preferred_method == "blockwise":\n            return "cohorts"\n', '        if _is_arg_reduction(agg):\n            return "cohorts"\n', must_mention="pinned"),
    V("arg-reduction shortcut hands the tuple of intermediates on, counts are appended later", ("C19",), "R-SEQKIND", "core.py", '                "intermediates": list(array_idx),', '                "intermediates": array_idx,', must_mention="tuple"),
    V("twin: intermediates unpacked into a list display", ("C19",), "", "core.py", '                "intermediates": list(array_idx),', '                "intermediates": [*array_idx],', expect="silent"),
    V("blockwise result slots built as a tuple, arg index rewritten in place", ("C19",), "R-SEQKIND", "core.py", '    results: IntermediateDict = {"groups": [], "intermediates": []}\n', '    results: IntermediateDict = {"groups": [], "intermediates": ()}\n', must_mention="tuple"),
    V("blockwise plan: size-1 label dimensions no longer broadcast", ("C19", "C11"), "R-BLOCKBCAST", "core.py", '        if method == "blockwise" and not any_by_dask and by_.shape != array.shape[-by_.ndim :]:\n            # size-1 dimensions of `by`: the per-block label lists need the labels of every block\n            by_ = np.broadcast_to(by_, array.shape[-by_.ndim :])\n', '', must_mention="by_"),
    V("blockwise plan: labels broadcast only for partial-axis reductions", ("C19", "C11"), "R-BLOCKBCAST", "core.py", '        if method == "blockwise" and not any_by_dask and by_.shape != array.shape[-by_.ndim :]:\n            # size-1', '        if method == "blockwise" and not any_by_dask and nax != by_.ndim and by_.shape != array.shape[-by_.ndim :]:\n            # size-1', must_mention="by_"),
    V("twin: broadcast guard conjuncts reordered", ("C19", "C11"), "", "core.py", '        if method == "blockwise" and not any_by_dask and by_.shape != array.shape[-by_.ndim :]:\n            # size-1', '        if by_.shape != array.shape[-by_.ndim :] and not any_by_dask and method == "blockwise":\n            # size-1', expect="silent"),
    V("twin: labels always broadcast for in-memory labels", ("C19", "C11"), "", "core.py", '        if method == "blockwise" and not any_by_dask and by_.shape != array.shape[-by_.ndim :]:\n            # size-1', '        if not any_by_dask:\n            # size-1', expect="silent"),
    V("planner: no early map-reduce proposal when no requested label is present", ("C19",), "R-EMPTYCOHORTS", "core.py", '    if not present_labels_mask.any():\n        # none of the requested labels is present: there is nothing to group (and no cohort to form), any plan will do\n        return "map-reduce", {}\n', '', must_mention="empty cohort map"),
    V("planner: absence guard tests an unrelated quantity", ("C19",), "R-EMPTYCOHORTS", "core.py", '    if not present_labels_mask.any():\n        # none of', '    if nchunks == 0:\n        # none of', must_mention="empty cohort map"),
    V("twin: absence guard written as a zero count", ("C19",), "", "core.py", '    if not present_labels_mask.any():\n        # none of', '    if present_labels_mask.sum() == 0:\n        # none of', expect="silent"),
    V("numpy re-indexer gathers with get_indexer and never fills the absent labels", ("C09", "C05", "C02"), "R-INDEXER", "core.py", '    if (idx == -1).any():\n        if fill_value is None:\n            raise ValueError("Filling is required. fill_value cannot be None.")\n        indexer[axis] = idx == -1\n        reindexed = reindexed.astype(dtype, copy=False)\n        reindexed[tuple(indexer)] = fill_value\n', '', must_mention="-1"),
    V("twin: absent mask bound to a local first", ("C09", "C05", "C02"), "", "core.py", '    if (idx == -1).any():\n        if fill_value is None:\n            raise ValueError("Filling is required. fill_value cannot be None.")\n        indexer[axis] = idx == -1\n', '    absent = idx == -1\n    if absent.any():\n        if fill_value is None:\n            raise ValueError("Filling is required. fill_value cannot be None.")\n        indexer[axis] = absent\n', expect="silent"),
    V("collapsed block axes written as one axis with k-1 chunks", ("C11", "C19"), "R-ARITY", "core.py", '((1,),) * (len(axis) - 1) + group_chunks', '((1,) * (len(axis) - 1),) + group_chunks', must_mention="len(axis) == 2"),
    V("twin: repetition count written first", ("C11", "C19"), "", "core.py", '((1,),) * (len(axis) - 1) + group_chunks', '(len(axis) - 1) * ((1,),) + group_chunks', expect="silent"),
    V("twin: last index taken as a slice", ("C11", "C19"), "", "core.py", 'out_inds = new_inds + inds[: -len(axis)] + (inds[-1],)', 'out_inds = new_inds + inds[: -len(axis)] + inds[-1:]', expect="silent"),
    V("output indices keep one reduced axis too many", ("C11", "C19"), "R-ARITY", "core.py", 'out_inds = new_inds + inds[: -len(axis)] + (inds[-1],)', 'out_inds = new_inds + inds[: -len(axis) + 1] + (inds[-1],)', must_mention="zip(out_inds"),
    V("planner: block-id shortcut guarded by the total length only", ("C09",), "R-BITMASK", "core.py", '    if len(chunks) == 1 and all(c == 1 for c in chunks[0]):', '    if shape == (nchunks,):', must_mention="(2, 0, 1)"),
    V("twin: block-id shortcut guard with another loop variable", ("C09",), "", "core.py", '    if len(chunks) == 1 and all(c == 1 for c in chunks[0]):', '    if len(chunks) == 1 and all(size == 1 for size in chunks[0]):', expect="silent"),
    V("cohort block keys gathered with slices and meshes mixed", ("C09", "C19"), "R-MESHINDEX", "core.py", '    new_keys = array._key_array[np.ix_(*positions)]', '    new_keys = array._key_array[index]', must_mention="mixes"),
    V("twin: open mesh bound to a local first", ("C09", "C19"), "", "core.py", '    new_keys = array._key_array[np.ix_(*positions)]', '    mesh = np.ix_(*positions)\n    new_keys = array._key_array[mesh]', expect="silent"),
    V("explicit axis tuple keeps the user's order", ("C08", "C02", "C19"), "R-AXISORDER", "core.py", '        axis_ = tuple(sorted(normalize_axis_tuple(axis, array.ndim)))', '        axis_ = normalize_axis_tuple(axis, array.ndim)', must_mention="axis=(1, 0)"),
    V("twin: axis tuple sorted in a second statement", ("C08", "C02", "C19"), "", "core.py", '        axis_ = tuple(sorted(normalize_axis_tuple(axis, array.ndim)))', '        axis_ = normalize_axis_tuple(axis, array.ndim)\n        axis_ = tuple(np.sort(axis_).tolist())', expect="silent"),
    V("positions of datetime data cast back to datetimes", ("C11",), "R-ROUNDTRIP", "core.py", '    if requires_numeric and func != "count" and not _is_arg_reduction(func):', '    if requires_numeric and func != "count":', must_mention="argmax"),
    V("twin: integer-valued reductions excluded by name", ("C11",), "", "core.py", '    if requires_numeric and func != "count" and not _is_arg_reduction(func):', '    if requires_numeric and func not in ["count", "argmax", "argmin", "nanargmax", "nanargmin"]:', expect="silent"),
    V("Fortran-order shortcut also taken for first / last", ("C06", "C01"), "R-FORDER", "core.py", '            if engine == "flox" and not any(_is_first_last_reduction(f) for f in funcs):', '            if engine == "flox":', must_mention="column-major"),
    V("twin: positional family excluded through a local flag", ("C06", "C01"), "", "core.py", '            if engine == "flox" and not any(_is_first_last_reduction(f) for f in funcs):', '            if engine == "flox" and not any(_is_first_last_reduction(f_) for f_ in funcs):', expect="silent"),
    V("reindex refusals test the boolean spelling only", ("C19",), "R-NORMFORM", "core.py", '    if reindex_.blockwise is True and not all_eager:', '    if reindex is True and not all_eager:', must_mention="spelling"),
    V("twin: normalised strategy tested through a local flag", ("C19",), "", "core.py", '    if reindex_.blockwise is True and not all_eager:', '    wants_blockwise = reindex_.blockwise is True\n    if wants_blockwise and not all_eager:', expect="silent"),
    V("finalizer re-indexes the un-cast value with the user's fill", ("C05", "C11"), "R-FILLCAST", "core.py", '            finalized[agg.name].astype(agg.dtype["final"], copy=False),\n            squeezed["groups"],', '            finalized[agg.name],\n            squeezed["groups"],', must_mention="fill_value=-1"),
    V("twin: final cast as a statement before the finalizer's reindex (and again at the end)", ("C05", "C11"), "", "core.py", '    # Final reindexing has to be here to be lazy\n    if not reindex.blockwise and expected_groups is not None:\n        # the final dtype has room for the user\'s fill value (e.g. any/all or count with a negative or fractional fill): cast first\n        finalized[agg.name] = reindex_(\n            finalized[agg.name].astype(agg.dtype["final"], copy=False),', '    finalized[agg.name] = finalized[agg.name].astype(agg.dtype["final"], copy=False)\n    if not reindex.blockwise and expected_groups is not None:\n        finalized[agg.name] = reindex_(\n            finalized[agg.name],', expect="silent"),
    V("variance shift only widens unsigned input", ("C20", "C01"), "R-VARSHIFT[width]", "aggregate_npg.py", '    dtype = np.float64 if array.dtype.kind in "iub" else array.dtype', '    dtype = np.result_type(array, np.int8(-1) * array[0])', must_mention="int8"),
    V("variance shift widens integers to the next signed size only up to 32 bits", ("C20", "C01"), "R-VARSHIFT[width]", "aggregate_npg.py", '    dtype = np.float64 if array.dtype.kind in "iub" else array.dtype', '    dtype = np.result_type(array.dtype, np.int64) if array.dtype.kind in "iub" else array.dtype', must_mention="i8"),
    V("twin: integers promoted with float64", ("C20", "C01"), "", "aggregate_npg.py", '    dtype = np.float64 if array.dtype.kind in "iub" else array.dtype', '    dtype = np.result_type(array.dtype, np.float64) if array.dtype.kind in "iub" else array.dtype', expect="silent"),
    V("numbagg wrapper no longer widens integer data before accumulating", ("C20", "C01"), "R-ACCFORWARD", "aggregate_numbagg.py", '    if dtype is not None and array.dtype.kind in "iub" and func in ACCUMULATES:\n        array = array.astype(np.result_type(array.dtype, dtype), copy=False)\n', '', must_mention="accumulates in the dtype of the data"),
    V("numbagg wrapper widens sums only, not products or counts", ("C20", "C01"), "R-ACCFORWARD", "aggregate_numbagg.py", 'ACCUMULATES = ("nansum", "nanprod", "nansum_of_squares", "nancount")', 'ACCUMULATES = ("nansum", "nansum_of_squares")', must_mention="nanprod"),
    V("numbagg count wrapper drops its dtype", ("C20", "C01"), "R-ACCFORWARD", "aggregate_numbagg.py", '        func="nancount",\n        # fill_value=fill_value,\n        dtype=dtype,\n', '        func="nancount",\n        # fill_value=fill_value,\n        # dtype=dtype,\n', must_mention="nanlen"),
    V("twin: accumulating kernels listed inline", ("C20", "C01"), "", "aggregate_numbagg.py", 'and func in ACCUMULATES:', 'and func in ("nansum", "nanprod", "nansum_of_squares", "nancount"):', expect="silent"),
    V("flox engine squares in the input dtype", ("C20",), "R-ACCFORWARD", "aggregate_flox.py", '    if dtype is not None:\n        # square in the accumulation dtype: the squares of int8 values do not fit int8\n        array = array.astype(np.result_type(array.dtype, dtype), copy=False)\n    return sum(\n        group_idx,\n        array**2,', '    return sum(\n        group_idx,\n        array**2,', must_mention="squares"),
    V("twin: flox engine squares a widened copy bound to the same name", ("C20",), "", "aggregate_flox.py", '        array = array.astype(np.result_type(array.dtype, dtype), copy=False)\n    return sum(\n        group_idx,\n        array**2,', '        array = array.astype(np.promote_types(array.dtype, dtype))\n    return sum(\n        group_idx,\n        array**2,', expect="silent"),
    V("numpy re-indexer gathers with the inverse lookup", ("C16", "C05"), "R-INDEXDIR", "core.py", '    idx = from_.get_indexer(to)\n    indexer = [slice(None, None)] * array.ndim', '    idx = to.get_indexer(from_)\n    indexer = [slice(None, None)] * array.ndim', must_mention="inverse"),
    V("twin: target labels wrapped before the lookup", ("C16", "C05"), "", "core.py", '    idx = from_.get_indexer(to)\n    indexer = [slice(None, None)] * array.ndim', '    idx = from_.get_indexer(pd.Index(to))\n    indexer = [slice(None, None)] * array.ndim', expect="silent"),
    V("interpolation writes into a copy=False cast of its own operand", ("C18",), "R-OUTALIAS", "aggregate_flox.py", '    if out is None:\n        out = np.empty_like(a, dtype=dtype)\n    with np.errstate(invalid="ignore"):\n        diff_b_a = np.subtract(b, a)\n', '    with np.errstate(invalid="ignore"):\n        diff_b_a = np.subtract(b, a)\n    if out is None:\n        out = diff_b_a.astype(dtype, copy=False)\n', must_mention="diff_b_a"),
    V("twin: interpolation writes into a copying cast of its operand", ("C18",), "", "aggregate_flox.py", '    if out is None:\n        out = np.empty_like(a, dtype=dtype)\n    with np.errstate(invalid="ignore"):\n        diff_b_a = np.subtract(b, a)\n', '    with np.errstate(invalid="ignore"):\n        diff_b_a = np.subtract(b, a)\n    if out is None:\n        out = diff_b_a.astype(dtype, copy=True)\n', expect="silent"),
    V("grouper transposed with an inline inverse permutation", ("C07", "C08"), "R-PAIRS[transpose]", "xarray.py", '        order = [dims.index(d) for d in core_dims[0] if d in dims]\n        array = array.transpose(*order)', '        target = [d for d in core_dims[0] if d in dims]\n        array = array.transpose(*(target.index(d) for d in dims))', must_mention="inverse"),
    V("twin: forward permutation written inline", ("C07", "C08"), "", "xarray.py", '        order = [dims.index(d) for d in core_dims[0] if d in dims]\n        array = array.transpose(*order)', '        array = array.transpose(*[dims.index(d) for d in core_dims[0] if d in dims])', expect="silent"),
    V("all-missing arm allocates without the new dimensions", ("C18", "C11"), "R-ARITY", "core.py", '            result = np.full(shape=new_dims_shape + final_array_shape, fill_value=fv, dtype=dt)', '            result = np.full(shape=final_array_shape, fill_value=fv, dtype=dt)', must_mention="q axis"),
    V("twin: all-missing arm builds its shape in a local", ("C18", "C11"), "", "core.py", '            result = np.full(shape=new_dims_shape + final_array_shape, fill_value=fv, dtype=dt)', '            result = np.full(shape=(*new_dims_shape, *final_array_shape), fill_value=fv, dtype=dt)', expect="silent"),
    V("singleton reduced axes addressed by absolute position on every intermediate", ("C18", "C11"), "R-ARITY", "core.py", '        squeeze_ax = tuple(ax for ax in range(v.ndim - nax, v.ndim - 1) if v.shape[ax] == 1)', '        squeeze_ax = tuple(ax for ax in sorted(axis)[:-1] if v.shape[ax] == 1)', must_mention="counter"),
    V("groups without a valid member no longer masked in the quantile kernel", ("C18", "C01"), "R-NOVALID", "aggregate_flox.py", '    novalid = actual_sizes < 0\n    if np.any(novalid):\n        result[..., novalid] = np.nan\n', '', must_mention="neighbour"),
    V("groups without a valid member masked only when NaN is not skipped", ("C18", "C01"), "R-NOVALID", "aggregate_flox.py", '    novalid = actual_sizes < 0\n    if np.any(novalid):\n', '    novalid = actual_sizes < 0\n    if not skipna and np.any(novalid):\n', must_mention="neighbour"),
    V("twin: no-valid mask applied without the any() shortcut", ("C18", "C01"), "", "aggregate_flox.py", '    novalid = actual_sizes < 0\n    if np.any(novalid):\n        result[..., novalid] = np.nan\n', '    result[..., actual_sizes < 0] = np.nan\n', expect="silent"),
    V("variance shift promotes against a bare Python int", ("C20", "C01"), "R-VARSHIFT[width]", "aggregate_npg.py", '    dtype = np.float64 if array.dtype.kind in "iub" else array.dtype', '    dtype = np.result_type(array.dtype, -1)', must_mention="u1"),
    V("numbagg arg-reduction refusal narrowed to lazy labels", ("C06", "C19"), "R-ENGINEFILL", "core.py", '    if engine == "numbagg" and _is_arg_reduction(func) and (any_by_dask or is_duck_dask_array(array)):', '    if engine == "numbagg" and _is_arg_reduction(func) and any_by_dask:', must_mention="chunked"),
    V("twin: numbagg arg-reduction refusal with its disjuncts swapped", ("C06", "C19"), "", "core.py", '    if engine == "numbagg" and _is_arg_reduction(func) and (any_by_dask or is_duck_dask_array(array)):', '    if _is_arg_reduction(func) and engine == "numbagg" and (is_duck_dask_array(array) or any_by_dask):', expect="silent"),
    V("blueprint getter builds its value incrementally in self", ("C13",), "R-GETTER", "aggregations.py", '    @cached_property\n    def new_dims(self) -> tuple[Dim]:\n        return self.new_dims_func(**self.finalize_kwargs)\n', '    @property\n    def new_dims(self) -> tuple[Dim]:\n        if not getattr(self, "_new_dims", None):\n            self._new_dims = ()\n            for d in self.new_dims_func(**self.finalize_kwargs):\n                self._new_dims += (d,)\n        return self._new_dims\n', must_mention="half-built"),
    V("twin: blueprint getter recomputed on every read", ("C13",), "", "aggregations.py", '    @cached_property\n    def new_dims(self) -> tuple[Dim]:\n        return self.new_dims_func(**self.finalize_kwargs)\n', '    @property\n    def new_dims(self) -> tuple[Dim]:\n        return self.new_dims_func(**self.finalize_kwargs)\n', expect="silent"),
    V("all-missing block answered with an untyped NaN label", ("C12", "C19"), "R-PLACEHOLDER", "core.py", '            results["groups"] = np.array([np.nan]).astype(by.dtype if by.dtype.kind in "fcmM" else np.float64)', '            results["groups"] = np.array([np.nan])', must_mention="DTypePromotionError"),
    V("twin: typed placeholder built with np.full", ("C12", "C19"), "", "core.py", '            results["groups"] = np.array([np.nan]).astype(by.dtype if by.dtype.kind in "fcmM" else np.float64)', '            results["groups"] = np.full((1,), np.nan).astype(by.dtype if by.dtype.kind in "fcmM" else np.float64)', expect="silent"),
    V("count mask not switched on for product grids of several groupers", ("C05", "C07"), "R-ABSENTMASK", "core.py", 'fill_value is not None and (provided_expected or nby > 1))', 'fill_value is not None and provided_expected)', must_mention="several groupers"),
    V("twin: product-grid condition through the number of label arrays", ("C05", "C07"), "", "core.py", 'fill_value is not None and (provided_expected or nby > 1))', 'fill_value is not None and (len(bys) > 1 or provided_expected))', expect="silent"),
    V("integer fills widen by weak-scalar promotion only", ("C05", "C11"), "R-FILLWIDEN", "xrdtypes.py", '        if (\n            isinstance(fill_value, (int, np.integer))\n            and not isinstance(fill_value, (bool, np.bool_))\n            and dtype.kind in "iu"\n            and not (np.iinfo(dtype).min <= fill_value <= np.iinfo(dtype).max)\n        ):\n            # a Python integer is a weak scalar: it never widens an integer dtype, however large it is\n            dtype = np.result_type(dtype, np.min_scalar_type(fill_value))\n        else:\n            dtype = np.result_type(dtype, fill_value)\n', '        dtype = np.result_type(dtype, fill_value)\n', must_mention="weak"),
    V("finalize_kwargs stored by reference in the blueprint", ("C14",), "R-CAPTURE", "aggregations.py", '        agg.finalize_kwargs = copy.deepcopy(finalize_kwargs)', '        agg.finalize_kwargs = finalize_kwargs', must_mention="caller"),
    V("twin: finalize_kwargs copied with a dict display", ("C14",), "", "aggregations.py", '        agg.finalize_kwargs = copy.deepcopy(finalize_kwargs)', '        agg.finalize_kwargs = {**finalize_kwargs}', expect="silent"),
    V("eager arg reduction unravels the final-dtype slot without an integer cast", ("C19",), "R-INTINDEX", "core.py", '        results["intermediates"][0] = np.unravel_index(\n            results["intermediates"][0].astype(np.intp, copy=False), array.shape\n        )[-1]', '        results["intermediates"][0] = np.unravel_index(results["intermediates"][0], array.shape)[-1]', must_mention="only int indices"),
    V("interpolation stores into the requested dtype under same-kind casting", ("C19",), "R-INPLACECAST", "aggregate_flox.py", '    np.add(a, diff_b_a * t, out=out, casting="unsafe")', '    np.add(a, diff_b_a * t, out=out)', must_mention="UFuncTypeError"),
    V("groupers factorized largest first, results gathered with the same permutation", ("C07",), "R-PAIRS[groupers]", "core.py", '            futures = [\n                executor.submit(partial(_factorize_single, sort=sort, reindex=reindex), groupvar, expect)\n                for groupvar, expect in zip(by, expected_groups)\n            ]\n            results = tuple(f.result() for f in futures)', '            order = sorted(range(len(by)), key=lambda i: by[i].size, reverse=True)\n            futures = [\n                executor.submit(partial(_factorize_single, sort=sort, reindex=reindex), by[i], expected_groups[i])\n                for i in order\n            ]\n            results = tuple(futures[i].result() for i in order)', must_mention="permut"),
    V("twin: groupers submitted by position", ("C07",), "", "core.py", '                executor.submit(partial(_factorize_single, sort=sort, reindex=reindex), groupvar, expect)\n                for groupvar, expect in zip(by, expected_groups)\n', '                executor.submit(partial(_factorize_single, sort=sort, reindex=reindex), by[i], expected_groups[i])\n                for i in range(len(by))\n', expect="silent"),
    V("numbagg widening target narrowed to float32 for 16-bit integers", ("C20", "C01"), "R-CASTORDER", "aggregate_numbagg.py", '            if np.issubdtype(array.dtype, from_):\n                array = array.astype(to_, copy=False)', '            if np.issubdtype(array.dtype, from_):\n                if to_ is np.float64 and array.dtype.itemsize <= 2:\n                    to_ = np.float32\n                array = array.astype(to_, copy=False)', must_mention="float32"),
    V("twin: numbagg widening table keyed by the abstract integer type", ("C20", "C01"), "", "aggregate_numbagg.py", '    "nanmean": {np.int_: np.float64},\n    "nanvar": {np.int_: np.float64},\n    "nanstd": {np.int_: np.float64},', '    "nanmean": {np.integer: np.float64},\n    "nanvar": {np.integer: np.float64},\n    "nanstd": {np.integer: np.float64},', expect="silent"),
    V("leftover partition of a tree level aliased to its first block", ("C09", "C03"), "R-WHOLEPART", "dask_array_ops.py", '        free = {i: j[0] for (i, j) in enumerate(p) if len(j) == 1 and i not in split_every}', '        free = {i: j[0] for (i, j) in enumerate(p) if i not in split_every}', must_mention="first block"),
    V("maybe_promote treats floats like integers (float32 widened)", ("C11",), "R-PROMOTEIDEM", "xrdtypes.py", '    if np.issubdtype(dtype, np.floating):\n        fill_value = np.nan\n    elif np.issubdtype(dtype, np.timedelta64):\n        # See https://github.com/numpy/numpy/issues/10685\n        # np.timedelta64 is a subclass of np.integer\n        # Check np.timedelta64 before np.integer\n        fill_value = np.timedelta64("NaT")\n    elif np.issubdtype(dtype, np.integer):\n', '    if np.issubdtype(dtype, np.timedelta64):\n        fill_value = np.timedelta64("NaT")\n    elif np.issubdtype(dtype, np.integer) or np.issubdtype(dtype, np.floating):\n', must_mention="float32"),
    V("twin: maybe_promote tests floats after the integers", ("C11",), "", "xrdtypes.py", '    if np.issubdtype(dtype, np.floating):\n        fill_value = np.nan\n    elif np.issubdtype(dtype, np.timedelta64):\n        # See https://github.com/numpy/numpy/issues/10685\n        # np.timedelta64 is a subclass of np.integer\n        # Check np.timedelta64 before np.integer\n        fill_value = np.timedelta64("NaT")\n    elif np.issubdtype(dtype, np.integer):\n        dtype = np.float32 if dtype.itemsize <= 2 else np.float64\n        fill_value = np.nan\n', '    if np.issubdtype(dtype, np.timedelta64):\n        fill_value = np.timedelta64("NaT")\n    elif np.issubdtype(dtype, np.integer):\n        dtype = np.float32 if dtype.itemsize <= 2 else np.float64\n        fill_value = np.nan\n    elif np.issubdtype(dtype, np.floating):\n        fill_value = np.nan\n', expect="silent"),
    V("xarray wrapper drops min_count for non-skipping reductions", ("C05",), "R-PASSTHROUGH[options]", "xarray.py", '                func = f"nan{func}"\n\n        result, *groups = groupby_reduce(array, *by, func=func, **kwargs)', '                func = f"nan{func}"\n        elif kwargs.get("min_count") is not None:\n            kwargs["min_count"] = None\n\n        result, *groups = groupby_reduce(array, *by, func=func, **kwargs)', must_mention="min_count"),
    V("token drops the engine", ("C14",), "R-TOKEN", "core.py", 'tokenize(array, by, agg, expected_groups, axis, method, sort, engine)', 'tokenize(array, by, agg, expected_groups, axis, method, sort)', must_mention="engine"),
    V("bins closed on neither side binned like left-closed ones", ("C07",), "R-CLOSEDSIDE", "core.py", '            if expect.closed == "neither":\n                # open on both sides: a label that sits on an edge belongs to no bin (like pandas.cut)\n                idx[np.isin(flat, bins)] = -1\n', '', must_mention="neither"),
    V("datetime edges viewed as integers, labels handed over as they are", ("C07",), "R-CLOSEDSIDE", "core.py", '                idx = np.digitize(flat.view(np.int64), bins=bins.view(np.int64), right=right)', '                idx = np.digitize(flat, bins=bins.view(np.int64), right=right)', must_mention="representation"),
    V("first/last predicate recognises names only", ("C11", "C19"), "R-PREDFAMILY", "core.py", 'def _is_first_last_reduction(func: T_Agg) -> bool:\n    if isinstance(func, Aggregation):\n        func = func.name\n', 'def _is_first_last_reduction(func: T_Agg) -> bool:\n', must_mention="spelling"),
    V("finalizer takes the last intermediate for the counts unconditionally", ("C05", "C03"), "R-COUNTER", "core.py", '    if min_count > 0:\n        counts = squeezed["intermediates"][-1]\n        squeezed["intermediates"] = squeezed["intermediates"][:-1]\n', '    counts = squeezed["intermediates"][-1]\n    if min_count > 0:\n        squeezed["intermediates"] = squeezed["intermediates"][:-1]\n', must_mention="last intermediate"),
    V("complex +inf sentinel built by arithmetic", ("C04", "C20"), "R-INFRESOLVE", "xrdtypes.py", '        return complex(np.inf, np.inf)', '        return np.inf + 1j * np.inf', must_mention="NaN"),
    V("twin: complex +inf sentinel from two float infinities", ("C04", "C20"), "", "xrdtypes.py", '        return complex(np.inf, np.inf)', '        return complex(float("inf"), float("inf"))', expect="silent"),
    V("fill kernel takes max() == 0 for a single group", ("C10",), "R-ONESIDED", "aggregate_flox.py", '    group_idx, array, perm = _prepare_for_flox(group_idx, array)\n    shape = array.shape\n    ndim = array.ndim\n', '    if group_idx.max() == 0:\n        perm = slice(None)\n    else:\n        group_idx, array, perm = _prepare_for_flox(group_idx, array)\n    shape = array.shape\n    ndim = array.ndim\n', must_mention="-1"),
    V("twin: single-group shortcut tests both ends", ("C10",), "", "aggregate_flox.py", '    group_idx, array, perm = _prepare_for_flox(group_idx, array)\n    shape = array.shape\n    ndim = array.ndim\n', '    if group_idx.max() == 0 and group_idx.min() == 0:\n        perm = slice(None)\n    else:\n        group_idx, array, perm = _prepare_for_flox(group_idx, array)\n    shape = array.shape\n    ndim = array.ndim\n', expect="silent"),
    V("finalizer skips its re-index when the found labels are the requested ones as a set", ("C16", "C05"), "R-REINDEXSKIP", "core.py", '    if not reindex.blockwise and expected_groups is not None:\n        # the final dtype has room', '    complete = expected_groups is not None and len(squeezed["groups"]) == len(expected_groups) and bool(pd.Index(squeezed["groups"]).isin(expected_groups).all())\n    if not reindex.blockwise and expected_groups is not None and not complete:\n        # the final dtype has room', must_mention="permutation"),
    V("twin: finalizer skips its re-index for labels equal in order", ("C16", "C05"), "", "core.py", '    if not reindex.blockwise and expected_groups is not None:\n        # the final dtype has room', '    same = expected_groups is not None and pd.Index(squeezed["groups"]).equals(expected_groups)\n    if not reindex.blockwise and expected_groups is not None and not same:\n        # the final dtype has room', expect="silent"),
    V("eager arg reductions run their kernel in the final dtype", ("C19",), "R-INTINDEX", "aggregations.py", '        agg.dtype["numpy"] = (np.dtype(np.intp),)\n', '', must_mention="N-d"),
    V("numpy-engine nanmax answers all-NaN groups with NaN", ("C06", "C04"), "R-ALLNANFILL", "aggregate_npg.py", 'def nansum(group_idx, array, engine, *, axis=-1, size=None, fill_value=None, dtype=None):', 'def _nan_minmax(group_idx, array, engine, *, func, axis=-1, size=None, fill_value=None, dtype=None):\n    aggregate = _get_aggregate(engine).aggregate\n    result = aggregate(group_idx, array, axis=axis, func=func, size=size, fill_value=fill_value, dtype=dtype)\n    allnan = aggregate(group_idx, np.isnan(array), axis=axis, func="all", size=size, fill_value=False)\n    result[allnan] = np.nan\n    return result\n\n\nnanmax = partial(_nan_minmax, func="nanmax")\nnanmin = partial(_nan_minmax, func="nanmin")\n\n\ndef nansum(group_idx, array, engine, *, axis=-1, size=None, fill_value=None, dtype=None):', must_mention="NaN-propagating"),
    V("scan entry point no longer refuses missing labels for nancumsum", ("C10", "C19"), "R-SCANMISSING", "core.py", '    if agg.name in ["cumsum", "nancumsum"] and not is_duck_dask_array(by_) and (by_ == -1).any():', '    if False:', must_mention="missing"),
    V("unknown labels refused for one reduced axis only", ("C08", "C12"), "R-PARTIALUNKNOWN", "core.py", '    if nax < by_.ndim and expected_ is None:', '    if nax == 1 and by_.ndim > 1 and expected_ is None:', must_mention="two of three"),
    V("twin: partial-axis test written as an inequality of the two counts", ("C08", "C12"), "", "core.py", '    if nax < by_.ndim and expected_ is None:', '    if expected_ is None and nax != by_.ndim:', expect="silent"),
    V("blockwise label lists taken from the cohort map instead of the blocks", ("C18", "C16"), "R-BLOCKLABELS", "core.py", '            groups_in_block = tuple(labels_of(by_input[slc]) for slc in slices)', '            groups_in_block = tuple(labels_of(by_input[slc]) for slc in slices)\n            if chunks_cohorts and len(chunks_cohorts) == len(groups_in_block):\n                groups_in_block = tuple(np.asarray(c) for c in chunks_cohorts.values())', must_mention="mapping"),
    V("variance finalizer does not clamp its difference of squares", ("C02", "C04"), "R-NANFINAL", "aggregations.py", '    result = np.maximum(result, 0)\n', '', must_mention="negative"),
    V("twin: variance finalizer clamps with np.clip", ("C02", "C04"), "", "aggregations.py", '    result = np.maximum(result, 0)\n', '    result = np.clip(result, 0, None)\n', expect="silent"),
    V("positions un-sorted through an empty sorter", ("C19",), "R-EMPTYIDX", "core.py", '            if not sort and len(expect) > 0:', '            if not sort:', must_mention="sorter"),
    V("block sets turned into slices by end-point arithmetic", ("C09",), "R-SLICEEXACT", "core.py", '            elif _issorted(i) and np.array_equal(i, np.arange(i[0], i[-1] + 1)):', '            elif _issorted(i) and i[-1] - i[0] == len(i) - 1 + 0 * i[0]:', must_mention="0:7:2"),
    V("integer bin edges cast to float64 before the IntervalIndex is built", ("C07",), "R-EDGEVALUE", "core.py", '                out.append(pd.IntervalIndex.from_breaks(ex))', '                edges = np.asarray(ex)\n                if edges.dtype.kind in "iu":\n                    edges = edges.astype(np.float64)\n                out.append(pd.IntervalIndex.from_breaks(edges))', must_mention="2**53"),
    V("twin: bin edges wrapped with np.asarray first", ("C07",), "", "core.py", '                out.append(pd.IntervalIndex.from_breaks(ex))', '                edges = np.asarray(ex)\n                out.append(pd.IntervalIndex.from_breaks(edges))', expect="silent"),
    V("intervals with gaps binned as if contiguous", ("C07",), "R-CLOSEDSIDE", "core.py", '            rights = expect.right.to_numpy()\n            if len(rights) > 1 and not np.array_equal(rights[:-1], expect.left.to_numpy()[1:]):', '            rights = bins[1:]\n            if False:', must_mention="gap"),
    V("xarray option set as a plain statement in the shortcut", ("C14",), "R-OPTIONS", "xarray.py", '        result = getattr(ds_broad, func)(dim=dim_tuple, **kwargs)', '        xr.set_options(keep_attrs=keep_attrs)\n        result = getattr(ds_broad, func)(dim=dim_tuple, **kwargs)', must_mention="call history"),
    V("twin: xarray option set for the duration of the reduction", ("C14",), "", "xarray.py", '        result = getattr(ds_broad, func)(dim=dim_tuple, **kwargs)', '        with xr.set_options(keep_attrs=keep_attrs):\n            result = getattr(ds_broad, func)(dim=dim_tuple, **kwargs)', expect="silent"),
    V("numba max / min handed to the raw numpy_groupies kernel", ("C01", "C20"), "R-NUMBAMINMAX", "aggregate_npg.py", 'max = partial(_minmax, func="max")\nmin = partial(_minmax, func="min")\n', '', must_mention="skips NaN"),
    V("tree node casts its concatenated children to the narrowest child dtype", ("C03", "C02"), "R-COMBINECAST", "core.py", '    return _concatenate2(mapped, axes=axis)', '    concatenated = _concatenate2(mapped, axes=axis)\n    narrowest = min((np.asarray(block).dtype for block in mapped), key=lambda dt: dt.itemsize)\n    return concatenated.astype(narrowest, copy=False)', must_mention="split_every"),
    V("reindex refusals taken for lazy values only, not for lazy labels", ("C19",), "R-NORMFORM", "core.py", '    if reindex_.blockwise is True and not all_eager:', '    if reindex_.blockwise is True and is_dask_array:', must_mention="any_by_dask"),
    V("zero-length blocks no longer dropped for the blockwise plan", ("C19",), "R-ZEROBLOCK", "core.py", '        if method == "blockwise" and any(0 in array.chunks[ax] for ax in axis_):', '        if False:', must_mention="zero-length"),
    V("numba min/max: NaN membership decided from the group total (inf + -inf is NaN)", ("C01", "C20"), "R-NUMBAMINMAX", "aggregate_npg.py",
      'hasnan = aggregate(group_idx, np.isnan(array), axis=axis, func="any", size=size, fill_value=False)',
      'hasnan = np.isnan(aggregate(group_idx, array, axis=axis, func="sum", size=size, fill_value=0))', must_mention="arithmetic aggregate"),
    V("twin: NaN membership through a named mask and func='max' of the mask", ("C01", "C20"), "", "aggregate_npg.py",
      'hasnan = aggregate(group_idx, np.isnan(array), axis=axis, func="any", size=size, fill_value=False)',
      'isn = np.isnan(array)\n        hasnan = aggregate(group_idx, isn, axis=axis, func="max", size=size, fill_value=False).astype(bool)', expect="silent"),
    V("scan pre-op stores the placeholder label of a zero-length block as a code", ("C10",), "R-SCANEMPTY", "core.py",
      '    if inp.group_idx.size == 0:\n        # a zero-length block has seen no group',
      '    if False:\n        # a zero-length block has seen no group', must_mention="placeholder"),
    V("scan state combiner reduces possibly empty codes without an identity", ("C10",), "R-SCANEMPTY", "aggregations.py",
      'right.group_idx.max(initial=-1) + 1', 'right.group_idx.max() + 1', must_mention="identity"),
    V("chunk_scan hands one-member blocks on unscanned", ("C10",), "R-KINDMISSING", "core.py",
      '    if inp.group_idx.size == 0:\n        # a zero-length block: nothing to scan',
      '    if inp.array.shape[axis] <= 1:\n        # a zero-length block: nothing to scan', must_mention="without the scan kernel"),
    V("twin: emptiness guards of the scan written with len() / shape", ("C10",), "", "core.py",
      '    if inp.group_idx.size == 0:\n        # a zero-length block: nothing to scan',
      '    if inp.array.shape[axis] == 0:\n        # a zero-length block: nothing to scan', expect="silent"),
    V("thread-pool arm of factorize_ drops sort from its partial", ("C16", "C03"), "R-PASSTHROUGH[sort]", "core.py",
      'executor.submit(partial(_factorize_single, sort=sort, reindex=reindex), groupvar, expect)',
      'executor.submit(partial(_factorize_single, reindex=reindex), groupvar, expect)', must_mention="partial"),
    V("twin: thread-pool arm supplies sort at the hand-over instead of in the partial", ("C16", "C03"), "", "core.py",
      'executor.submit(partial(_factorize_single, sort=sort, reindex=reindex), groupvar, expect)',
      'executor.submit(partial(_factorize_single, reindex=reindex), groupvar, expect, sort=sort)', expect="silent"),
    V("requested quantile levels de-duplicated in the blueprint's copy", ("C18",), "R-KWPASS", "aggregations.py",
      '        agg.finalize_kwargs = copy.deepcopy(finalize_kwargs)\n',
      '        agg.finalize_kwargs = copy.deepcopy(finalize_kwargs)\n        if "q" in agg.finalize_kwargs and not xrutils.is_scalar(agg.finalize_kwargs["q"]):\n'
      '            agg.finalize_kwargs["q"] = tuple(dict.fromkeys(float(v) for v in agg.finalize_kwargs["q"]))\n', must_mention="dict.fromkeys"),
    V("twin: requested quantile levels converted elementwise to floats", ("C18",), "", "aggregations.py",
      '        agg.finalize_kwargs = copy.deepcopy(finalize_kwargs)\n',
      '        agg.finalize_kwargs = copy.deepcopy(finalize_kwargs)\n        if "q" in agg.finalize_kwargs and not xrutils.is_scalar(agg.finalize_kwargs["q"]):\n'
      '            agg.finalize_kwargs["q"] = tuple(float(v) for v in agg.finalize_kwargs["q"])\n', expect="silent"),
    V("intermediate fill sentinels resolved against the final dtype", ("C06", "C04"), "R-SLOTFILL", "aggregations.py",
      '        dtypes._get_fill_value(dt, fv)\n        for dt, fv in zip(agg.dtype["intermediate"], agg.fill_value["intermediate"])',
      '        dtypes._get_fill_value(final_dtype, fv) for fv in agg.fill_value["intermediate"]', must_mention="final_dtype"),
    V("twin: intermediate fill sentinels resolved through a shared index", ("C06", "C04"), "", "aggregations.py",
      '        dtypes._get_fill_value(dt, fv)\n        for dt, fv in zip(agg.dtype["intermediate"], agg.fill_value["intermediate"])',
      '        dtypes._get_fill_value(agg.dtype["intermediate"][i], fv) for i, fv in enumerate(agg.fill_value["intermediate"])', expect="silent"),
    V("finalizer skipped for blueprints with a single intermediate", ("C04",), "R-FINALIZERUN", "core.py",
      '    if agg.finalize is None:\n        finalized[agg.name] = squeezed["intermediates"][0]',
      '    if agg.finalize is None or len(squeezed["intermediates"]) == 1:\n        finalized[agg.name] = squeezed["intermediates"][0]', must_mention="finalizer"),
    V("twin: finalizer test written the other way round", ("C04",), "", "core.py",
      '    if agg.finalize is None:\n        finalized[agg.name] = squeezed["intermediates"][0]\n    else:\n        finalized[agg.name] = agg.finalize(*squeezed["intermediates"], **agg.finalize_kwargs)',
      '    if agg.finalize is not None:\n        finalized[agg.name] = agg.finalize(*squeezed["intermediates"], **agg.finalize_kwargs)\n    else:\n        finalized[agg.name] = squeezed["intermediates"][0]', expect="silent"),
    V("implicit min_count also keyed on the labels being a dask array", ("C12", "C05"), "R-SEMNEUTRAL", "core.py",
      '(fill_value is not None and (provided_expected or nby > 1))', '(fill_value is not None and (provided_expected or nby > 1 or any_by_dask))', must_mention="any_by_dask"),
    V("implicit min_count switched off for chunked input through a local flag", ("C12", "C05"), "R-SEMNEUTRAL", "core.py",
      '        if nax < by_.ndim or (fill_value is not None and (provided_expected or nby > 1)):',
      '        redundant = has_dask and fill_value == 0\n        if nax < by_.ndim or (fill_value is not None and (provided_expected or nby > 1) and not redundant):', must_mention="has_dask"),
    V("twin: implicit min_count condition spelled with a local flag over the request only", ("C12", "C05"), "", "core.py",
      '        if nax < by_.ndim or (fill_value is not None and (provided_expected or nby > 1)):',
      '        absent_possible = provided_expected or nby >= 2\n        if nax < by_.ndim or (fill_value is not None and absent_possible):', expect="silent"),
    V("variance pivot looked up in the first batch slice only", ("C08", "C20"), "R-VARSHIFT[batch]", "aggregate_npg.py",
      '    first = _get_aggregate(engine).aggregate(group_idx, array, func="nanfirst", axis=axis)',
      '    pivots = array[(0,) * (array.ndim - 1)] if array.size else array\n    first = _get_aggregate(engine).aggregate(group_idx, pivots, func="nanfirst", axis=-1)', must_mention="pivot"),
    V("twin: variance pivot through a renamed aggregate handle", ("C08", "C20"), "", "aggregate_npg.py",
      '    first = _get_aggregate(engine).aggregate(group_idx, array, func="nanfirst", axis=axis)',
      '    agg_ = _get_aggregate(engine).aggregate\n    first = agg_(group_idx, array, func="nanfirst", axis=axis)', expect="silent"),
    V("blueprint given a threading.Lock when it is initialised", ("C13",), "R-PICKLE", "aggregations.py",
      '        agg.finalize_kwargs = copy.deepcopy(finalize_kwargs)\n',
      '        agg.finalize_kwargs = copy.deepcopy(finalize_kwargs)\n        import threading\n        agg._derive_lock = threading.Lock()\n', must_mention="lock"),
    V("twin: blueprint given a picklable placeholder context", ("C13",), "", "aggregations.py",
      '        agg.finalize_kwargs = copy.deepcopy(finalize_kwargs)\n',
      '        agg.finalize_kwargs = copy.deepcopy(finalize_kwargs)\n        import contextlib\n        agg._derive_lock = contextlib.nullcontext()\n', expect="silent"),
    V("all-missing arm of chunk_reduce allocates in the dtype of the fill", ("C11", "C12"), "R-ARMDTYPE", "core.py",
      'fill_value=fv, dtype=dt)', 'fill_value=fv)', must_mention="dtype of the fill"),
    V("twin: all-missing arm allocates empty and fills, with the paired dtype", ("C11", "C12"), "", "core.py",
      '            result = np.full(shape=new_dims_shape + final_array_shape, fill_value=fv, dtype=dt)',
      '            result = np.empty(new_dims_shape + final_array_shape, dtype=dt)\n            result[...] = fv', expect="silent"),
    V("dtype promotion memoised with an untyped key", ("C14",), "R-MEMO", "xrdtypes.py", '        dtype = np.result_type(dtype, fill_value)\n    return dtype\n',
      '        dtype = _promote_for_fill_value(dtype, fill_value)\n    return dtype\n\n\n@functools.lru_cache\ndef _promote_for_fill_value(dtype: np.dtype, fill_value) -> np.dtype:\n    return np.result_type(dtype, fill_value)\n', must_mention="typed"),
    V("twin: dtype promotion memoised with typed=True", ("C14",), "", "xrdtypes.py", '        dtype = np.result_type(dtype, fill_value)\n    return dtype\n',
      '        dtype = _promote_for_fill_value(dtype, fill_value)\n    return dtype\n\n\n@functools.lru_cache(typed=True)\ndef _promote_for_fill_value(dtype: np.dtype, fill_value) -> np.dtype:\n    return np.result_type(dtype, fill_value)\n', expect="silent"),
    V("lazy blocks factorized against the caller's expected_groups", ("C07", "C02"), "R-CODELABELS", "core.py", '            for by_, expect_ in zip(by_chunked, found_groups)\n', '            for by_, expect_ in zip(by_chunked, expected_groups)\n', must_mention="found_groups"),
    # ---------------- R-UNPERMUTE (C18, C01)
    V("quantiles evaluated in sorted q order, result gathered with the same permutation", ("C18", "C01"), "R-UNPERMUTE", "aggregate_flox.py", '            kwargs["group_idx"] = group_idx\n\n    if (len(uniques) == size) and (uniques == np.arange(size, like=array)).all():\n        # The previous version of this if condition\n        #     ((uniques[1:] - uniques[:-1]) == 1).all():\n        # does not work when group_idx is [1, 2] for e.g.\n        # This happens during binning\n        op(array, inv_idx, axis=axis, dtype=dtype, out=out, **kwargs)\n    else:\n        out[..., uniques] = op(array, inv_idx, axis=axis, dtype=dtype, **kwargs)\n\n    return out\n', '            kwargs["group_idx"] = group_idx\n            qorder = np.argsort(np.atleast_1d(q), kind="stable")\n            kwargs["q"] = np.atleast_1d(q)[qorder]\n\n    if (len(uniques) == size) and (uniques == np.arange(size, like=array)).all():\n        op(array, inv_idx, axis=axis, dtype=dtype, out=out, **kwargs)\n    else:\n        out[..., uniques] = op(array, inv_idx, axis=axis, dtype=dtype, **kwargs)\n\n    if kwargs.get("q", None) is not None:\n        out = out[qorder]\n    return out\n', must_mention="qorder"),
    V("twin: quantiles evaluated in sorted q order, result restored with the inverse permutation", ("C18", "C01"), "", "aggregate_flox.py", '            kwargs["group_idx"] = group_idx\n\n    if (len(uniques) == size) and (uniques == np.arange(size, like=array)).all():\n        # The previous version of this if condition\n        #     ((uniques[1:] - uniques[:-1]) == 1).all():\n        # does not work when group_idx is [1, 2] for e.g.\n        # This happens during binning\n        op(array, inv_idx, axis=axis, dtype=dtype, out=out, **kwargs)\n    else:\n        out[..., uniques] = op(array, inv_idx, axis=axis, dtype=dtype, **kwargs)\n\n    return out\n', '            kwargs["group_idx"] = group_idx\n            qorder = np.argsort(np.atleast_1d(q), kind="stable")\n            kwargs["q"] = np.atleast_1d(q)[qorder]\n\n    if (len(uniques) == size) and (uniques == np.arange(size, like=array)).all():\n        op(array, inv_idx, axis=axis, dtype=dtype, out=out, **kwargs)\n    else:\n        out[..., uniques] = op(array, inv_idx, axis=axis, dtype=dtype, **kwargs)\n\n    if kwargs.get("q", None) is not None:\n        out = out[np.argsort(qorder)]\n    return out\n', expect="silent"),
    # ---------------- R-ACCDTYPE (C20, C11), R-BLOCKLABELS (C16)
    V("block accumulators take the input dtype", ("C20", "C11"), "R-ACCDTYPE", "aggregations.py", 'dtypes._normalize_dtype(int_dtype, np.result_type(array_dtype, final_dtype), int_fv)', 'dtypes._normalize_dtype(int_dtype, array_dtype, int_fv)', must_mention="accumulator"),
    V("twin: accumulator dtype bound to a local first", ("C20", "C11"), "", "aggregations.py", '    agg.dtype = {\n        "user": dtype,', '    acc = np.result_type(array_dtype, final_dtype)\n    agg.dtype = {\n        "user": dtype,', expect="silent"),
    V("per-block labels always sorted", ("C16",), "R-BLOCKLABELS", "core.py", '            labels_of = _unique if sort else (lambda labels: pd.unique(labels.reshape(-1)))\n', '            labels_of = _unique\n', must_mention="sort"),
    # ---------------- R-FINALDEPS (C11)
    V("final dtype widened for the fill only when min_count > 0", ("C11",), "R-FINALDEPS", "aggregations.py", '        dtype_ or agg.dtype_init["final"], array_dtype, agg.preserves_dtype, fill_value\n', '        dtype_ or agg.dtype_init["final"], array_dtype, agg.preserves_dtype, fill_value if min_count > 0 else None\n', must_mention="min_count"),
    # ---------------- R-BITMASK (C09)
    V("incidence matrix summed in uint8", ("C09",), "R-BITMASK", "core.py", '        return csc_array((data, (rows, cols)), dtype=bool, shape=(nchunks, nlabels))', '        return csc_array((data, (rows, cols)), shape=(nchunks, nlabels)).astype(bool)', must_mention="uint8"),
    # ---------------- R-AXISRANGE, R-PAIRS[broadcast] (C19, C08)
    V("axis outside the labels' dimensions no longer refused", ("C19", "C08"), "R-AXISRANGE", "core.py", '        if any(ax < array.ndim - by_.ndim for ax in axis_):\n            raise ValueError(', '        if False:\n            raise ValueError(', must_mention="axis"),
    V("size-1 label dimensions not broadcast before a partial reduction", ("C19", "C08"), "R-PAIRS[broadcast]", "core.py", '        if by_.shape != array.shape[-by_.ndim :]:\n            # size-1 dimensions of `by`: every kept slice needs its own copy of the labels\n            by_ = np.broadcast_to(by_, array.shape[-by_.ndim :])\n', '', must_mention="broadcast"),
    V("twin: labels always broadcast in the partial-axis branch", ("C19", "C08"), "", "core.py", '        if by_.shape != array.shape[-by_.ndim :]:\n            # size-1 dimensions of `by`: every kept slice needs its own copy of the labels\n            by_ = np.broadcast_to(by_, array.shape[-by_.ndim :])\n', '        by_ = np.broadcast_to(by_, array.shape[-by_.ndim :])\n', expect="silent"),
    # ---------------- R-REGKEY extended (C19)
    V("xarray fallback dispatches on the user's func without a check", ("C19",), "R-REGKEY", "xarray.py", '        if not hasattr(ds_broad, func):\n            raise NotImplementedError(\n                f"func={func!r} is not supported when reducing along dimensions that are not present in `by`."\n            )\n', '', must_mention="getattr"),
    # ---------------- R-KINDMISSING (C10) -- the unchanged tree carries one *known* finding of this rule (DESIGN 6, K1)
    V("fill shortcut for another set of kinds with missing values (a different violation than the known one)", ("C10",), "R-KINDMISSING", "core.py", 'and array.dtype.kind != "f":\n        # nothing to do, no NaNs!', 'and array.dtype.kind not in "fc":\n        # nothing to do, no NaNs!', must_mention="MOm"),
    V("twin: fill shortcut restricted to kinds without a missing value", ("C10",), "", "core.py", 'and array.dtype.kind != "f":\n        # nothing to do, no NaNs!', 'and array.dtype.kind in "iub":\n        # nothing to do, no NaNs!', expect="silent"),
    # ---------------- R-SCANACC (C10, C20)
    V("scan pre-op accumulates in the block's dtype", ("C10", "C20"), "R-SCANACC", "core.py", '        # the per-group totals are carried into later blocks: accumulate them like the scan itself does\n        dtype=agg.dtype,', '        dtype=inp.array.dtype,', must_mention="grouped_reduce"),
    # ---------------- R-BLOCKLABELS, combine-step labels (C16)
    V("combined labels taken from the sorted union instead of the reduction", ("C16",), "R-BLOCKLABELS", "core.py", '                results["intermediates"].append(*_results["intermediates"])\n                results["groups"] = _results["groups"]', '                results["intermediates"].append(*_results["intermediates"])\n                results["groups"] = np.broadcast_to(_find_unique_groups(x_chunk), _results["groups"].shape)', must_mention="_grouped_combine"),
    # ---------------- R-PAIRS[broadcast-nax] (C19, C08)
    V("size-1 codes broadcast only for multi-axis reductions", ("C19", "C08"), "R-PAIRS[broadcast-nax]", "core.py", '    order = "C"\n    if nax >= 1:\n', '    order = "C"\n    if nax > 1:\n', must_mention="nax > 1"),
    # ---------------- R-KINDMISSING singleton-group clause (C10)
    V("singleton-group shortcut hands NaN on for nancumsum", ("C10",), "R-KINDMISSING", "core.py", '        if agg.mode == "apply_binary_op" and array.dtype.kind in "fc":\n            # a NaN-skipping accumulation (nancumsum) of a lone NaN is the identity\n            array = np.where(np.isnan(array), agg.identity, array)\n', '', must_mention="singleton"),
    # ---------------- R-COMBINEBYPASS (C02, C12)
    V("grouped combine skips the second reduction when no label recurs", ("C02", "C12"), "R-COMBINEBYPASS", "core.py", '        avoid_reduction = array_idx[0].shape[axis[0]] == 1\n', '        avoid_reduction = len(_unique(groups)) == groups.size\n', must_mention="value-dependent"),
    # ---------------- R-FINITE (C04, C20): zero instances on the tree, this is the positive example
    V("nanfirst combine treats infinities as missing", ("C04", "C20"), "R-FINITE", "xrutils.py", '    idx_first = np.argmax(~isnull(values), axis=axis)', '    idx_first = np.argmax(np.isfinite(values), axis=axis)', must_mention="nanfirst"),
    V("twin: finiteness used only to validate an argument", ("C04", "C20"), "", "xrutils.py", '    idx_first = np.argmax(~isnull(values), axis=axis)', '    if not np.isfinite(axis):\n        raise ValueError("axis must be finite")\n    idx_first = np.argmax(~isnull(values), axis=axis)', expect="silent"),
    # ---------------- R-DISPATCH rename clause (C01, C18), R-COLLIDE identity-as-absence clause (C20)
    V("extreme quantiles renamed to nanmin / nanmax for the NaN-propagating quantile too", ("C01", "C18"), "R-DISPATCH", "aggregations.py", '    if engine == "flox":\n        try:\n            method = getattr(aggregate_flox, func)', '    if func in ["quantile", "nanquantile"] and kwargs.get("q") in (0, 1):\n        func = "nanmax" if kwargs.pop("q") == 1 else "nanmin"\n\n    if engine == "flox":\n        try:\n            method = getattr(aggregate_flox, func)', must_mention="discipline"),
    V("absent groups detected by comparing the result with the padding identity", ("C20",), "R-COLLIDE", "core.py", '    results = combine(x_chunk, agg, axis, keepdims, is_aggregate=True)\n    return _finalize_results(results, agg, axis, expected_groups, reindex=reindex)', '    results = combine(x_chunk, agg, axis, keepdims, is_aggregate=True)\n    finalized = _finalize_results(results, agg, axis, expected_groups, reindex=reindex)\n    (identity,) = agg.fill_value["intermediate"][:1]\n    finalized[agg.name] = np.where(finalized[agg.name] == identity, fill_value, finalized[agg.name])\n    return finalized', must_mention="identity"),
    # ---------------- R-PAIRS[collapse] sampled-labels clause (C08)
    V("labels replaced by their first slice when first and last slice agree", ("C08",), "R-PAIRS[collapse]", "core.py", '    # if indices=[2,2,2], npg assumes groups are (0, 1, 2);', '    if nax == 1 and by.ndim > 1 and np.array_equal(by[0], by[-1]):\n        by = by[0]\n\n    # if indices=[2,2,2], npg assumes groups are (0, 1, 2);', must_mention="slice"),
    # ---------------- R-QRANGE (C18, C19)
    V("quantile levels no longer bounded", ("C18", "C19"), "R-QRANGE", "core.py", '            if not ((qs >= 0) & (qs <= 1)).all():\n                raise ValueError("Quantiles must be in the range [0, 1]")\n', '', must_mention="quantile"),
    V("quantile levels bounded above only", ("C18", "C19"), "R-QRANGE", "core.py", '            if not ((qs >= 0) & (qs <= 1)).all():', '            if not (qs <= 1).all():', must_mention="below"),
    # ---------------- R-EMPTYKERNEL (C10, C19), R-DTYPENORM (C19)
    V("ffill kernel without the empty-axis guard", ("C10", "C19"), "R-EMPTYKERNEL", "aggregate_flox.py", '    if array.shape[axis] == 0:\n        # nothing to fill (a zero-length chunk)\n        return array\n', '', must_mention="ffill"),
    V("scan entry point stores the raw dtype", ("C19",), "R-DTYPENORM", "core.py", '    if dtype is not None:\n        dtype = np.dtype(dtype)\n    if agg.name in ["cumsum", "nancumsum"]', '    if agg.name in ["cumsum", "nancumsum"]', must_mention="groupby_scan"),
    # ---------------- R-COUNTWIDTH (C01, C20)
    V("count kernel sums a uint8 view of the validity mask", ("C01", "C20"), "R-COUNTWIDTH", "aggregate_flox.py", '    return sum(group_idx, (notnull(array)).astype(int), *args, **kwargs)', '    return sum(group_idx, notnull(array).view(np.uint8), *args, **kwargs)', must_mention="nanlen"),
    V("twin: count kernel widens with np.intp", ("C01", "C20"), "", "aggregate_flox.py", '    return sum(group_idx, (notnull(array)).astype(int), *args, **kwargs)', '    return sum(group_idx, notnull(array).astype(np.intp), *args, **kwargs)', expect="silent"),
    # ---------------- R-NANFINAL (C02, C04)
    V("variance finalizer clips with the NaN-ignoring fmax", ("C02", "C04"), "R-NANFINAL", "aggregations.py", '        result = (sumsq - (sum_**2 / count)) / (count - ddof)', '        result = np.fmax(sumsq - (sum_**2 / count), 0) / (count - ddof)', must_mention="_var_finalize"),
    V("twin: variance finalizer clips with the NaN-propagating maximum", ("C02", "C04"), "", "aggregations.py", '        result = (sumsq - (sum_**2 / count)) / (count - ddof)', '        result = np.maximum(sumsq - (sum_**2 / count), 0) / (count - ddof)', expect="silent"),
    # ---------------- R-ROUNDTRIP (C11)
    V("datetime results cast back only when they are still integers", ("C11",), "R-ROUNDTRIP", "core.py", '        if is_npdatetime:\n            result = result.astype(datetime_dtype)', '        if is_npdatetime and result.dtype.kind in "iu":\n            result = result.astype(datetime_dtype)', must_mention="datetime"),
    # ---------------- R-PAIRS[transpose] (C07)
    V("grouper dims reordered with the inverse permutation", ("C07",), "R-PAIRS[transpose]", "xarray.py", '        order = [dims.index(d) for d in core_dims[0] if d in dims]\n', '        target = [d for d in core_dims[0] if d in dims]\n        order = [target.index(d) for d in dims]\n', must_mention="inverse"),
    # ---------------- R-FILLWIDEN (C05, C11)
    V("dtype-preserving reductions return before the fill value is considered", ("C05", "C11"), "R-FILLWIDEN", "xrdtypes.py", '        if not preserves_dtype:\n            dtype = _maybe_promote_int(array_dtype)\n        else:\n            dtype = array_dtype\n', '        if preserves_dtype:\n            return array_dtype\n        dtype = _maybe_promote_int(array_dtype)\n', must_mention="return"),
    # ---------------- R-LOOPSTORE (C09, C19)
    V("cohort map overwrites a repeated block set", ("C09", "C19"), "R-LOOPSTORE", "core.py", '        merged_cohorts[chunk] = sorted(merged_cohorts.get(chunk, []) + cohort)', '        merged_cohorts[chunk] = cohort', must_mention="merged_cohorts"),
    V("twin: cohort map merges under an explicit membership test", ("C09", "C19", "C02"), "", "core.py", '        merged_cohorts[chunk] = sorted(merged_cohorts.get(chunk, []) + cohort)',
      '        if chunk in merged_cohorts:\n            merged_cohorts[chunk] = sorted(merged_cohorts[chunk] + cohort)\n        else:\n            merged_cohorts[chunk] = cohort', expect="silent"),
    # ---------------- R-CLOSEDSIDE (C07)
    V("outer-edge mask ignores the closed side", ("C07",), "R-CLOSEDSIDE", "core.py", '            within_bins = flat <= bins.max() if right else flat < bins.max()', '            within_bins = flat <= bins.max()', must_mention="outer"),
    V("digitize always left-closed", ("C07",), "R-CLOSEDSIDE", "core.py", '                right=right,\n            )\n            idx -= 1', '                right=False,\n            )\n            idx -= 1', must_mention="digitize"),
    V("outer-edge mask dropped", ("C07",), "R-CLOSEDSIDE", "core.py", '            idx[~within_bins] = -1\n', '', must_mention="outer"),
    V("twin: closed side read directly from the index in the mask", ("C07",), "", "core.py", '            within_bins = flat <= bins.max() if right else flat < bins.max()', '            within_bins = (flat <= bins.max()) if expect.closed == "right" else (flat < bins.max())', expect="silent"),
    # ---------------- R-MISSINGCODE (C01, C05, C07)
    V("np.unique codes for datetime labels (NaT gets a code)", ("C01", "C05", "C07"), "R-MISSINGCODE", "core.py", '        else:\n            idx, groups = pd.factorize(flat, sort=sort)', '        elif sort and flat.dtype.kind in "iuMm":\n            groups, idx = np.unique(flat, return_inverse=True)\n        else:\n            idx, groups = pd.factorize(flat, sort=sort)', must_mention="np.unique"),
    V("requested-label lookup without a missing mask", ("C05", "C07"), "R-MISSINGCODE", "core.py", '            mask = ~np.isin(flat, expect) | isnull(flat) | (idx == len(expect))', '            mask = idx == len(expect)', must_mention="searchsorted"),
    V("twin: np.unique codes for integer labels only", ("C01", "C05", "C07"), "", "core.py", '        else:\n            idx, groups = pd.factorize(flat, sort=sort)', '        elif sort and flat.dtype.kind in "iu":\n            groups, idx = np.unique(flat, return_inverse=True)\n        else:\n            idx, groups = pd.factorize(flat, sort=sort)', expect="silent"),
    V("twin: redundant isnull dropped from the lookup mask", ("C05", "C07"), "", "core.py", '            mask = ~np.isin(flat, expect) | isnull(flat) | (idx == len(expect))', '            mask = ~np.isin(flat, expect) | (idx == len(expect))', expect="silent"),
    # ---------------- R-CODEDEP (C07)
    V("single-group grouper coded as zeros (lazy labels)", ("C07",), "R-CODEDEP", "core.py", '            for by_, expect_ in zip(by_chunked, found_groups)\n        ]', '            if len(expect_) != 1\n            else dask.array.zeros(by_.shape, chunks=by_.chunks, dtype=np.int64)\n            for by_, expect_ in zip(by_chunked, found_groups)\n        ]', must_mention="metadata"),
    # ---------------- R-LABELVALUE (C05, C07)
    V("labels cast to the requested dtype before lookup", ("C05", "C07"), "R-LABELVALUE", "core.py", '            idx = np.searchsorted(expect, flat, sorter=sorter)', '            idx = np.searchsorted(expect, flat.astype(expect.dtype), sorter=sorter)', must_mention="searchsorted"),
    V("NaN labels substituted before factorizing", ("C05", "C07"), "R-LABELVALUE", "core.py", '            idx, groups = pd.factorize(flat, sort=sort)', '            flat = np.nan_to_num(flat)\n            idx, groups = pd.factorize(flat, sort=sort)', must_mention="factorize"),
    V("labels rounded before binning", ("C07",), "R-LABELVALUE", "core.py", '            idx = np.digitize(\n                flat,', '            idx = np.digitize(\n                np.round(flat, 6),', must_mention="digitize"),
    V("twin: labels made contiguous before lookup", ("C05", "C07"), "", "core.py", '    flat = by.reshape(-1)\n    # integer labels', '    flat = np.ascontiguousarray(by).reshape(-1)\n    # integer labels', expect="silent"),
    # ---------------- R-CODEWIDTH / R-IDENTITYCODES (C05, C07, C08, C19)
    V("identity codes keep the labels' dtype", ("C07", "C08", "C19"), "R-CODEWIDTH", "core.py", '        idx = flat.astype(np.intp)\n', '        idx = flat.copy()\n', must_mention="_factorize_single"),
    V("codes narrowed to int32 before offsetting", ("C08", "C07"), "R-CODEWIDTH", "core.py", '        group_idx, size = offset_labels(group_idx.reshape(by[0].shape), ngroups)', '        group_idx, size = offset_labels(group_idx.reshape(by[0].shape).astype(np.int32), ngroups)', must_mention="factorize_"),
    V("empty-bins codes created without dtype", ("C07",), "R-CODEWIDTH", "core.py", '            idx = np.zeros_like(flat, dtype=np.intp) - 1', '            idx = np.zeros_like(flat) - 1', must_mention="_factorize_single"),
    V("identity fast path for any RangeIndex start", ("C05", "C07"), "R-IDENTITYCODES", "core.py", '        and expect.start == 0\n', '', must_mention="start"),
    V("identity fast path for any RangeIndex step", ("C05", "C07"), "R-IDENTITYCODES", "core.py", '        and expect.step == 1\n', '', must_mention="step"),
    V("identity fast path for float labels", ("C05", "C07"), "R-IDENTITYCODES", "core.py", '        and flat.dtype.kind in "iu"\n', '', must_mention="integers"),
    V("identity fast path masks one side only", ("C05", "C07"), "R-IDENTITYCODES", "core.py", '        idx[(idx < 0) | (idx >= len(expect))] = -1', '        idx[idx >= len(expect)] = -1', must_mention="one-sided"),
    V("twin: identity codes via np.asarray(dtype=intp).copy()", ("C05", "C07", "C08", "C19"), "", "core.py", '        idx = flat.astype(np.intp)\n', '        idx = np.asarray(flat, dtype=np.intp).copy()\n', expect="silent"),
    V("twin: identity guard inlined in the if", ("C05", "C07"), "", "core.py", '    if identity_codes:\n', '    if isinstance(expect, pd.RangeIndex) and expect.start == 0 and expect.step == 1 and flat.dtype.kind in "iu":\n', expect="silent"),
    V("twin: upper bound via expect[-1]", ("C05", "C07"), "", "core.py", '        idx[(idx < 0) | (idx >= len(expect))] = -1', '        idx[idx < 0] = -1\n        idx[idx > expect[-1]] = -1', expect="silent"),
    V("offset sentinel restore deleted", ("C08",), "R-SENTINEL", "core.py", '    offset[labels == -1] = -1\n', '', must_mention="offset_labels"),
    V("label axes always ascending", ("C08",), "R-COPERMUTE", "core.py", 'tuple(-array.ndim + ax + by_.ndim for ax in axis_))', 'tuple(ax for ax in range(by_.ndim) if ax + array.ndim - by_.ndim in axis_))', must_mention="groupby_reduce"),
    V("twin: label axes bound to a local first", ("C08",), "", "core.py", '        by_ = _move_reduce_dims_to_end(by_, tuple(-array.ndim + ax + by_.ndim for ax in axis_))', '        by_axes_ = tuple(-array.ndim + ax + by_.ndim for ax in axis_)\n        by_ = _move_reduce_dims_to_end(by_, by_axes_)', expect="silent"),
    V("plain Index not sorted when sort=True", ("C16",), "R-SORTED", "core.py", '            if sort:\n                out.append(ex.sort_values())', '            if sort and isinstance(ex, pd.IntervalIndex):\n                out.append(ex.sort_values())', must_mention="_convert_expected_groups_to_index"),
    V("finite stand-in for -inf on floats", ("C04", "C20"), "R-INFRESOLVE", "xrdtypes.py", '    if issubclass(dtype.type, np.floating):\n        return -np.inf', '    if issubclass(dtype.type, np.floating):\n        return np.finfo(dtype).min if min_for_int else -np.inf', must_mention="get_neg_infinity"),
    V("twin: sentinel restored with np.where", ("C07",), "", "core.py", '    group_idx[nan_by_mask] = -1\n    return group_idx', '    return np.where(nan_by_mask, -1, group_idx)', expect="silent"),
    V("labels not re-sorted with values", ("C16",), "R-COINDEX", "core.py", '                groups = (groups[0][sorted_idx],)', '                groups = (groups[0],)', must_mention="groupby_reduce"),
    V("duplicate-sentinel mask applied to values only", ("C16",), "R-COINDEX", "core.py", '            groups_ = groups_[..., ~mask]', '            groups_ = groups_[groups_ != -1]', must_mention="groupby_reduce"),
    V("median gets a decomposition", ("C18",), "R-BLOCKONLY", "aggregations.py", '    name="median",\n    fill_value=dtypes.NA,\n    chunk=None,\n    combine=None,', '    name="median",\n    fill_value=dtypes.NA,\n    chunk="median",\n    combine="median",', must_mention="median"),
    V("blockonly refusal removed", ("C18",), "R-BLOCKONLY", "core.py", '        if agg.chunk[0] is None and method != "blockwise":\n            raise NotImplementedError(\n                f"Aggregation {agg.name!r} is only implemented for dask arrays when method=\'blockwise\'."\n                f"Received method={method!r}"\n            )\n', '', must_mention="groupby_reduce"),
    V("chunk_reduce forgets nanquantile's new axis", ("C18",), "R-BLOCKONLY", "core.py", '        if reduction in ("quantile", "nanquantile"):', '        if reduction in ("quantile",):', must_mention="newdims"),
    V("all-NaN detector without valid count", ("C20",), "R-COLLIDE", "aggregate_flox.py", '            allnangroups &= nvalid == 0\n', '', must_mention="_nan_grouped_op"),
    V("all-NaN detector counts filled members", ("C20",), "R-COLLIDE", "aggregate_flox.py", '            allnangroups &= nvalid == 0\n', '            allnangroups &= nvalid > 0\n', must_mention="_nan_grouped_op"),
    V("variance shift before the widening cast", ("C20", "C01"), "R-VARSHIFT", "aggregate_npg.py", '    array = array.astype(dtype, copy=False)\n    first = _get_aggregate(engine).aggregate(group_idx, array, func="nanfirst", axis=axis)\n    array = array - first[..., group_idx]', '    first = _get_aggregate(engine).aggregate(group_idx, array, func="nanfirst", axis=axis)\n    array = (array - first[..., group_idx]).astype(dtype, copy=False)', must_mention="_var_std_wrapper"),
    V("variance cast dtype from a weak Python scalar", ("C20", "C01"), "R-VARSHIFT", "aggregate_npg.py", 'dtype = np.result_type(array, np.int8(-1) * array[0])', 'dtype = np.result_type(array, -1)', must_mention="_var_std_wrapper"),
    V("reduceat without dtype", ("C20",), "R-CASTORDER", "aggregate_flox.py", '        op(array, inv_idx, axis=axis, dtype=dtype, out=out, **kwargs)', '        op(array, inv_idx, axis=axis, out=out, **kwargs)', must_mention="_np_grouped_op"),
    V("numbagg casts input to requested dtype", ("C20",), "R-CASTORDER", "aggregate_numbagg.py", '    func_ = getattr(numbagg.grouped, f"group_{func}")\n', '    if dtype is not None:\n        array = array.astype(dtype)\n    func_ = getattr(numbagg.grouped, f"group_{func}")\n', must_mention="_numbagg_wrapper"),
    # ---------------- wiring rules
    V("sort pinned in the eager path", ("C16",), "R-PASSTHROUGH[sort]", "core.py", '        engine=engine,\n        sort=sort,\n        reindex=bool(reindex.blockwise),', '        engine=engine,\n        sort=True,\n        reindex=bool(reindex.blockwise),', must_mention="_reduce_blockwise"),
    V("engine not forwarded by chunk_argreduce", ("C01",), "R-PASSTHROUGH[engine]", "core.py", '        dtype=dtype,\n        engine=engine,\n        sort=sort,\n        user_dtype=user_dtype,\n    )\n    if not all(isnull(results["groups"])):', '        dtype=dtype,\n        sort=sort,\n        user_dtype=user_dtype,\n    )\n    if not all(isnull(results["groups"])):', must_mention="chunk_argreduce"),
    V("counter stripped under a different condition", ("C05",), "R-COUNTER", "core.py", '    if min_count > 0:\n        counts = squeezed["intermediates"][-1]', '    if min_count >= 0:\n        counts = squeezed["intermediates"][-1]', must_mention="_finalize_results"),
    V("counter recognised by another name", ("C05",), "R-COUNTER", "core.py", '        if agg.chunk[-1] == "nanlen":\n            slicer = slice(None, -1)', '        if agg.chunk[-1] == "len":\n            slicer = slice(None, -1)', must_mention="_grouped_combine"),
    V("block-local arg index returned", ("C06",), "R-GLOBALIDX", "core.py", '        results["intermediates"][1] = idx[newidx]', '        results["intermediates"][1] = newidx[-1]', must_mention="chunk_argreduce"),
    V("global index chunked along the wrong axis", ("C06",), "R-GLOBALIDX", "aggregations.py", 'chunks=array.chunks[axis], dtype=np.intp)', 'chunks=array.chunks[-1], dtype=np.intp)', must_mention="argreduce_preprocess"),
    V("values not permuted with the labels", ("C01",), "R-PAIRS[perm]", "aggregate_flox.py", '        ordered_array = array[..., perm]', '        ordered_array = array', must_mention="_prepare_for_flox"),
    V("values collapsed over one axis less", ("C08",), "R-PAIRS[collapse]", "core.py", '        array = _collapse_axis(array, nax)', '        array = _collapse_axis(array, nax - 1)', must_mention="chunk_reduce"),
    V("dummy axis squeezed at -1", ("C02",), "R-PAIRS[dummy-axis]", "core.py", 'result = result.squeeze(range(result.ndim)[DUMMY_AXIS])', 'result = result.squeeze(range(result.ndim)[-1])', must_mention="dummy axis"),
    V("output chunks listed in another order", ("C11", "C08"), "R-PAIRS[out-inds]", "core.py", 'output_chunks = new_dims_shape + reduced.chunks[: -len(axis)] + group_chunks', 'output_chunks = reduced.chunks[: -len(axis)] + new_dims_shape + group_chunks', must_mention="dask_groupby_agg"),
    V("group sizes reversed", ("C07",), "R-PAIRS[groupers]", "core.py", '    grp_shape = tuple(len(grp) for grp in found_groups)', '    grp_shape = tuple(len(grp) for grp in found_groups)[::-1]', must_mention="factorize_"),
    # ---------------- R-LAZY (C12)
    V("labels coerced with np.asarray", ("C12",), "R-LAZY", "core.py", '    assert len(bys) == 1\n    (by_,) = bys\n\n    if axis is None:', '    assert len(bys) == 1\n    (by_,) = bys\n    by_ = np.asarray(by_)\n\n    if axis is None:', must_mention="groupby_reduce"),
    V("data-dependent branch on labels", ("C12",), "R-LAZY", "core.py", '    if axis is None:\n        axis_ = tuple(array.ndim + np.arange(-by_.ndim, 0))', '    if (by_ == -1).any():\n        pass\n    if axis is None:\n        axis_ = tuple(array.ndim + np.arange(-by_.ndim, 0))', must_mention="groupby_reduce"),
    V("planner guard loses 'not any_by_dask'", ("C12",), "R-LAZY", "core.py", '        if (not any_by_dask and method is None) or method == "cohorts":', '        if method is None or method == "cohorts":', must_mention="find_group_cohorts"),
    V("blockwise rechunk with dask labels", ("C12",), "R-LAZY", "core.py", 'and by_.ndim == 1 and not any_by_dask:', 'and by_.ndim == 1:', must_mention="rechunk_for_blockwise"),
    V("all-fill result built with np.full", ("C12",), "R-LAZY", "core.py", '                reindexed = np.full_like(array, fill_value, shape=shape, dtype=new_dtype)', '                reindexed = np.full(shape, fill_value, dtype=new_dtype)', must_mention="reindex_"),
    V("expected groups computed from dask labels", ("C12",), "R-LAZY", "core.py", '    if is_duck_dask_array(by):\n        raise ValueError("Please provide expected_groups if not grouping by a numpy array.")\n', '', must_mention="_get_expected_groups"),
    V("twin: guard moved into a local flag", ("C12",), "", "core.py", '        if (not any_by_dask and method is None) or method == "cohorts":', '        plan_from_labels = (not any_by_dask and method is None) or method == "cohorts"\n        if plan_from_labels:', expect="silent"),
    # ---------------- C19 rules
    V("TypeError raised on an API path", ("C19",), "R-RAISE", "core.py", '        raise ValueError(f"Cannot reindex to a multidimensional array: {to}")', '        raise TypeError(f"Cannot reindex to a multidimensional array: {to}")', must_mention="reindex_"),
    V("agg bound only for str in groupby_scan", ("C19",), "R-DEFASSIGN", "core.py", '    else:\n        agg = func\n    if not isinstance(agg, Scan):', '    if not isinstance(agg, Scan):', must_mention="groupby_scan"),
    V("raw registry lookup in groupby_scan", ("C19",), "R-REGKEY", "core.py", '        try:\n            agg = AGGREGATIONS[func]\n        except KeyError:\n            raise NotImplementedError(f"Scan {func!r} not implemented yet")', '        agg = AGGREGATIONS[func]', must_mention="groupby_scan"),
    V("reindex= passed to _grouped_combine", ("C19",), "R-KWSIG", "core.py", '                        else partial(combine, agg=agg, keepdims=True)', '                        else partial(combine, agg=agg, reindex=new_reindex, keepdims=True)', must_mention="_grouped_combine"),
    V("scan refusal replaced by nothing", ("C19",), "R-ASSERT", "core.py", '    if by_.ndim != 1 or axis_ != (array.ndim - 1,):\n        raise NotImplementedError("Scans are only supported along the last axis, with 1D `by`.")\n', '', must_mention="chunk_scan"),
    V("user-reachable assert re-introduced", ("C19",), "R-ASSERT", "core.py", '    if nax > by_.ndim:\n        raise ValueError(\n            f"Cannot reduce along {nax} axes when the (broadcasted) `by` arrays have only {by_.ndim} dimensions."\n        )\n', '    assert nax <= by_.ndim\n', must_mention="nax <= by_.ndim"),
    V("twin: refusal reworded", ("C19",), "", "core.py", '        raise ValueError(f"Cannot reindex to a multidimensional array: {to}")', '        raise NotImplementedError(f"Reindexing to a multidimensional array ({to}) is not supported")', expect="silent"),
]


ALL_PROPS = ("C01", "C02", "C03", "C04", "C05", "C06", "C07", "C08", "C09", "C10", "C11", "C12", "C13", "C14", "C16", "C18", "C19", "C20")
VARIANTS += [
    V("twin: whole package reformatted, comments dropped (ast.unparse)", ALL_PROPS, "", "core.py", "", "", expect="silent", transform=("reformat",)),
    V("twin: rename by_ -> codes_ in groupby_reduce (sixth-wave rules)", ("C19", "C11", "C05", "C07", "C02"), "", "core.py", "", "", expect="silent", transform=("rename", "groupby_reduce", "by_", "codes_")),
    V("twin: rename axis_ -> axes_ in groupby_reduce", ("C08", "C02", "C19"), "", "core.py", "", "", expect="silent", transform=("rename", "groupby_reduce", "axis_", "axes_")),
    V("twin: rename finalized -> out in _finalize_results", ("C05", "C11", "C02"), "", "core.py", "", "", expect="silent", transform=("rename", "_finalize_results", "finalized", "out")),
    V("twin: rename actual_sizes -> nvalid in quantile_", ("C18", "C01"), "", "aggregate_flox.py", "", "", expect="silent", transform=("rename", "quantile_", "actual_sizes", "nvalid")),
    V("twin: rename bins -> edges in _factorize_single", ("C07", "C05"), "", "core.py", "", "", expect="silent", transform=("rename", "_factorize_single", "bins", "edges")),
    V("twin: rename chunks_cohorts -> cmap in find_group_cohorts", ("C19", "C09"), "", "core.py", "", "", expect="silent", transform=("rename", "find_group_cohorts", "chunks_cohorts", "cmap")),
    V("twin: rename reindex_ -> strategy in _validate_reindex", ("C19",), "", "core.py", "", "", expect="silent", transform=("rename", "_validate_reindex", "reindex_", "strategy")),
    V("twin: rename result -> res_ in groupby_reduce", ("C16", "C12", "C05", "C08"), "", "core.py", "", "", expect="silent", transform=("rename", "groupby_reduce", "result", "res_")),
    V("twin: rename groups_ -> grps in groupby_reduce", ("C16", "C12"), "", "core.py", "", "", expect="silent", transform=("rename", "groupby_reduce", "groups_", "grps")),
    V("twin: rename by_ -> codes_ in groupby_reduce", ("C08", "C12", "C16"), "", "core.py", "", "", expect="silent", transform=("rename", "groupby_reduce", "by_", "codes_")),
    V("twin: rename agg -> bp in _initialize_aggregation", ("C04", "C05", "C14", "C02"), "", "aggregations.py", "", "", expect="silent", transform=("rename", "_initialize_aggregation", "agg", "bp")),
    V("twin: rename label_chunks -> lc in find_group_cohorts", ("C09", "C02", "C03"), "", "core.py", "", "", expect="silent", transform=("rename", "find_group_cohorts", "label_chunks", "lc")),
    V("twin: rename merged_cohorts -> mc in find_group_cohorts", ("C09", "C03", "C06"), "", "core.py", "", "", expect="silent", transform=("rename", "find_group_cohorts", "merged_cohorts", "mc")),
    V("twin: rename counts -> cnt in _finalize_results", ("C05", "C11"), "", "core.py", "", "", expect="silent", transform=("rename", "_finalize_results", "counts", "cnt")),
    V("twin: rename reindexer -> rx in dask_groupby_agg", ("C02", "C14"), "", "core.py", "", "", expect="silent", transform=("rename", "dask_groupby_agg", "reindexer", "rx")),
    V("twin: rename reindexed -> out_ in reindex_", ("C19", "C13"), "", "core.py", "", "", expect="silent", transform=("rename", "reindex_", "reindexed", "out_")),
    V("twin: rename groups_in_block -> per_blk in dask_groupby_agg", ("C16", "C19"), "", "core.py", "", "", expect="silent", transform=("rename", "dask_groupby_agg", "groups_in_block", "per_blk")),
    V("twin: rename idx -> codes in _factorize_single", ("C07", "C05", "C01"), "", "core.py", "", "", expect="silent", transform=("rename", "_factorize_single", "idx", "codes")),
    V("twin: rename flat -> lab in _factorize_single", ("C07", "C05", "C01"), "", "core.py", "", "", expect="silent", transform=("rename", "_factorize_single", "flat", "lab")),
    V("twin: rename found_groups -> labs in _factorize_multiple", ("C07", "C02"), "", "core.py", "", "", expect="silent", transform=("rename", "_factorize_multiple", "found_groups", "labs")),
    V("twin: rename qorder-free: rename out -> res in _np_grouped_op", ("C18", "C01"), "", "aggregate_flox.py", "", "", expect="silent", transform=("rename", "_np_grouped_op", "out", "res")),
    V("twin: rename parts -> pp in get_parts", ("C03", "C06"), "", "dask_array_ops.py", "", "", expect="silent", transform=("rename", "get_parts", "parts", "pp")),
    V("twin: rename final_dtype -> fd in _initialize_aggregation", ("C11", "C20"), "", "aggregations.py", "", "", expect="silent", transform=("rename", "_initialize_aggregation", "final_dtype", "fd")),
    V("twin: rename token -> tok in dask_groupby_agg", ("C14", "C09"), "", "core.py", "", "", expect="silent", transform=("rename", "dask_groupby_agg", "token", "tok")),
]


def _run_variant(v: Variant, prop: str, root: str) -> dict:
    d = tempfile.mkdtemp(prefix="v_", dir=root)
    try:
        shutil.copytree(os.path.join(REPO, "flox"), os.path.join(d, "flox"), ignore=shutil.ignore_patterns("__pycache__"))
        path = os.path.join(d, "flox", v.file)
        if v.transform:
            import ast as _ast
            if v.transform[0] == "reformat":
                import glob as _glob
                for fp in _glob.glob(os.path.join(d, "flox", "*.py")):
                    with open(fp) as fh:
                        t = _ast.parse(fh.read())
                    with open(fp, "w") as fh:
                        fh.write(_ast.unparse(t) + "\n")
            elif v.transform[0] == "rename":
                _, fn, old, new = v.transform
                with open(path) as fh:
                    t = _ast.parse(fh.read())
                hit = [0]

                class R(_ast.NodeTransformer):
                    inside = 0

                    def visit_FunctionDef(self, n):
                        if n.name == fn:
                            self.inside += 1
                            self.generic_visit(n)
                            self.inside -= 1
                        else:
                            self.generic_visit(n)
                        return n

                    def visit_Name(self, n):
                        if self.inside and n.id == old:
                            n.id = new
                            hit[0] += 1
                        return n
                t = R().visit(t)
                if not hit[0]:
                    return {"variant": v.name, "property": prop, "status": "skipped", "why": f"{fn}.{old} not found"}
                with open(path, "w") as fh:
                    fh.write(_ast.unparse(t) + "\n")
            env = dict(os.environ, FLOXSA_REPO=d, FLOXSA_NOWRITE="1", PYTHONDONTWRITEBYTECODE="1")
            verif = os.path.dirname(os.path.dirname(os.path.abspath(__file__)))
            r = subprocess.run([sys.executable, "-B", "-m", "floxsa", prop, "--tier", "quick"], cwd=verif, env=env, capture_output=True, text=True, timeout=600)
            reports = [l for l in r.stdout.splitlines() if l.strip().startswith("REPORT") or "ANALYSIS-ERROR" in l]
            out = {"variant": v.name, "property": prop, "expect": v.expect, "exit": r.returncode, "reports": len(reports)}
            out["status"] = "silent_ok" if r.returncode == 0 else "FALSE-ALARM"
            if out["status"] == "FALSE-ALARM":
                out["why"] = reports[:2] or r.stdout.splitlines()[-2:]
            return out
        with open(path) as fh:
            src = fh.read()
        if src.count(v.old) != 1:
            return {"variant": v.name, "property": prop, "status": "skipped", "why": f"anchor text occurs {src.count(v.old)}x on the tree under test"}
        with open(path, "w") as fh:
            fh.write(src.replace(v.old, v.new))
        try:
            import ast as _ast
            _ast.parse(src.replace(v.old, v.new))
        except SyntaxError as e:
            return {"variant": v.name, "property": prop, "status": "broken-variant", "why": str(e)}
        env = dict(os.environ, FLOXSA_REPO=d, FLOXSA_NOWRITE="1", PYTHONDONTWRITEBYTECODE="1")
        verif = os.path.dirname(os.path.dirname(os.path.abspath(__file__)))
        r = subprocess.run([sys.executable, "-B", "-m", "floxsa", prop, "--tier", "quick"], cwd=verif, env=env, capture_output=True, text=True, timeout=600)
        reports = [l for l in r.stdout.splitlines() if l.strip().startswith("REPORT")]
        out = {"variant": v.name, "property": prop, "expect": v.expect, "exit": r.returncode, "reports": len(reports)}
        if v.expect == "fire":
            hit = [l for l in reports if f" {v.rule} " in l and (not v.must_mention or v.must_mention in l)]
            out["status"] = "fired" if (r.returncode == 1 and hit) else "MISSED"
            if out["status"] == "MISSED":
                out["why"] = (reports[:2] or r.stdout.splitlines()[-2:])
        else:
            out["status"] = "silent_ok" if r.returncode == 0 else "FALSE-ALARM"
            if out["status"] == "FALSE-ALARM":
                out["why"] = reports[:2] or r.stdout.splitlines()[-2:]
        return out
    finally:
        shutil.rmtree(d, ignore_errors=True)


def selftest(ctx, prop: str, out) -> dict:
    """thorough-tier hook: run the variants registered for this property at 16 jobs"""
    todo = [(v, prop) for v in VARIANTS if prop in v.props]
    root = tempfile.mkdtemp(prefix="floxsa_selftest_")
    try:
        with ThreadPoolExecutor(max_workers=16) as ex:
            results = list(ex.map(lambda t: _run_variant(t[0], t[1], root), todo))
    finally:
        shutil.rmtree(root, ignore_errors=True)
    summary = {"fired": 0, "silent_ok": 0, "skipped": 0, "failures": []}
    for r in results:
        if r["status"] in ("fired", "silent_ok", "skipped"):
            summary[r["status"]] += 1
        else:
            summary["failures"].append(r)
    out(f"[floxsa] self-test {prop}: {summary['fired']} breaking variants fired, {summary['silent_ok']} twins silent, "
        f"{summary['skipped']} skipped, {len(summary['failures'])} failures")
    for r in results:
        out(f"    {r['status']:<12} {r['variant']}" + (f"  ({r.get('why')})" if r["status"] not in ("fired", "silent_ok") else ""))
    if summary["failures"]:
        raise AnalysisError(f"checker self-test failed for {prop}: {summary['failures']}")
    return {"selftest": {**summary, "variants": [{k: r[k] for k in ('variant', 'status')} for r in results]}}


def _run_seed(sd: str, prop: str, root: str, repo: str) -> dict:
    """apply one independently seeded change (/verif/seeded/<name>/patch.diff) to a scratch copy and run the property's quick check"""
    name = os.path.basename(sd.rstrip("/"))
    d = tempfile.mkdtemp(prefix="s_", dir=root)
    try:
        shutil.copytree(os.path.join(repo, "flox"), os.path.join(d, "flox"), ignore=shutil.ignore_patterns("__pycache__"))
        how = None
        for patch, extra, label in ((os.path.join(sd, "patch.diff"), [], "plain"), (os.path.join(sd, "patch.diff"), ["-F3"], "fuzz"),
                                    (os.path.join(sd, "patch_rebased.diff"), [], "rebased")):
            if not os.path.exists(patch):
                continue
            dry = subprocess.run(["patch", "-s", "-p1", "--dry-run", *extra, "-i", patch], cwd=d, capture_output=True, text=True)
            if dry.returncode == 0:
                subprocess.run(["patch", "-s", "-p1", "--no-backup-if-mismatch", *extra, "-i", patch], cwd=d, capture_output=True, text=True)
                how = label
                break
        if how is None:
            return {"variant": f"seed {name}", "property": prop, "status": "skipped", "why": "patch no longer applies to the tree under test"}
        env = dict(os.environ, FLOXSA_REPO=d, FLOXSA_NOWRITE="1", PYTHONDONTWRITEBYTECODE="1")
        verif = os.path.dirname(os.path.dirname(os.path.abspath(__file__)))
        r = subprocess.run([sys.executable, "-B", "-m", "floxsa", prop, "--tier", "quick"], cwd=verif, env=env, capture_output=True, text=True, timeout=900)
        reports = [l for l in r.stdout.splitlines() if l.strip().startswith("REPORT")]
        ok = r.returncode == 1 and reports
        return {"variant": f"seed {name} ({how})", "property": prop, "status": "fired" if ok else "MISSED", "exit": r.returncode,
                "why": None if ok else (r.stdout.splitlines()[-2:])}
    finally:
        shutil.rmtree(d, ignore_errors=True)


def seeded_regression(ctx, prop: str, out) -> dict:
    """thorough-tier hook: every independently seeded change that this property's check is recorded to catch (meta.json: detected_by)
    must still be caught.  A seed whose patch no longer applies is skipped (listed), never a failure."""
    import glob
    import json
    base = os.path.join(os.path.dirname(os.path.dirname(os.path.abspath(__file__))), "seeded")
    todo = []
    for mp in sorted(glob.glob(os.path.join(base, "*", "meta.json"))):
        try:
            meta = json.load(open(mp))
        except (OSError, ValueError):
            continue
        if f"{prop}[" in str(meta.get("detected_by", "")):
            todo.append(os.path.dirname(mp))
    if not todo:
        out(f"[floxsa] seeded changes {prop}: none recorded for this property")
        return {"seeded": {"fired": 0, "skipped": 0, "failures": []}}
    root = tempfile.mkdtemp(prefix="floxsa_seeds_")
    try:
        with ThreadPoolExecutor(max_workers=8) as ex:
            results = list(ex.map(lambda sd: _run_seed(sd, prop, root, ctx.repo), todo))
    finally:
        shutil.rmtree(root, ignore_errors=True)
    fired = [r for r in results if r["status"] == "fired"]
    skipped = [r for r in results if r["status"] == "skipped"]
    failures = [r for r in results if r["status"] not in ("fired", "skipped")]
    out(f"[floxsa] seeded changes {prop}: {len(fired)} caught again, {len(skipped)} skipped, {len(failures)} no longer caught")
    for r in results:
        out(f"    {r['status']:<12} {r['variant']}" + (f"  ({r.get('why')})" if r["status"] != "fired" else ""))
    if failures:
        raise AnalysisError(f"seeded changes recorded as caught by {prop} are no longer caught: {[r['variant'] for r in failures]}")
    return {"seeded": {"fired": len(fired), "skipped": len(skipped), "failures": [], "seeds": [r["variant"] for r in results]}}


def user_blueprints(ctx, prop: str, out) -> dict:
    """thorough-tier hook for C04: push the Aggregation(...) objects constructed in tests/, docs/ and asv_bench/ through the
    monoid table as samples of user-defined blueprints.  Reported, never fatal: they are not the library."""
    import ast
    import glob
    from .registry import _sig_defaults, _atleast_1d
    from . import tables as T
    reg = ctx.registry
    init = ctx.prog.func("aggregations.Aggregation.__init__").node
    pos, defaults, _ = _sig_defaults(init, reg.ev)
    pos = pos[1:]
    samples = []
    files = []
    for sub in ("tests", "docs", "asv_bench"):
        files += glob.glob(os.path.join(ctx.repo, sub, "**", "*.py"), recursive=True)
    for path in sorted(files):
        try:
            tree = ast.parse(open(path, encoding="utf-8").read())
        except (SyntaxError, UnicodeDecodeError):
            continue
        for n in ast.walk(tree):
            if isinstance(n, ast.Call) and ast.unparse(n.func).split(".")[-1] == "Aggregation":
                args = dict(defaults)
                for i, a in enumerate(n.args):
                    if i < len(pos):
                        args[pos[i]] = reg.ev.ev(a)
                for k in n.keywords:
                    if k.arg:
                        args[k.arg] = reg.ev.ev(k.value)
                chunk = _atleast_1d(args.get("chunk"))
                combine = _atleast_1d(args.get("combine"))
                fills = _atleast_1d(args.get("fill_value"))
                if len(fills) == 1 and len(chunk) > 1:
                    fills = fills * len(chunk)
                verdicts = []
                for k, c, fv in zip(chunk, combine, fills):
                    if isinstance(k, str) and k in T.KERNELS:
                        cls, combs, fill, dtype, why = T.KERNELS[k]
                        ok = c in combs and fv == fill
                        verdicts.append(f"{k}/{c}/{fv!r}: {'row of the table' if ok else 'NOT a row (expected combine in ' + str(sorted(combs)) + ', fill ' + repr(fill) + ')'}")
                    else:
                        verdicts.append(f"{k!r}: callable or unknown kernel -- undecided")
                samples.append({"file": os.path.relpath(path, ctx.repo), "line": n.lineno, "name": args.get("name"), "positions": verdicts})
    out(f"[floxsa] user-defined blueprints found outside the library: {len(samples)}")
    for s in samples:
        out(f"    {s['file']}:{s['line']} {s['name']!r}: {s['positions']}")
    return {"user_blueprint_samples": samples}
