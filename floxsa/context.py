"""Shared lazily-built analysis context."""
from __future__ import annotations

from functools import cached_property

from .model import Program


class Context:
    def __init__(self, repo: str | None = None, tier: str = "quick"):
        from . import model
        self.repo = repo or model.REPO
        self.tier = tier

    @cached_property
    def prog(self) -> Program:
        return Program(self.repo)

    @cached_property
    def resolver(self):
        from .resolve import Resolver
        return Resolver(self.prog)

    @cached_property
    def registry(self):
        from .registry import Registry
        return Registry(self.prog)

    @cached_property
    def callgraph(self):
        from .callgraph import CallGraph
        return CallGraph(self)
