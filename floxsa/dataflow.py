"""Forward worklist dataflow over floxsa.cfg.CFG, plus path facts (guard atoms)."""
from __future__ import annotations

import ast
from collections import deque
from functools import lru_cache

from .cfg import CFG, Node, node_defs
from .model import norm


def forward(cfg: CFG, init, transfer, edge=None, join=None, bottom=None):
    """Generic forward analysis.  State values must be hashable/comparable.
    transfer(node, state) -> state ; edge(node, label, state) -> state | None (None = infeasible)
    join(a, b) -> state.  Returns (in_states, out_states) dicts node id -> state (missing = unreachable)."""
    ins: dict[int, object] = {cfg.entry.id: init}
    outs: dict[int, object] = {}
    work = deque([cfg.entry.id])
    onq = {cfg.entry.id}
    steps = 0
    while work:
        i = work.popleft()
        onq.discard(i)
        steps += 1
        if steps > 400000:
            raise RuntimeError("dataflow did not converge")
        n = cfg.nodes[i]
        out = transfer(n, ins[i])
        outs[i] = out
        for (s, lab) in n.succ:
            st = out if edge is None else edge(n, lab, out)
            if st is None:
                continue
            if s in ins:
                new = join(ins[s], st)
                if new == ins[s]:
                    continue
                ins[s] = new
            else:
                ins[s] = st
            if s not in onq:
                onq.add(s)
                work.append(s)
    return ins, outs


# ------------------------------------------------------------------------------------------------
# Guard atoms and facts
def atom_of(test: ast.AST) -> tuple[str, bool]:
    """Normalise a test expression to (atom text, polarity).  'x is not None' -> ('x is None', False) etc."""
    if isinstance(test, ast.UnaryOp) and isinstance(test.op, ast.Not):
        a, p = atom_of(test.operand)
        return a, not p
    if isinstance(test, ast.Compare) and len(test.ops) == 1:
        op = test.ops[0]
        l, r = norm(test.left), norm(test.comparators[0])
        if isinstance(op, ast.IsNot):
            return f"{l} is {r}", False
        if isinstance(op, ast.NotEq):
            return f"{l} == {r}", False
        if isinstance(op, ast.NotIn):
            return f"{l} in {r}", False
    return norm(test), True


@lru_cache(maxsize=None)
def _parse_atom(a: str):
    try:
        return ast.parse(a, mode="eval").body
    except SyntaxError:
        return None


@lru_cache(maxsize=None)
def atom_vars(a: str) -> frozenset:
    e = _parse_atom(a)
    return frozenset(n.id for n in ast.walk(e) if isinstance(n, ast.Name)) if e is not None else frozenset()


@lru_cache(maxsize=None)
def _eq_parts(a: str):
    """'x == "c"' -> (x, const) ; 'x in [c1, c2]' -> (x, [c1, c2]) ; 'x is None' -> (x, None-marker)."""
    e = _parse_atom(a)
    if isinstance(e, ast.Compare) and len(e.ops) == 1:
        l = norm(e.left)
        r = e.comparators[0]
        if isinstance(e.ops[0], ast.Eq) and isinstance(r, ast.Constant):
            return ("eq", l, repr(r.value))
        if isinstance(e.ops[0], ast.Is) and isinstance(r, ast.Constant):
            return ("eq", l, repr(r.value))
        if isinstance(e.ops[0], ast.In) and isinstance(r, (ast.List, ast.Tuple, ast.Set)) and all(isinstance(x, ast.Constant) for x in r.elts):
            return ("in", l, tuple(repr(x.value) for x in r.elts))
    return None


@lru_cache(maxsize=200000)
def consistent(facts: frozenset) -> bool:
    """Cheap propositional consistency of a set of (atom, bool) facts."""
    d: dict[str, bool] = {}
    for a, b in facts:
        if a in d and d[a] != b:
            return False
        d[a] = b
    eq_true: dict[str, set] = {}
    eq_false: dict[str, set] = {}
    ins: list = []
    for a, b in d.items():
        p = _eq_parts(a)
        if p is None:
            continue
        if p[0] == "eq":
            (eq_true if b else eq_false).setdefault(p[1], set()).add(p[2])
        else:
            ins.append((p[1], p[2], b))
    for v, cs in eq_true.items():
        if len(cs) > 1:
            return False
        if cs & eq_false.get(v, set()):
            return False
    for v, lst, b in ins:
        t = eq_true.get(v, set())
        if b:
            if t and not (t & set(lst)):
                return False
            if set(lst) <= eq_false.get(v, set()):
                return False
        else:
            if t & set(lst):
                return False
    return True


def add_fact(facts: frozenset, atom: str, val: bool, relevant) -> frozenset | None:
    if relevant is not None and not relevant(atom):
        return facts
    new = facts | {(atom, val)}
    return new if consistent(new) else None


def kill_facts(facts: frozenset, defs: set[str]) -> frozenset:
    if not defs or not facts:
        return facts
    return frozenset((a, b) for (a, b) in facts if not (atom_vars(a) & defs))


def eq_lhs(a: str):
    p = _eq_parts(a)
    return p[1] if p else None


# ------------------------------------------------------------------------------------------------
# Reaching definitions
def reaching_defs(cfg: CFG) -> dict[int, frozenset]:
    """node id -> frozenset of (variable, defining node id) reaching the *entry* of the node; parameters have no defining node"""
    def transfer(n: Node, st: frozenset) -> frozenset:
        ds = node_defs(n)
        if not ds:
            return st
        return frozenset({(v, d) for (v, d) in st if v not in ds} | {(v, n.id) for v in ds})

    ins, _ = forward(cfg, frozenset(), transfer, join=lambda a, b: a | b)
    return ins


def node_containing(cfg: CFG, target: ast.AST) -> Node | None:
    from .cfg import node_exprs
    for n in cfg.nodes:
        for e in node_exprs(n):
            for x in ast.walk(e):
                if x is target:
                    return n
    return None
