"""Resolved call graph, parameter bindings for callables, derived task roots, API roots."""
from __future__ import annotations

import ast
from collections import defaultdict

from .astutil import kwarg
from .model import AnalysisError, Func, norm, walk_own
from .resolve import T, UNKNOWN

API_ROOTS = [
    "core.groupby_reduce", "core.groupby_scan", "core.rechunk_for_blockwise", "core.rechunk_for_cohorts",
    "xarray.xarray_reduce", "xarray.rechunk_for_blockwise", "xarray.rechunk_for_cohorts",
    "aggregations.Aggregation.__init__", "core.ReindexStrategy.__post_init__",
    "core.ReindexStrategy.set_blockwise_for_numpy", "core.ReindexStrategy.get_dask_meta",
]

# hand-confirmed task roots on the tree this checker was written for; the derived set must contain them
CONFIRMED_TASK_ROOTS = {
    "core.chunk_reduce", "core.chunk_argreduce", "core._reduce_blockwise", "core._expand_dims", "core._simple_combine",
    "core._grouped_combine", "core._aggregate", "core.reindex_intermediates", "core.identity", "core._extract_result",
    "core._lazy_factorize_wrapper", "core._ravel_factorized", "core._zip", "aggregations.argreduce_preprocess._zip_index",
    "core.chunk_scan", "core.grouped_reduce", "aggregations.scan_binary_op", "core._finalize_scan",
}

SLOT_ATTRS = {"finalize", "preprocess", "new_dims_func", "binary_op"}

# (callee dotted-name suffix, positional index or None, keyword names) whose values are embedded into a task graph
EMBED_SITES = [
    ("dask.array.blockwise", 0, ()),
    ("dask.array.map_blocks", 0, ()),
    ("dask.array.core.map_blocks", 0, ()),
    ("dask.array.reductions._tree_reduce", None, ("combine", "aggregate")),
    ("dask.array.reductions.cumreduction", None, ("func", "binop", "preop")),
    ("cubed.core.groupby.groupby_reduction", None, ("func", "combine_func", "aggregate_func")),
    ("cubed.core.groupby.groupby_blockwise", None, ("func",)),
]


class CallGraph:
    def __init__(self, ctx):
        self.ctx = ctx
        self.prog = ctx.prog
        self.res = ctx.resolver
        self.reg = ctx.registry
        self.edges: dict[str, set[str]] = defaultdict(set)       # caller -> callees (calls and references)
        self.call_sites: dict[str, list] = defaultdict(list)     # callee -> [(caller Func, ast.Call, partial-kws or None)]
        self.param_callables: dict[tuple, set] = defaultdict(set)  # (func qualname, param) -> set[T]
        self.ext_calls: dict[str, list] = defaultdict(list)      # caller -> [(dotted, ast.Call)]
        self.unresolved: list = []
        self.embedded: list = []                                  # (Func, site description, expr, set[T])
        self.task_roots: set[str] = set()
        self.task_root_ext: set[str] = set()
        self._methods = self._method_index()
        self._build()

    # ----------------------------------------------------------------------------------------
    def _method_index(self) -> dict[str, list[str]]:
        idx: dict[str, list[str]] = defaultdict(list)
        for qn, f in self.prog.funcs.items():
            if f.cls:
                idx[f.name].append(qn)
        return idx

    def _dispatch_targets(self, module: str) -> set[T]:
        u = self.prog.unit(module)
        out: set[T] = set()
        for name in list(u.bindings) + list(u.funcs):
            if name.startswith("__"):
                continue
            for t in self.res.module_attr(module, name):
                out.add(t)
        return out

    def targets_of(self, e: ast.AST, f: Func) -> set[T]:
        """Resolve an expression to leaf callables (func/ext/lambda/...), expanding partial, compose, dispatch, params."""
        ts = self.res.resolve(e, f, f.unit)
        return self._expand(ts)

    def _expand(self, ts: set[T], depth=0) -> set[T]:
        out: set[T] = set()
        work = list(ts)
        seen: set[T] = set()
        while work:
            t = work.pop()
            if t in seen:
                continue
            seen.add(t)
            if t.kind == "partial":
                work.append(t.parts[0])
            elif t.kind == "compose":
                for alt in t.parts:
                    work.extend(alt)
            elif t.kind == "dispatch":
                work.extend(self._dispatch_targets(t.name))
            elif t.kind == "param":
                fn, p = t.name.split(":")
                bound = self.param_callables.get((fn, p))
                if bound:
                    work.extend(bound)
                else:
                    out.add(t)
            elif t.kind == "slot-elem":
                out.add(t)
            else:
                out.add(t)
        return out

    def _record_partial_bindings(self, ts: set[T], f: Func):
        """partial(g, kw=callable) binds g's parameter kw to that callable."""
        for t in ts:
            if t.kind == "partial":
                call = self.res.partial_nodes.get(t.node_id)
                inner = self._expand({t.parts[0]})
                if call is not None:
                    for g in inner:
                        if g.kind != "func":
                            continue
                        gf = self.prog.funcs.get(g.name)
                        if gf is None:
                            continue
                        for k in call.keywords:
                            if k.arg:
                                self._bind(gf, k.arg, k.value, f)
                        for i, a in enumerate(call.args[1:]):
                            pp = gf.positional_params
                            if gf.cls and pp and pp[0] in ("self", "cls"):
                                pp = pp[1:]
                            if i < len(pp):
                                self._bind(gf, pp[i], a, f)
                self._record_partial_bindings({t.parts[0]}, f)
            elif t.kind == "compose":
                for alt in t.parts:
                    self._record_partial_bindings(set(alt), f)

    def _bind(self, g: Func, param: str, value: ast.AST, ctx_f: Func) -> bool:
        ts = self.res.resolve(value, ctx_f, ctx_f.unit)
        callables = {t for t in ts if t.kind in ("func", "partial", "compose", "lambda", "dispatch", "ext", "param")}
        callables = {t for t in callables if not (t.kind == "ext" and t.name.startswith("builtins."))}
        before = len(self.param_callables[(g.qualname, param)])
        self.param_callables[(g.qualname, param)] |= callables
        return len(self.param_callables[(g.qualname, param)]) != before

    # ----------------------------------------------------------------------------------------
    def _build(self):
        funcs = self.prog.all_funcs()
        for _round in range(4):
            changed = False
            for f in funcs:
                changed |= self._scan_function(f, final=False)
            if not changed:
                break
        self.edges.clear()
        self.call_sites.clear()
        self.ext_calls.clear()
        self.unresolved.clear()
        self.embedded.clear()
        for f in funcs:
            self._scan_function(f, final=True)
        self._derive_task_roots()

    def _scan_function(self, f: Func, final: bool) -> bool:
        changed = False
        for n in walk_own(f.node):
            if isinstance(n, ast.Call):
                changed |= self._scan_call(f, n, final)
            elif isinstance(n, (ast.FunctionDef, ast.AsyncFunctionDef)) and n is not f.node:
                # a nested def is at least referenced by its parent
                qn = f"{f.qualname}.{n.name}"
                if final and qn in self.prog.funcs:
                    self.edges[f.qualname].add(qn)
        if final:
            self._scan_graph_stores(f)
        return changed

    def _scan_call(self, f: Func, call: ast.Call, final: bool) -> bool:
        changed = False
        raw = self.res.resolve(call.func, f, f.unit)
        self._record_partial_bindings(raw, f)
        leaves = self._expand(raw)
        # blueprint slots called through an object
        if isinstance(call.func, ast.Attribute) and call.func.attr in SLOT_ATTRS and not any(t.kind in ("func", "ext") for t in leaves):
            leaves = {T("func", q) for q in self.reg.slot_funcs(call.func.attr)} or leaves
        # methods of flox classes by unique name
        if isinstance(call.func, ast.Attribute) and not any(t.kind in ("func", "ext", "class") for t in leaves):
            cands = self._methods.get(call.func.attr, [])
            if len(cands) == 1:
                leaves = {T("func", cands[0])}
        for t in leaves:
            if t.kind == "func":
                g = self.prog.funcs.get(t.name)
                if g is None:
                    continue
                if final:
                    self.edges[f.qualname].add(g.qualname)
                    self.call_sites[g.qualname].append((f, call))
                changed |= self._bind_args(g, call, f, raw)
            elif t.kind == "class":
                cls_unit, cls_name = t.name.split(".", 1)
                for m in ("__init__", "__post_init__"):
                    qn = f"{t.name}.{m}"
                    if qn in self.prog.funcs:
                        if final:
                            self.edges[f.qualname].add(qn)
                            self.call_sites[qn].append((f, call))
            elif t.kind == "ext":
                if final:
                    self.ext_calls[f.qualname].append((t.name, call))
            elif t.kind in ("unknown",) and final:
                self.unresolved.append((f.qualname, norm(call.func), call.lineno))
        # references to flox functions in arguments (callbacks, partial construction)
        for a in list(call.args) + [k.value for k in call.keywords]:
            if isinstance(a, (ast.Name, ast.Attribute, ast.Call, ast.IfExp, ast.Lambda)):
                if isinstance(a, ast.Call) and norm(a.func) not in ("partial", "functools.partial", "tlz.compose"):
                    continue
                r = self.res.resolve(a, f, f.unit)
                self._record_partial_bindings(r, f)
                if final:
                    for t in self._expand(r):
                        if t.kind == "func" and t.name in self.prog.funcs:
                            self.edges[f.qualname].add(t.name)
        # embedding sites
        if final:
            self._scan_embedding(f, call, leaves, raw)
        return changed

    def _bind_args(self, g: Func, call: ast.Call, f: Func, raw: set[T]) -> bool:
        """bind callables passed as arguments to g's parameters."""
        changed = False
        pp = list(g.positional_params)
        if g.cls and pp and pp[0] in ("self", "cls"):
            pp = pp[1:]
        # skip positions already bound by an enclosing partial
        offset = 0
        for t in raw:
            if t.kind == "partial":
                pc = self.res.partial_nodes.get(t.node_id)
                if pc is not None:
                    offset = max(offset, len(pc.args) - 1)
        for i, a in enumerate(call.args):
            if isinstance(a, ast.Starred):
                break
            if i + offset < len(pp):
                changed |= self._bind(g, pp[i + offset], a, f)
        for k in call.keywords:
            if k.arg:
                changed |= self._bind(g, k.arg, k.value, f)
        return changed

    # ----------------------------------------------------------------------------------------
    def _scan_embedding(self, f: Func, call: ast.Call, leaves: set[T], raw: set[T]):
        names = {t.name for t in leaves if t.kind == "ext"}
        # method form: array.map_blocks(func, ...)
        if isinstance(call.func, ast.Attribute) and call.func.attr == "map_blocks" and not names:
            names = {"dask.array.map_blocks"}
        for (dotted, pos, kws) in EMBED_SITES:
            if not any(n == dotted or n.endswith("." + dotted.split(".")[-1]) and dotted.split(".")[-1] in ("map_blocks", "blockwise", "cumreduction", "groupby_reduction", "groupby_blockwise", "_tree_reduce") and n.split(".")[0] in ("dask", "cubed") for n in names):
                continue
            exprs = []
            if pos is not None and len(call.args) > pos:
                exprs.append((f"{dotted} arg{pos}", call.args[pos]))
            for kw in kws:
                v = kwarg(call, kw)
                if v is not None:
                    exprs.append((f"{dotted} {kw}=", v))
            # keywords supplied by an enclosing partial (tree_reduce = partial(_tree_reduce, ...))
            for (desc, e) in exprs:
                ts = self.res.resolve(e, f, f.unit)
                self._record_partial_bindings(ts, f)
                self.embedded.append((f, desc, e, ts))
        # flox's own tree builder and subset layer: parameters that end up in graph tuples
        for t in leaves:
            if t.kind == "func" and t.name == "dask_array_ops._tree_reduce":
                for kw in ("combine", "aggregate"):
                    v = kwarg(call, kw)
                    if v is not None:
                        ts = self.res.resolve(v, f, f.unit)
                        self._record_partial_bindings(ts, f)
                        self.embedded.append((f, f"flox _tree_reduce {kw}=", v, ts))

    def _scan_graph_stores(self, f: Func):
        """dsk[...] = (func, ...) ; {key: (func, ...) for ...} ; layer = {(name, 0): (operator.getitem, ...)}"""
        for n in walk_own(f.node):
            vals = []
            if isinstance(n, ast.Assign) and any(isinstance(t, ast.Subscript) for t in n.targets) and isinstance(n.value, ast.Tuple):
                tgt = next(t for t in n.targets if isinstance(t, ast.Subscript))
                if isinstance(tgt.slice, (ast.Tuple, ast.BinOp)):
                    vals.append(n.value)
            elif isinstance(n, ast.DictComp) and isinstance(n.value, ast.Tuple) and isinstance(n.key, (ast.Tuple, ast.BinOp)):
                vals.append(n.value)
            elif isinstance(n, ast.Dict):
                for k, v in zip(n.keys, n.values):
                    if isinstance(k, ast.Tuple) and isinstance(v, ast.Tuple) and v.elts:
                        vals.append(v)
            for v in vals:
                if not v.elts:
                    continue
                head = v.elts[0]
                ts = self.res.resolve(head, f, f.unit)
                if any(t.kind in ("func", "partial", "param", "ext", "compose") for t in ts):
                    self.embedded.append((f, "graph tuple head", head, ts))

    def _derive_task_roots(self):
        for (f, desc, e, ts) in self.embedded:
            for t in self._expand(ts):
                if t.kind == "func" and t.name in self.prog.funcs:
                    self.task_roots.add(t.name)
                elif t.kind == "ext":
                    self.task_root_ext.add(t.name)
                elif t.kind == "lambda":
                    self.task_roots.add(f"<lambda {t.name}>")
        missing = {r for r in CONFIRMED_TASK_ROOTS if r in self.prog.funcs} - self.task_roots
        if missing:
            raise AnalysisError(f"derived task roots lost hand-confirmed members {sorted(missing)}: rules over task-reachable code "
                                "would pass vacuously")

    # ----------------------------------------------------------------------------------------
    def reachable(self, roots) -> set[str]:
        seen: set[str] = set()
        work = [r for r in roots if r in self.prog.funcs]
        while work:
            q = work.pop()
            if q in seen:
                continue
            seen.add(q)
            for c in self.edges.get(q, ()):
                if c not in seen:
                    work.append(c)
        return seen

    def api_roots(self) -> list[str]:
        roots = [r for r in API_ROOTS if r in self.prog.funcs]
        missing = [r for r in API_ROOTS[:7] if r not in self.prog.funcs]
        if missing:
            raise AnalysisError(f"API roots missing: {missing}")
        return roots

    def api_reachable(self) -> set[str]:
        return self.reachable(self.api_roots())

    def task_reachable(self) -> set[str]:
        return self.reachable(self.task_roots)

    def path(self, roots, target: str) -> list[str]:
        prev: dict[str, str | None] = {r: None for r in roots if r in self.prog.funcs}
        work = list(prev)
        while work:
            q = work.pop(0)
            if q == target:
                out = []
                cur: str | None = q
                while cur is not None:
                    out.append(cur)
                    cur = prev[cur]
                return list(reversed(out))
            for c in sorted(self.edges.get(q, ())):
                if c not in prev:
                    prev[c] = q
                    work.append(c)
        return []
