"""Rule results, findings, evidence files, known-findings handling, exit codes."""
from __future__ import annotations

import json
import os
import time
from dataclasses import dataclass, field, asdict

VERIF = os.path.dirname(os.path.dirname(os.path.abspath(__file__)))
EVIDENCE_DIR = os.path.join(VERIF, "evidence")
REPLAY_DIR = os.path.join(EVIDENCE_DIR, "replay")
KNOWN_FILE = os.path.join(VERIF, "known_findings.json")


@dataclass
class Finding:
    rule: str
    key: str           # stable: rule-specific construct key (function + normalised construct), never a line number
    where: str         # file:line for humans
    func: str
    message: str
    path: list = field(default_factory=list)   # for path rules: entry point ... offending exit

    def line(self) -> str:
        p = f" path: {' -> '.join(self.path)}" if self.path else ""
        return f"{self.where} {self.func} {self.rule} [{self.key}] — {self.message}{p}"


@dataclass
class RuleResult:
    rule: str
    title: str
    instances: list = field(default_factory=list)       # every obligation examined (strings / small dicts)
    nontrivial: set = field(default_factory=set)        # distinct keys of instances with a real obligation
    findings: list = field(default_factory=list)
    notes: list = field(default_factory=list)           # UNDECIDED / UNTRIAGED / listed exceptions
    min_instances: int = 1
    assumptions: list = field(default_factory=list)

    def inst(self, desc, nontrivial_key: str | None = None):
        self.instances.append(desc)
        if nontrivial_key is not None:
            self.nontrivial.add(nontrivial_key)

    def report(self, key, where, func, message, path=()):
        self.findings.append(Finding(self.rule, key, where, func, message, list(path)))


def load_known() -> dict:
    if not os.path.exists(KNOWN_FILE):
        return {"findings": [], "fixed": []}
    with open(KNOWN_FILE) as fh:
        return json.load(fh)


def write_evidence(prop: str, tier: str, results: list[RuleResult], prog_summary: dict, wall: float,
                   violations: int, known_hits: list, extra: dict | None = None, explanation: str = "") -> str:
    os.makedirs(EVIDENCE_DIR, exist_ok=True)
    evaluations = sum(len(r.instances) for r in results)
    distinct = len(set().union(*[{f"{r.rule}:{k}" for k in r.nontrivial} for r in results])) if results else 0
    samples = []
    for r in results:
        for i in r.instances[:6]:
            samples.append({"rule": r.rule, "instance": i})
    rules = {
        r.rule: {
            "title": r.title,
            "instances": len(r.instances),
            "nontrivial": len(r.nontrivial),
            "min_instances_confirmed_by_hand": r.min_instances,
            "findings": [asdict(f) for f in r.findings],
            "notes": r.notes,
            "all_instances": r.instances if tier == "thorough" else r.instances[:40],
        }
        for r in results
    }
    assumptions = []
    for r in results:
        for a in r.assumptions:
            if a not in assumptions:
                assumptions.append(a)
    assumptions += [
        "CPython's ast module parses the tree the way the interpreter does",
        "the frozen tables in floxsa/tables.py (monoid table, view/copy table, materialising primitives) state NumPy/pandas/dask semantics correctly",
    ]
    ev = {
        "property_id": prop,
        "tier": tier,
        "seed": int(os.environ.get("VERIF_SEED", "0") or 0),
        "level": "other",
        "coverage": {
            "explanation": explanation or "static rules over all paths of the parsed source; see rules",
            "evaluations": evaluations,
            "distinct_nontrivial": distinct,
            "rule": "evaluations = rule instances (obligations) examined on this run; an instance is non-trivial when the rule "
                    "had a real obligation to discharge on it (e.g. a write whose target may alias an input), distinct by rule+construct key",
            "samples": samples[:60],
            "exhaustive": True,
            "analysed": prog_summary,
            "rules": rules,
            "known_findings_reported": known_hits,
        },
        "assumptions": assumptions,
        "wall_s": round(wall, 3),
        "violations": violations,
    }
    if extra:
        ev["coverage"].update(extra)
    path = os.path.join(EVIDENCE_DIR, f"{prop}.json")
    tmp = path + ".tmp"
    with open(tmp, "w") as fh:
        json.dump(ev, fh, indent=1, default=str)
    os.replace(tmp, path)
    return path


def write_replay(prop: str, findings: list[Finding]) -> str:
    os.makedirs(REPLAY_DIR, exist_ok=True)
    path = os.path.join(REPLAY_DIR, f"{prop}.json")
    with open(path, "w") as fh:
        json.dump({"property": prop, "findings": [asdict(f) for f in findings]}, fh, indent=1)
    return path
