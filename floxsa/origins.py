"""Origins (may-alias) analysis: which objects may a write reach?   (R-PURE, R-ARGS, R-MEMO, R-GLOBAL)

Abstract value AV = (top, fields, deep):
  top    tokens of the objects the value itself may be (or be a view of)
  fields one level of constant-key / attribute sensitivity: key -> tokens of the object stored there
  deep   tokens of anything reachable further inside (collapsed)
Tokens: ('P', param, d)  d=0 the parameter object itself, d=1 something inside it
        ('G', 'unit.name', d) a module-level object ; ('R', memoised function, d) ; ('F',) fresh.
Locals are flow-sensitive (CFG); stores into containers are weak updates on the root variable.
Function summaries (returned AV, mutated tokens) are computed to a fixpoint over the call graph.
"""
from __future__ import annotations

import ast
from dataclasses import dataclass

from .cfg import CFG, Node, node_defs
from .dataflow import forward
from .model import Func, norm, walk_own
from .resolve import T

F = ("F",)


def P(name, d=0):
    return ("P", name, d)


def deepen(tokens):
    return frozenset(t if t == F else (t[0], t[1], 1) for t in tokens)


KDEPTH = 2      # constant-key / attribute paths tracked precisely below a variable


@dataclass(frozen=True)
class AV:
    """top: the object itself; fields: path of ('a',attr)/('k',key) steps (length <= KDEPTH) -> object stored there;
    irest/arest: objects under unknown item keys / attributes (one level down); sub: anything deeper (collapsed)."""
    top: frozenset = frozenset()
    fields: tuple = ()            # sorted tuple of (path, frozenset)
    irest: frozenset = frozenset()
    arest: frozenset = frozenset()
    sub: frozenset = frozenset()

    def fdict(self) -> dict:
        return dict(self.fields)

    def step(self, kind: str, key) -> "AV":
        """value loaded through one constant attribute / key step"""
        d = self.fdict()
        p1 = ((kind, key),)
        if p1 in d:
            top = d[p1]
        else:
            top = self.arest if kind == "a" else self.irest
            if kind == "i":
                top = top | frozenset(t for t in self.top if t != F)     # x[0] of an array is a view of x
        sub_fields = {p[1:]: v for p, v in d.items() if len(p) > 1 and p[0] == (kind, key)}
        return AV(top, tuple(sorted(sub_fields.items())), self.sub, self.sub, self.sub)

    def items_any(self) -> frozenset:
        out = set(self.irest)
        for p, v in self.fields:
            if len(p) == 1 and p[0][0] in ("k", "i"):
                out |= v
        return frozenset(out)

    def all_inside(self) -> frozenset:
        out = set(self.irest) | set(self.arest) | set(self.sub)
        for _, v in self.fields:
            out |= v
        return frozenset(out)

    def is_bottom(self) -> bool:
        return not (self.top or self.fields or self.irest or self.arest or self.sub)

    def lookup_default(self, path) -> frozenset:
        """what a path not explicitly tracked denotes on this value"""
        if len(path) == 1:
            return self.arest if path[0][0] == "a" else self.irest
        return self.sub

    def join(self, o: "AV") -> "AV":
        if self == o or o.is_bottom():
            return self
        if self.is_bottom():
            return o
        sd, od = self.fdict(), o.fdict()
        d = {}
        for k in set(sd) | set(od):
            a = sd[k] if k in sd else self.lookup_default(k)
            b = od[k] if k in od else o.lookup_default(k)
            d[k] = a | b
        return AV(self.top | o.top, tuple(sorted(d.items())), self.irest | o.irest, self.arest | o.arest, self.sub | o.sub)

    def with_store(self, path, v: "AV", const: bool) -> "AV":
        """weak update: v stored at path below this value (const: every step is a constant key / attribute)"""
        inside = v.all_inside()
        if const and 1 <= len(path) <= KDEPTH:
            d = self.fdict()
            d[path] = d.get(path, frozenset()) | v.top
            for p2, t2 in v.fields:          # graft the stored value's own known fields
                if len(path) + len(p2) <= KDEPTH:
                    d[path + p2] = d.get(path + p2, frozenset()) | t2
            return AV(self.top, tuple(sorted(d.items())), self.irest, self.arest, self.sub | inside)
        if len(path) == 1:
            return AV(self.top, self.fields, self.irest | v.top, self.arest, self.sub | inside)
        return AV(self.top, self.fields, self.irest, self.arest, self.sub | v.top | inside)


_FS = frozenset({F})
FRESH = AV(_FS, (), _FS, _FS, _FS)
EMPTY = AV()


def mk(top=(), fields=None, irest=(), sub=(), arest=None):
    fs = tuple(sorted((k, frozenset(v)) for k, v in (fields or {}).items()))
    return AV(frozenset(top), fs, frozenset(irest), frozenset(arest) if arest is not None else _FS, frozenset(sub))


def param_av(name: str) -> AV:
    inner = frozenset({P(name, 1)})
    return AV(frozenset({P(name, 0)}), (), inner, inner, inner)


def token_av(kind: str, name: str) -> AV:
    inner = frozenset({(kind, name, 1)})
    return AV(frozenset({(kind, name, 0)}), (), inner, inner, inner)


# ------------------------------------------------------------------------------------------------
# semantics tables (frozen; see DESIGN.md R-PURE)
VIEW_FUNCS = {  # result may share memory with the first argument
    "numpy.asarray", "numpy.asanyarray", "numpy.atleast_1d", "numpy.atleast_2d", "numpy.broadcast_to", "numpy.expand_dims",
    "numpy.squeeze", "numpy.reshape", "numpy.moveaxis", "numpy.transpose", "numpy.ravel", "numpy.swapaxes",
    "numpy.ascontiguousarray", "numpy.real", "numpy.imag", "numpy.diagonal", "typing.cast", "numpy.nan_to_num:copy=False",
}
VIEW_ALL_ARGS = {"numpy.broadcast_arrays", "numpy.ix_", "numpy.atleast_1d"}
VIEW_METHODS = {"reshape", "ravel", "view", "squeeze", "transpose", "swapaxes", "to_numpy", "__getitem__", "get", "item",
                "rechunk", "map_blocks", "persist"}
VIEW_ATTRS = {"T", "real", "imag", "values", "data", "flat", "blocks", "array", "group_idx", "variable", "_meta", "mT"}
COPY_METHODS = {"copy", "flatten", "tolist", "sort_values", "to_numpy:copy", "argsort", "nonzero", "sum", "any", "all", "max", "min",
                "cumsum", "mean", "compute", "astype"}
SHALLOW_COPIES = {"copy.copy", "builtins.dict", "builtins.list", "builtins.tuple", "builtins.set", "builtins.frozenset"}
DEEP_COPIES = {"copy.deepcopy"}
CONTAINER_BUILDERS = {"builtins.zip", "builtins.enumerate", "builtins.sorted", "builtins.reversed", "builtins.map",
                      "builtins.filter", "itertools.chain", "itertools.product", "builtins.iter", "builtins.next",
                      "toolz.groupby", "toolz.accumulate", "toolz.partition_all", "functools.reduce", "functools.partial",
                      "toolz.compose", "dask.utils.deepmap", "dask.base.flatten", "dask.array.core.deepfirst",
                      "dask.array.core._concatenate2", "builtins.getattr"}
INPLACE_METHODS = {"sort", "partition", "fill", "resize", "put", "itemset", "setflags", "update", "append", "extend", "insert",
                   "pop", "popitem", "remove", "clear", "setdefault", "add", "discard", "eliminate_zeros", "sum_duplicates",
                   "byteswap:inplace"}
INPLACE_FUNCS_ARG0 = {"numpy.put", "numpy.place", "numpy.copyto", "numpy.putmask", "numpy.put_along_axis", "numpy.fill_diagonal",
                      "builtins.setattr", "builtins.delattr", "numpy.random.shuffle"}
MEMOIZERS = {"memoize", "lru_cache", "functools.lru_cache", "functools.cache", "cache"}


@dataclass
class Write:
    func: str
    node: ast.AST
    what: str          # description of the construct
    tokens: frozenset  # non-fresh tokens possibly written (in func's own token space)
    via: tuple = ()    # chain of (callee qualname, description) when the write happens in a callee


class Summary:
    def __init__(self):
        self.ret: AV = EMPTY
        self.mutates: dict = {}      # token -> witness tuple of strings (chain)
        self.stable = False


class Origins:
    def __init__(self, ctx, exempt=None):
        self.ctx = ctx
        self.exempt = exempt      # callable(func, node, what, tokens) -> tokens  (frozen exceptions applied at the source)
        self.prog = ctx.prog
        self.cg = ctx.callgraph
        self.res = ctx.resolver
        self.summaries: dict[str, Summary] = {q: Summary() for q in self.prog.funcs}
        self.writes: dict[str, list[Write]] = {}
        self.cfgs: dict[str, CFG] = {}
        self.memoised = self._memoised()
        self.ext_fresh_assumed: set[str] = set()
        self.unbound_callees = 0
        self._solve()

    def _memoised(self) -> set[str]:
        out = set()
        for q, f in self.prog.funcs.items():
            if isinstance(f.node, ast.FunctionDef):
                for d in f.node.decorator_list:
                    n = norm(d.func) if isinstance(d, ast.Call) else norm(d)
                    if n.split(".")[-1] in MEMOIZERS:
                        out.add(q)
        return out

    # ------------------------------------------------------------------------------------------
    def _solve(self):
        funcs = self.prog.all_funcs()
        for rnd in range(8):
            changed = False
            for f in funcs:
                changed |= self._analyse(f)
            if not changed:
                break
        self.rounds = rnd + 1

    def cfg(self, f: Func) -> CFG:
        if f.qualname not in self.cfgs:
            self.cfgs[f.qualname] = CFG(f)
        return self.cfgs[f.qualname]

    def _analyse(self, f: Func) -> bool:
        an = _FuncAnalysis(self, f)
        an.run()
        s = self.summaries[f.qualname]
        new_ret = s.ret.join(an.ret)
        new_mut = dict(s.mutates)
        for w in an.writes:
            for t in w.tokens:
                if t[0] == "P" and t not in new_mut:
                    new_mut[t] = ((f.qualname, f"{f.where(w.node)} {w.what}"),) + w.via
        changed = new_ret != s.ret or set(new_mut) != set(s.mutates)
        s.ret, s.mutates = new_ret, new_mut
        self.writes[f.qualname] = an.writes
        return changed


class _FuncAnalysis:
    def __init__(self, o: Origins, f: Func):
        self.o = o
        self.f = f
        self.u = f.unit
        self.writes: list[Write] = []
        self.ret: AV = EMPTY

    @staticmethod
    def _join(a: dict, b: dict) -> dict:
        if a is b:
            return a
        out = dict(a)
        for k, v in b.items():
            out[k] = out[k].join(v) if k in out else v
        return out

    def run(self):
        f = self.f
        cfg = self.o.cfg(f)
        init = {p: param_av(p) for p in f.params}
        for star in (f.kwarg, f.vararg):
            if star:
                inner = frozenset({P(star, 1)})
                init[star] = AV(_FS, (), inner, _FS, inner)      # a fresh dict/tuple holding the caller's values
        self._seen_writes: set = set()
        forward(cfg, init, self.transfer, join=self._join)

    # -- expression evaluation ---------------------------------------------------------------------
    def ev(self, e: ast.AST | None, st: dict) -> AV:
        if e is None:
            return FRESH
        if isinstance(e, ast.Name):
            if e.id in st:
                return st[e.id]
            return self._global_name(e.id)
        if isinstance(e, ast.Constant):
            return FRESH
        if isinstance(e, ast.Attribute):
            if isinstance(e.value, ast.Name) and e.value.id not in st:
                ts = self.o.res.resolve(e, self.f, self.u)
                g = next((t for t in ts if t.kind == "global"), None)
                if g is not None:
                    return token_av("G", g.name)
                if ts and all(t.kind in ("func", "class", "ext", "extmod", "module", "partial", "const", "instance", "classattr") for t in ts):
                    return FRESH
            base = self.ev(e.value, st)
            if e.attr in VIEW_ATTRS:
                return base
            return base.step("a", e.attr)
        if isinstance(e, ast.Subscript):
            base = self.ev(e.value, st)
            self.ev(e.slice, st)
            if isinstance(e.slice, ast.Constant) and isinstance(e.slice.value, str):
                return base.step("k", e.slice.value)
            if isinstance(e.slice, ast.Constant) and isinstance(e.slice.value, int) and ((("i", e.slice.value),) in base.fdict()):
                el = base.step("i", e.slice.value)      # element of a tuple whose layout is known
                return AV(el.top | (base.top - _FS), el.fields, el.irest, el.arest, el.sub)
            # ambiguous: array view (same object) or container element
            return AV(base.top | base.items_any(), (), base.irest | base.sub, base.arest | base.sub, base.sub)
        if isinstance(e, ast.Starred):
            return self.ev(e.value, st)
        if isinstance(e, (ast.Tuple, ast.List, ast.Set)):
            tops, sub = set(), set()
            fields = {}
            positional = isinstance(e, (ast.Tuple, ast.List)) and len(e.elts) <= 8 and not any(isinstance(x, ast.Starred) for x in e.elts)
            for i, x in enumerate(e.elts):
                v = self.ev(x, st)
                if isinstance(x, ast.Starred):
                    v = self._elem(v)
                tops |= v.top
                sub |= v.all_inside()
                if positional:
                    fields[(("i", i),)] = v.top
                    for p2, t2 in v.fields:
                        if 1 + len(p2) <= KDEPTH:
                            fields[(("i", i),) + p2] = t2
            return AV(_FS, tuple(sorted(fields.items())), frozenset(tops) or _FS, _FS, frozenset(sub) or _FS)
        if isinstance(e, ast.Dict):
            fields, irest, sub = {}, set(), set()
            for k, v in zip(e.keys, e.values):
                av = self.ev(v, st)
                if k is None:
                    irest |= av.items_any()
                    sub |= av.sub
                    continue
                if isinstance(k, ast.Constant) and isinstance(k.value, str):
                    fields[(("k", k.value),)] = av.top
                    for p2, t2 in av.fields:
                        if 1 + len(p2) <= KDEPTH:
                            fields[(("k", k.value),) + p2] = t2
                else:
                    irest |= av.top
                sub |= av.all_inside()
            return AV(_FS, tuple(sorted(fields.items())), frozenset(irest) or _FS, _FS, frozenset(sub) or _FS)
        if isinstance(e, ast.IfExp):
            self.ev(e.test, st)
            return self.ev(e.body, st).join(self.ev(e.orelse, st))
        if isinstance(e, ast.BoolOp):
            out = EMPTY
            for v in e.values:
                out = out.join(self.ev(v, st))
            return out
        if isinstance(e, ast.NamedExpr):
            v = self.ev(e.value, st)
            st[e.target.id] = v
            return v
        if isinstance(e, (ast.BinOp, ast.UnaryOp, ast.Compare, ast.JoinedStr, ast.FormattedValue)):
            for ch in ast.iter_child_nodes(e):
                if isinstance(ch, ast.expr):
                    self.ev(ch, st)
            return FRESH
        if isinstance(e, (ast.ListComp, ast.SetComp, ast.GeneratorExp, ast.DictComp)):
            return self._comprehension(e, st)
        if isinstance(e, ast.Lambda):
            return FRESH
        if isinstance(e, ast.Call):
            return self._call(e, st)
        if isinstance(e, ast.Slice):
            for ch in (e.lower, e.upper, e.step):
                if ch is not None:
                    self.ev(ch, st)
            return FRESH
        if isinstance(e, ast.Await):
            return self.ev(e.value, st)
        return FRESH

    def _global_name(self, name: str) -> AV:
        ts = self.o.res.resolve_name(name, self.f, self.u)
        for t in ts:
            if t.kind == "global":
                return token_av("G", t.name)
        return FRESH

    def _elem(self, v: AV) -> AV:
        """element obtained by iterating / unpacking v (or a view of v, for arrays)"""
        return AV(v.top | v.items_any(), (), v.irest | v.sub, v.arest | v.sub, v.sub)

    def _container(self, vals) -> AV:
        """fresh container holding the given values"""
        tops, sub = set(), set()
        for v in vals:
            tops |= v.top
            sub |= v.all_inside()
        return AV(_FS, (), frozenset(tops) or _FS, _FS, frozenset(sub) or _FS)

    def _comprehension(self, e, st: dict) -> AV:
        st2 = dict(st)
        for g in e.generators:
            it = self.ev(g.iter, st2)
            self._bind_target(g.target, self._elem(it), st2, iterating=g.iter)
            for c in g.ifs:
                self.ev(c, st2)
        if isinstance(e, ast.DictComp):
            self.ev(e.key, st2)
            v = self.ev(e.value, st2)
        else:
            v = self.ev(e.elt, st2)
        return self._container([v])

    def _bind_target(self, t: ast.AST, v: AV, st: dict, iterating: ast.AST | None = None):
        if isinstance(t, ast.Name):
            st[t.id] = v
        elif isinstance(t, (ast.Tuple, ast.List)):
            if iterating is not None and isinstance(iterating, ast.Call):
                fn = norm(iterating.func)
                if fn == "zip" and len(iterating.args) == len(t.elts):
                    for el, src in zip(t.elts, iterating.args):
                        self._bind_target(el, self._elem(self.ev(src, st)), st)
                    return
                if fn == "enumerate" and len(t.elts) == 2 and iterating.args:
                    self._bind_target(t.elts[0], FRESH, st)
                    inner_it = iterating.args[0]
                    self._bind_target(t.elts[1], self._elem(self.ev(inner_it, st)), st, iterating=inner_it)
                    return
            known = any(len(p) >= 1 and p[0][0] == "i" for p, _ in v.fields) and not any(isinstance(el, ast.Starred) for el in t.elts)
            for i, el in enumerate(t.elts):
                ev_ = v.step("i", i) if known else self._elem(v)
                self._bind_target(el.value if isinstance(el, ast.Starred) else el, ev_, st)
        elif isinstance(t, ast.Starred):
            self._bind_target(t.value, v, st)
        elif isinstance(t, (ast.Attribute, ast.Subscript)):
            self._store(t, v, st, t)

    # -- writes ------------------------------------------------------------------------------------
    def _record(self, node: ast.AST, what: str, tokens, via=()):
        toks = frozenset(t for t in tokens if t != F)
        if self.o.exempt is not None and toks:
            toks = self.o.exempt(self.f, node, what, toks)
        key = (id(node), what, toks, via)
        if key in self._seen_writes:
            return
        self._seen_writes.add(key)
        self.writes.append(Write(self.f.qualname, node, what, toks, via))

    def _weak_update(self, base_e: ast.AST, target: ast.AST | None, v: AV, st: dict):
        """record that v is now stored at target (= base_e.<attr> / base_e[<key>]) inside the root variable"""
        steps = []
        const = True
        if target is not None:
            if isinstance(target, ast.Attribute):
                steps.append(("a", target.attr))
            elif isinstance(target.slice, ast.Constant) and isinstance(target.slice.value, str):
                steps.append(("k", target.slice.value))
            else:
                steps.append(("k", None))
                const = False
        else:
            steps.append(("k", None))
            const = False
        root = base_e
        while isinstance(root, (ast.Attribute, ast.Subscript)):
            if isinstance(root, ast.Attribute):
                if root.attr not in VIEW_ATTRS:
                    steps.append(("a", root.attr))
            elif isinstance(root.slice, ast.Constant) and isinstance(root.slice.value, str):
                steps.append(("k", root.slice.value))
            else:
                steps.append(("k", None))
                const = False
            root = root.value
        if not (isinstance(root, ast.Name) and root.id in st):
            return
        path = tuple(reversed(steps))
        st[root.id] = st[root.id].with_store(path, v, const)

    def _store(self, target: ast.AST, v: AV, st: dict, node: ast.AST, what: str | None = None):
        """store through an Attribute/Subscript target: mutates the base object"""
        base = self.ev(target.value, st)
        if isinstance(target, ast.Subscript):
            self.ev(target.slice, st)
        self._record(node, what or f"store {norm(target)[:60]} = ...", base.top)
        self._weak_update(target.value, target, v, st)

    # -- calls ---------------------------------------------------------------------------------------
    def _slot_funcs(self, call: ast.Call) -> list[str]:
        reg = self.o.ctx.registry
        slot = call.func.attr
        scan_ctx = "scan" in self.f.qualname.lower() or "Scan" in norm(self.f.node.args)
        out = set()
        recs = list(reg.scans.values()) if scan_ctx else list(reg.aggs.values())
        for r in recs:
            v = r.args.get(slot)
            if v is not None and repr(v).startswith("func:"):
                out.add(repr(v)[5:])
        if slot == "new_dims_func":
            out.add("aggregations.returns_empty_tuple")
        return sorted(q for q in out if q in self.o.prog.funcs)

    def _call(self, call: ast.Call, st: dict) -> AV:
        f = self.f
        args = [self.ev(a, st) for a in call.args]
        kws = {k.arg: self.ev(k.value, st) for k in call.keywords}
        fn_txt = norm(call.func)
        on = kwarg_node(call, "out")
        if on is not None and not _is_none(on):
            self._record(call, f"{fn_txt[:40]}(..., out={norm(on)})", kws["out"].top)
        recv = None
        if isinstance(call.func, ast.Attribute):
            recv = self.ev(call.func.value, st)
            m = call.func.attr
            if m in INPLACE_METHODS:
                self._record(call, f"in-place method {norm(call.func)[:50]}()", recv.top)
                for a in args:
                    # x.append(v) / x.update(d): v (or its items) becomes an item of x
                    self._weak_update(call.func.value, None, self._elem(a) if m in ("update", "extend") else a, st)
                return FRESH
            if m == "at" and isinstance(call.func.value, ast.Attribute) and args:
                self._record(call, f"ufunc.at {fn_txt[:40]}", args[0].top)
                return FRESH
        targets = self.o.res.resolve(call.func, f, self.u)
        leaves = self.o.cg._expand(targets)
        ext = {t.name for t in leaves if t.kind == "ext"}
        flox = sorted({t.name for t in leaves if t.kind == "func" and t.name in self.o.prog.funcs})
        if not flox and isinstance(call.func, ast.Attribute) and call.func.attr in ("finalize", "preprocess", "new_dims_func", "binary_op") \
                and not any(t.kind in ("class",) for t in leaves):
            flox = self._slot_funcs(call)
        if not flox and not ext and isinstance(call.func, ast.Attribute):
            c = self.o.cg._methods.get(call.func.attr, [])
            if len(c) == 1:
                flox = c
        classes = [t for t in leaves if t.kind == "class"]
        for name in ext:
            if name in INPLACE_FUNCS_ARG0 and args:
                self._record(call, f"{name}({norm(call.args[0])[:30]}, ...)", args[0].top)
        if flox:
            out = EMPTY
            for q in flox:
                out = out.join(self._apply_summary(q, call, args, kws, st, targets))
            return out
        if classes:
            fields = {}
            sub = set()
            for k, v in kws.items():
                if k:
                    fields[(("a", k),)] = v.top
                sub |= v.all_inside()
            for a in args:
                sub |= a.all_inside()
            for t in classes:
                cls = self.o.prog.units[t.name.split(".")[0]].classes.get(t.name.split(".", 1)[1])
                if cls is not None:
                    names = [x.target.id for x in cls.body if isinstance(x, ast.AnnAssign) and isinstance(x.target, ast.Name)]
                    for n, a in zip(names, args):
                        fields[(("a", n),)] = fields.get((("a", n),), frozenset()) | a.top
                init = f"{t.name}.__init__"
                if init in self.o.prog.funcs:
                    self._apply_summary(init, call, [FRESH] + args, kws, st, targets)
            return AV(_FS, tuple(sorted(fields.items())), _FS, _FS, frozenset(sub) or _FS)
        if any(n in DEEP_COPIES for n in ext):
            return FRESH
        if any(n in SHALLOW_COPIES for n in ext):
            if args:
                a = args[0]
                if norm(call.func) in ("list", "tuple", "set", "frozenset"):
                    e = self._elem(a)
                    return AV(_FS, (), e.top, _FS, e.all_inside())
                d = a.fdict()
                for k, v in kws.items():
                    if k:
                        d[(("k", k),)] = v.top
                return AV(_FS, tuple(sorted(d.items())), a.irest, a.arest, a.sub)
            fields = {(("k", k),): v.top for k, v in kws.items() if k}
            sub = set()
            for v in kws.values():
                sub |= v.all_inside()
            return AV(_FS, tuple(sorted(fields.items())), _FS, _FS, frozenset(sub) or _FS)
        if any(n in VIEW_FUNCS for n in ext) and args:
            return args[0]
        if any(n in VIEW_ALL_ARGS for n in ext):
            return self._container(args)
        if any(n == "numpy.array" for n in ext) and args:
            cp = kwarg_node(call, "copy")
            if cp is not None and isinstance(cp, ast.Constant) and cp.value is False:
                return args[0]
            return FRESH
        if any(n in CONTAINER_BUILDERS for n in ext):
            vals = [self._elem(a) for a in args] + list(kws.values())
            return self._container(vals + args)
        if recv is not None and not ext:
            m = call.func.attr
            if m == "astype":
                cp = kwarg_node(call, "copy")
                if cp is not None and isinstance(cp, ast.Constant) and cp.value is False:
                    return recv
                return FRESH
            if m in VIEW_METHODS:
                return recv
            if m in ("items", "values", "keys"):
                return self._container([self._elem(recv)])
            if m == "copy":
                if kwarg_node(call, "deep") is not None:
                    return FRESH
                # ndarray.copy -> fresh buffer; dict/list.copy -> new container, elements shared
                return AV(_FS, recv.fields, recv.irest, recv.arest, recv.sub) if recv.fields else FRESH
            return FRESH
        for n in ext:
            self.o.ext_fresh_assumed.add(n)
        if not ext and not flox:
            self.o.unbound_callees += 1
        return FRESH

    def _apply_summary(self, q: str, call: ast.Call, args: list, kws: dict, st: dict, targets) -> AV:
        g = self.o.prog.funcs[q]
        s = self.o.summaries[q]
        bound: dict[str, AV] = {}
        pp = list(g.positional_params)
        if g.cls and pp and pp[0] in ("self", "cls"):
            if isinstance(call.func, ast.Attribute) and not any(t.kind == "class" for t in targets):
                bound[pp[0]] = self.ev(call.func.value, st)
            pp = pp[1:]
        offset = 0
        for t in targets:
            offset = max(offset, self._bind_partial(t, g, bound, st))
        i = 0
        for a_node, a in zip(call.args, args):
            if isinstance(a_node, ast.Starred):
                el = self._elem(a)
                for p in pp[i + offset:]:
                    bound[p] = bound[p].join(el) if p in bound else el
                if g.vararg:
                    bound[g.vararg] = self._container([el])
                break
            if i + offset < len(pp):
                bound[pp[i + offset]] = a
            elif g.vararg:
                bound[g.vararg] = bound.get(g.vararg, EMPTY).join(self._container([a]))
            i += 1
        for k_node in call.keywords:
            v = kws[k_node.arg]
            if k_node.arg is None:
                self._bind_dstar(g, v, bound)
                continue
            if k_node.arg in g.params and k_node.arg not in (g.kwarg, g.vararg):
                bound[k_node.arg] = v
            elif g.kwarg:
                cur = bound.get(g.kwarg, EMPTY)
                d = cur.fdict()
                d[(("k", k_node.arg),)] = d.get((("k", k_node.arg),), frozenset()) | v.top
                bound[g.kwarg] = AV(_FS, tuple(sorted(d.items())), cur.irest or _FS, _FS, (cur.sub | v.all_inside()) or _FS)

        def tr(tokens) -> frozenset:
            out = set()
            for t in tokens:
                if t == F or t[0] in ("G", "R"):
                    out.add(t)
                elif t[0] == "P":
                    a = bound.get(t[1])
                    if a is None:
                        out.add(F)        # defaulted parameter: the default object -- fresh for our purposes
                    elif t[2] == 0:
                        out |= a.top
                    else:
                        out |= a.all_inside()
            return frozenset(out)

        for tok, chain in s.mutates.items():
            hit = tr({tok})
            self._record(call, f"call {q}(...) which writes through its parameter {tok[1]!r}{' (inside)' if tok[2] else ''}",
                         hit, via=tuple(chain))
        if q in self.o.memoised:
            return token_av("R", q)
        r = s.ret
        return AV(tr(r.top), tuple(sorted((k, tr(v)) for k, v in r.fields)), tr(r.irest), tr(r.arest), tr(r.sub))

    def _bind_dstar(self, g: Func, v: AV, bound: dict):
        """f(**v): known constant keys bind the same-named parameters; unknown content may bind any parameter
        except an explicit in/out buffer ('out'), which flox only ever passes by name (assumption, recorded)."""
        keys = {p[0][1] for p, _ in v.fields if len(p) >= 1 and p[0][0] == "k"}
        for key in keys:
            av = v.step("k", key)
            if key in g.params and key not in (g.kwarg, g.vararg):
                bound[key] = bound[key].join(av) if key in bound else av
            elif g.kwarg:
                cur = bound.get(g.kwarg, AV(_FS, (), _FS, _FS, _FS))
                bound[g.kwarg] = cur.with_store((("k", key),), av, True)
        if v.irest - _FS:
            el = AV(v.irest, (), v.sub, v.sub, v.sub)
            for p in g.params:
                if p in bound or p == "out" or p == g.vararg:
                    continue
                if p == g.kwarg:
                    bound[p] = AV(_FS, (), v.irest, _FS, v.sub)
                else:
                    bound[p] = el
            if g.kwarg and g.kwarg in bound:
                cur = bound[g.kwarg]
                bound[g.kwarg] = AV(cur.top, cur.fields, cur.irest | v.irest, cur.arest, cur.sub | v.sub)

    def _bind_partial(self, t: T, g: Func, bound: dict, st: dict) -> int:
        if t.kind != "partial":
            if t.kind == "compose":
                n = 0
                for alt in t.parts[-1:] if t.parts else ():
                    for a in alt:
                        n = max(n, self._bind_partial(a, g, bound, st))
                return n
            return 0
        n = self._bind_partial(t.parts[0], g, bound, st)
        call = self.o.res.partial_nodes.get(t.node_id)
        if call is None:
            return n
        pp = list(g.positional_params)
        if g.cls and pp and pp[0] in ("self", "cls"):
            pp = pp[1:]
        for i, a in enumerate(call.args[1:]):
            if n + i < len(pp):
                bound[pp[n + i]] = self.ev(a, dict(st))
        for k in call.keywords:
            if k.arg and k.arg in g.params:
                bound[k.arg] = self.ev(k.value, dict(st))
            elif k.arg is None:
                self._bind_dstar(g, self.ev(k.value, dict(st)), bound)
        return n + len(call.args) - 1

    # -- transfer --------------------------------------------------------------------------------------
    def transfer(self, n: Node, st: dict) -> dict:
        a = n.ast
        if a is None or n.kind in ("entry", "exit", "raise", "join"):
            return st
        st = dict(st)
        if n.kind == "test":
            self.ev(a, st)
            return st
        if n.kind == "for":
            it = self.ev(a.iter, st)
            self._bind_target(a.target, self._elem(it), st, iterating=a.iter)
            return st
        if n.kind == "with":
            for item in a.items:
                self.ev(item.context_expr, st)
                if item.optional_vars is not None:
                    self._bind_target(item.optional_vars, FRESH, st)
            return st
        if n.kind == "except":
            if a.name:
                st[a.name] = FRESH
            return st
        if n.kind == "case":
            for nm in node_defs(n):
                st[nm] = FRESH
            return st
        if isinstance(a, ast.Assign):
            v = self.ev(a.value, st)
            for t in a.targets:
                if isinstance(t, (ast.Tuple, ast.List)) and isinstance(a.value, (ast.Tuple, ast.List)) and len(t.elts) == len(a.value.elts) \
                        and not any(isinstance(x, ast.Starred) for x in list(t.elts) + list(a.value.elts)):
                    for el, ve in zip(t.elts, a.value.elts):
                        self._bind_target(el, self.ev(ve, st), st)
                else:
                    self._bind_target(t, v, st)
            return st
        if isinstance(a, ast.AnnAssign):
            if a.value is not None:
                self._bind_target(a.target, self.ev(a.value, st), st)
            return st
        if isinstance(a, ast.AugAssign):
            v = self.ev(a.value, st)
            opn = type(a.op).__name__
            if isinstance(a.target, ast.Name):
                cur = st.get(a.target.id) or self._global_name(a.target.id)
                # in place for arrays/lists/dicts/sets, rebinding for immutables: it matters only when it may alias an input
                self._record(a, f"augmented assignment {norm(a.target)} {opn}= ...", cur.top)
                st[a.target.id] = AV(cur.top | _FS, cur.fields, cur.irest | v.items_any(), cur.arest, cur.sub | v.all_inside())
            else:
                cur = self.ev(a.target, st)
                self._record(a, f"augmented assignment {norm(a.target)[:50]} {opn}= ... (in place if the value is mutable)", cur.top)
                newv = AV(cur.top | _FS, (), cur.irest | v.items_any(), cur.arest, cur.sub | v.all_inside())
                self._store(a.target, newv, st, a, what=f"store {norm(a.target)[:50]} {opn}= ...")
            return st
        if isinstance(a, ast.Delete):
            for t in a.targets:
                if isinstance(t, (ast.Subscript, ast.Attribute)):
                    self._record(a, f"del {norm(t)[:50]}", self.ev(t.value, st).top)
                elif isinstance(t, ast.Name):
                    st.pop(t.id, None)
            return st
        if isinstance(a, ast.Return):
            self.ret = self.ret.join(self.ev(a.value, st) if a.value is not None else FRESH)
            return st
        if isinstance(a, (ast.FunctionDef, ast.AsyncFunctionDef, ast.ClassDef)):
            st[a.name] = FRESH
            return st
        if isinstance(a, (ast.Import, ast.ImportFrom)):
            for nm in node_defs(n):
                st.pop(nm, None)
            return st
        if isinstance(a, ast.Expr):
            self.ev(a.value, st)
            return st
        if isinstance(a, ast.Raise):
            if a.exc is not None:
                self.ev(a.exc, st)
            return st
        return st


def kwarg_node(call: ast.Call, name: str):
    for k in call.keywords:
        if k.arg == name:
            return k.value
    return None


def _is_none(e: ast.AST) -> bool:
    return isinstance(e, ast.Constant) and e.value is None
