"""Frozen convention tables.  Statistics were used only to find candidates; every row was
confirmed by reading the code.  One line of justification per row."""
from .registry import INF, NINF, NA, NAN, Sym

INTP, BOOL = Sym("np.intp"), Sym("bool")

# ---------------------------------------------------------------------------------------------
# Monoid table (R-ALGEBRA): block kernel -> (class, admissible combine names, intermediate fill,
# intermediate dtype, why).  "reduce the parts, merge the partials, an absent part contributes the fill".
KERNELS = {
    "sum":               ("sum",   {"sum"},  0,    None, "(R,+,0)"),
    "nansum":            ("sum",   {"sum"},  0,    None, "(R,+,0); NaN already replaced by 0 in the block"),
    "sum_of_squares":    ("sumsq", {"sum"},  0,    None, "(R,+,0) on squares"),
    "nansum_of_squares": ("sumsq", {"sum"},  0,    None, "(R,+,0) on squares"),
    "nanlen":            ("count", {"sum"},  0,    INTP, "counts add; platform integer"),
    "len":               ("count", {"sum"},  0,    INTP, "counts add; platform integer"),
    "prod":              ("prod",  {"prod"}, 1,    None, "(R,*,1)"),
    "nanprod":           ("prod",  {"prod"}, 1,    None, "(R,*,1)"),
    "max":               ("max",   {"max"},  NINF, None, "(R u {-inf}, max, -inf); NaN must propagate so the merge may not skip NaN"),
    "nanmax":            ("max",   {"nanmax"}, NINF, None, "an engine may emit NaN for an all-NaN block-group (numbagg does): the merge must skip NaN"),
    "min":               ("min",   {"min"},  INF,  None, "mirror of max"),
    "nanmin":            ("min",   {"nanmin"}, INF, None, "mirror of nanmax"),
    "all":               ("all",   {"all"},  True, BOOL, "(B,and,True)"),
    "any":               ("any",   {"any"},  False, BOOL, "(B,or,False)"),
    "nanfirst":          ("first", {"nanfirst"}, NA, None, "left-biased first non-missing; ordered; identity = missing"),
    "nanlast":           ("last",  {"nanlast"},  NA, None, "right-biased last non-missing"),
}

# arg pairs: (value kernel, index kernel) -> admissible (value combine set, index combine set), fills, dtypes
ARG_PAIRS = {
    ("max", "argmax"):       ({"max"}, {"argmax"}, (NINF, 0), (None, INTP)),
    ("nanmax", "nanargmax"): ({"max", "nanmax"}, {"argmax", "nanargmax"}, (NINF, 0), (None, INTP)),
    ("min", "argmin"):       ({"min"}, {"argmin"}, (INF, 0), (None, INTP)),
    ("nanmin", "nanargmin"): ({"min", "nanmin"}, {"argmin", "nanargmin"}, (INF, 0), (None, INTP)),
}
# the value and index combine must have the same NaN discipline
ARG_COMBINE_PAIRING = {("max", "argmax"), ("nanmax", "nanargmax"), ("min", "argmin"), ("nanmin", "nanargmin")}

# finalizer parameter name -> kernel class it must be fed with
FINALIZER_PARAM_CLASS = {"sum_": "sum", "sum": "sum", "total": "sum", "count": "count", "counts": "count",
                         "n": "count", "sumsq": "sumsq", "sum_of_squares": "sumsq"}

# NumPy reductions that exist under that exact name and take (array, axis=, keepdims=)
NUMPY_REDUCERS = {"sum", "prod", "max", "min", "nanmax", "nanmin", "nansum", "nanprod", "all", "any"}

# ---------------------------------------------------------------------------------------------
# R-DTYPETABLE: blueprint name -> (final_dtype, preserves_dtype)   (NumPy conventions stated by C11)
FLOAT, F64 = Sym("np.floating"), Sym("np.float64")
DTYPE_TABLE = {
    "count": (INTP, False), "argmax": (INTP, False), "argmin": (INTP, False),
    "nanargmax": (INTP, False), "nanargmin": (INTP, False),
    "mean": (FLOAT, False), "nanmean": (FLOAT, False), "var": (FLOAT, False), "nanvar": (FLOAT, False),
    "std": (FLOAT, False), "nanstd": (FLOAT, False), "median": (FLOAT, False), "nanmedian": (FLOAT, False),
    "quantile": (F64, False), "nanquantile": (F64, False),
    "any": (BOOL, False), "all": (BOOL, False),
    "sum": (None, False), "nansum": (None, False), "prod": (None, False), "nanprod": (None, False),
    "min": (None, True), "nanmin": (None, True), "max": (None, True), "nanmax": (None, True),
    "first": (None, True), "nanfirst": (None, True), "last": (None, True), "nanlast": (None, True),
    "mode": (None, True), "nanmode": (None, True),
}

# operator identities (R-DISPATCH, R-SCANTABLE)
UFUNC_OF = {"sum": "add", "prod": "multiply", "max": "maximum", "min": "minimum"}
IDENTITY_OF_UFUNC = {"add": 0, "multiply": 1, "maximum": NINF, "minimum": INF}

BLOCK_ONLY = ["median", "nanmedian", "quantile", "nanquantile", "mode", "nanmode", "first", "last"]
