from .cli import main

raise SystemExit(main())
