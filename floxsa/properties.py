"""Property -> rules map, and the reasons for properties not claimed."""
from .rules.algebra import rule_algebra, rule_parallel

PROPERTIES = {
    "C04": {
        "rules": [rule_algebra, rule_parallel],
        "technique": "registry constant-evaluation + table comparison (custom AST checker)",
        "level_text": "Static, all-paths: every registered blueprint's (block kernel, combine, intermediate fill, intermediate dtype, "
                      "finalizer) tuple is a row of the monoid table and the min_count counter extends all parallel tuples. Given that "
                      "the kernels do what their names say, table membership is the decomposition law; numerics and run-time "
                      "user-defined Aggregation objects are not decided.",
        "explanation": "R-ALGEBRA/R-PARALLEL: every registered blueprint's (block kernel, combine, intermediate fill, "
                       "intermediate dtype, finalizer) tuple is compared with the monoid table; decides the wiring of "
                       "the decomposition, not the numerics of the kernels nor user-defined Aggregation objects",
    },
}

NOT_APPLICABLE = {
    "C15": "agreement with xarray's own groupby: the oracle is the run-time behaviour of another library on generated objects; no clause "
           "of it is visible in the shape of flox's code alone (argument immutability is decided under C14)",
    "C17": "rechunk postconditions are arithmetic facts about boundary indices computed from label contents; no sound static bound on "
           "those values is in reach (the copy-before-rechunk clause is decided under C14)",
}

# properties whose rules are designed (DESIGN.md §3) but not built yet: not claimed until they are
PENDING = {p: "static rules designed in DESIGN.md but not built yet in this revision; not claimed"
           for p in ["C01", "C02", "C03", "C05", "C06", "C07", "C08", "C09", "C10", "C11", "C12", "C13", "C14", "C16", "C18", "C19", "C20"]}
