"""Property -> rules map, and the reasons for properties not claimed."""
from .selftest import selftest, user_blueprints, seeded_regression
from .rules.algebra import rule_algebra, rule_parallel
from .rules.defassign import rule_defassign
from .rules.dispatch import rule_dispatch, rule_stable, rule_enginefill, rule_allnanfill, rule_numbaminmax
from .rules.refusals import rule_assert, rule_kwsig, rule_raise, rule_regkey
from .rules.truthy import rule_truthy
from .rules.purity import rule_pure, rule_args, rule_global, rule_memo, rule_getter, rule_capture, rule_options
from .rules.token import rule_token
from .rules.graph import rule_keys, rule_order, rule_cover, rule_axiskey, rule_contig, rule_loopstore, rule_bitmask, rule_meshindex, rule_wholepart, rule_sliceexact
from .rules import misc as M
from .rules.lazyrule import rule_lazy
from .rules.pickle_nondet import rule_pickle, rule_nondet, rule_fillflow
from .rules import pairs as PR
from .rules import codes as CD
from .rules import members as MB
from .rules.arity import rule_arity
from .rules.wiring import rule_semneutral, rule_finalizerun, rule_kwpass, rule_slotfill, rule_passthrough_sort, rule_passthrough_engine, rule_counter, rule_globalidx, rule_sorted, rule_infresolve, rule_uniquefrom, rule_emptyidx, rule_fillnone, rule_aligned, rule_autorefuse, rule_autoparam, rule_blockbcast, rule_emptycohorts, rule_axisorder, rule_normform, rule_absentmask, rule_passthrough_options, rule_predfamily, rule_scanmissing, rule_partialunknown, rule_zeroblock, rule_blocklabels, rule_axisrange, rule_qrange, rule_dtypenorm

PROPERTIES = {
    "C01": {
        "rules": [rule_dispatch, rule_stable, rule_passthrough_engine, M.rule_varshift, PR.rule_pairs_perm, PR.rule_layout, CD.rule_missingcode, PR.rule_unpermute, CD.rule_countwidth, PR.rule_forder, M.rule_varwidth, M.rule_accforward, M.rule_novalid, M.rule_castorder, rule_numbaminmax],
        "thorough": [selftest, seeded_regression],
        "technique": "engine-dispatch model + sibling cross-check of kernel signatures (custom AST checker)",
        "level_text": "Static, all-paths: for every kernel name a blueprint can ask for and every engine, the implementation the dispatch "
                      "selects has the NaN discipline its name promises, reduces with the ufunc its name promises, replaces NaN by the "
                      "identity of that operator, numbagg names map to the same-named group_* kernels, fall-backs keep the name, and "
                      "the group sort feeding the flox engine is stable. Decides the wiring of the engines, not numerical equality.",
        "explanation": "R-DISPATCH over (kernel, engine) resolutions and engine-module bindings; R-STABLE over argsort sites; R-PASSTHROUGH[engine]: every stage runs with the engine the user chose; R-VARSHIFT; R-PAIRS[perm]; R-LAYOUT: no flattening in memory order; R-MISSINGCODE: every code producer sends NaN/NaT labels to -1; R-UNPERMUTE: results are put back in order with the inverse permutation",
    },
    "C05": {
        "rules": [rule_truthy, rule_fillflow, rule_parallel, rule_counter, CD.rule_identitycodes, CD.rule_labelvalue, CD.rule_missingcode, M.rule_fillwiden, CD.rule_indexer, M.rule_fillcast, CD.rule_indexdir, rule_absentmask, rule_passthrough_options, M.rule_reindexskip, rule_semneutral],
        "thorough": [selftest, seeded_regression],
        "technique": "def-use fill-family + boolean-context scan; counter-wiring table check (custom AST checker)",
        "level_text": "Static, all-paths: no fill-value-typed expression (nor the optional min_count) is ever coerced to bool, so falsy "
                      "fills (0, 0.0, False) cannot be confused with 'not given'; the validity counter that implements min_count extends "
                      "every parallel tuple; the fill written by the finalizer's mask, by its reindex and by the final reindex "
                      "derives only from the user's fill_value. Slot order, mask placement per plan and min_count arithmetic are not decided.",
        "explanation": "R-TRUTHY over every boolean context of every function; R-FILLFLOW over the fill sinks; R-PARALLEL over the min_count branch; R-IDENTITYCODES: labels are their own codes only for integer labels and the index 0..n-1, both ends masked",
    },
    "C12": {
        "rules": [rule_lazy, M.rule_combinebypass, CD.rule_placeholder, rule_partialunknown, rule_semneutral, M.rule_armdtype],
        "thorough": [selftest, seeded_regression],
        "technique": "predicate abstraction over dask-ness atoms on the CFG (bitset valuations, no solver) with function summaries",
        "level_text": "Static, all-paths: on every path of the API entry points (and of every function they call while building a "
                      "graph) no materialising primitive (np.asarray, pandas constructors, .compute/.item/.values, iteration, truth value of "
                      "data-derived results) is applied to a value that may still be chunked under the path's guards. Decides the first "
                      "sentence of the property for non-object dtypes; the label-to-value mapping of labels found at compute time is not decided.",
        "explanation": "R-LAZY",
    },
    "C13": {
        "rules": [rule_pure, rule_pickle, rule_nondet, rule_args, rule_getter],
        "thorough": [selftest, seeded_regression],
        "technique": "interprocedural origins (may-alias) dataflow over the CFG with function summaries; derived task roots",
        "level_text": "Static, all-paths: no function reachable from a graph-embedded callable writes through a parameter, a view or "
                      "alias of one, or an object inside one (subscript/attribute stores, augmented assignment, out=, in-place "
                      "methods, np.put & co), judged at the task roots through function summaries; no task-reachable identity test against a sentinel "
                      "that pickles by value and nothing unpicklable is embedded; no nondeterminism source in task-reachable code.",
        "explanation": "R-PURE, R-PICKLE, R-NONDET, R-ARGS (a blueprint embedded in tasks is a private deep copy: later calls cannot change what an already built graph computes)",
    },
    "C14": {
        "rules": [rule_args, rule_global, rule_memo, rule_token, rule_pure, rule_capture, rule_options],
        "thorough": [selftest, seeded_regression],
        "technique": "interprocedural origins dataflow; registry typestate (deep-copied before any store); memoisation key/purity checks",
        "level_text": "Static, all-paths: API-reachable code never writes through an argument, the registry or a memoised result; the "
                      "only module state is two content-keyed memo caches; every explicitly named graph layer is content-named, its token covers every "
                      "value-relevant ingredient, and Aggregation.__dask_tokenize__ covers every attribute tasks read.",
        "explanation": "R-ARGS, R-GLOBAL, R-MEMO, R-TOKEN",
    },
    "C19": {
        "rules": [rule_raise, rule_defassign, rule_regkey, rule_kwsig, rule_assert, rule_cover, CD.rule_codewidth, rule_loopstore, MB.rule_names, MB.rule_attr, MB.rule_dictkeys, MB.rule_seqkind, MB.rule_inplacecast, rule_uniquefrom, rule_emptyidx, rule_fillnone, rule_aligned, rule_autorefuse, rule_autoparam, rule_blockbcast, rule_emptycohorts, rule_arity, rule_meshindex, rule_axisorder, rule_normform, rule_enginefill, CD.rule_placeholder, CD.rule_intindex, rule_predfamily, rule_truthy, rule_scanmissing, rule_zeroblock, rule_axisrange, PR.rule_pairs_broadcast, PR.rule_pairs_broadcast_nax, rule_qrange, M.rule_emptykernel, rule_dtypenorm],
        "thorough": [selftest, seeded_regression],
        "technique": "CFG definite-assignment with guard correlation; call-graph reachability of raises; keyword/signature agreement of "
                     "every resolved call and partial; assert triage table",
        "level_text": "Static, all-paths: four exact ways an internal error can escape are excluded -- a raise of a class other than "
                      "ValueError/NotImplementedError/ImportError on an API- or task-reachable path, a local read while unbound, a "
                      "user-keyed registry lookup that is not converted, a call or partial whose keywords/arity the selected callee "
                      "does not accept (TypeError inside a task) -- and every assert is triaged (user-reachable ones are findings). "
                      "Completeness of up-front validation and 'auto works wherever map-reduce does' are not decided.",
        "explanation": "R-RAISE, R-DEFASSIGN, R-REGKEY, R-KWSIG, R-ASSERT, R-CODEWIDTH (sentinel stores cannot overflow a narrow code dtype), R-LOOPSTORE (the planner cannot lose a cohort and trip its own assert)",
    },
    "C02": {
        "rules": [M.rule_plan, rule_algebra, rule_cover, PR.rule_pairs_dummyaxis, rule_token, PR.rule_codelabels, M.rule_combinebypass, M.rule_nanfinal, CD.rule_indexer, rule_axisorder, M.rule_combinecast],
        "thorough": [selftest, seeded_regression],
        "technique": "CFG must-pass-through (finalizer), resolved embeddings of combine/aggregate callables, access-path agreement",
        "level_text": "Static, all-paths: every plan funnels into the one finalizer on every path, only the two sibling combine algorithms "
                      "are embedded and both draw their operator from the same blueprint slot family, intermediates are re-indexed with the "
                      "blueprint's intermediate fills, the cohort re-indexing is tied to the combine kind by the same boolean, and a cohort's "
                      "block set covers every member label. Equality of chunked and eager values is not decided.",
        "explanation": "R-PLAN (incl. every block passes the re-indexer), R-ALGEBRA, R-COVER, R-PAIRS[dummy-axis], R-TOKEN (a chunked result computed together with another one is not overwritten by it)",
    },
    "C06": {
        "rules": [rule_algebra, rule_order, rule_stable, rule_keys, rule_globalidx, rule_contig, PR.rule_forder, rule_enginefill, rule_allnanfill, rule_slotfill],
        "thorough": [selftest, seeded_regression],
        "technique": "monoid-table arg rows; taint of block order through unordered containers; stable-sort sites; key injectivity",
        "level_text": "Static, all-paths: the four arg-reduction blueprints pair value/index kernels with matching polarity, NaN discipline, "
                      "fills, finalizer and index preprocessing; block ids reach block selections in positional order on every path; the "
                      "group sort is stable. Global-index arithmetic and tie-breaking are not decided.",
        "explanation": "R-ALGEBRA (arg rows), R-ORDER, R-STABLE, R-KEYS, R-GLOBALIDX, R-CONTIG (tree nodes combine adjacent blocks in order: ties and first/last resolve positionally)",
    },
    "C07": {
        "rules": [M.rule_sentinel_ravel, PR.rule_pairs_groupers, CD.rule_codewidth, CD.rule_identitycodes, CD.rule_labelvalue, CD.rule_closedside, CD.rule_missingcode, PR.rule_codedep, PR.rule_codelabels, PR.rule_pairs_transpose, rule_absentmask, CD.rule_edgevalue],
        "thorough": [selftest, seeded_regression],
        "technique": "CFG must-pass-through of a masked sentinel restore",
        "level_text": "Static, all-paths: after the per-grouper codes are combined arithmetically, every path to return restores the "
                      "missing-label code under a mask computed from the input codes. pandas.cut edge semantics and shapes are not decided.",
        "explanation": "R-SENTINEL on _ravel_factorized; R-PAIRS[groupers]; R-CODEWIDTH: every code array is an intp producer so code arithmetic cannot wrap; R-IDENTITYCODES",
    },
    "C08": {
        "rules": [M.rule_sentinel_offset, M.rule_copermute, PR.rule_pairs_collapse, PR.rule_pairs_outinds, CD.rule_codewidth, PR.rule_layout, rule_axisrange, PR.rule_pairs_broadcast, PR.rule_pairs_broadcast_nax, rule_axisorder, PR.rule_pairs_transpose, rule_axiskey, rule_partialunknown, M.rule_varbatch],
        "thorough": [selftest, seeded_regression],
        "technique": "CFG must-pass-through of a masked sentinel restore; permutation agreement of labels and values",
        "level_text": "Static, all-paths: after per-slice offsetting of codes, every path to return restores the missing-label code under a "
                      "mask computed from the input codes; the labels' and the values' reduced axes are moved to the end by the same "
                      "permutation. Offsets and per-slice values are not decided.",
        "explanation": "R-SENTINEL on offset_labels, R-COPERMUTE, R-PAIRS, R-CODEWIDTH (per-slice offsets are added to intp codes)",
    },
    "C10": {
        "rules": [M.rule_scantable, rule_stable, M.rule_promote, rule_pure, M.rule_kindmissing, M.rule_scanacc, M.rule_emptykernel, CD.rule_onesided, rule_scanmissing, M.rule_scanempty],
        "thorough": [selftest, seeded_regression],
        "technique": "registry constant-evaluation + scan table; stable-sort sites",
        "level_text": "Static: the three scan blueprints are consistent (operator identity, carried reduction, in-block scan), bfill is the "
                      "mirror image of ffill, and the group sort feeding ffill is stable. Scan values across chunkings are not decided.",
        "explanation": "R-SCANTABLE, R-STABLE, R-PROMOTE, R-PURE (the scan combine is a node of a parallel-prefix tree: it may not write into an operand another node reads), R-KINDMISSING (the 'no missing values' shortcut of fill scans fires only for kinds without a missing value)",
    },
    "C11": {
        "rules": [M.rule_dtypetable, M.rule_finalcast, M.rule_promote, PR.rule_pairs_outinds, M.rule_reindexdtype, M.rule_subsumed, M.rule_accdtype, M.rule_finaldeps, M.rule_roundtrip, M.rule_fillwiden, rule_blockbcast, rule_arity, M.rule_fillcast, M.rule_promoteidem, rule_predfamily, M.rule_armdtype],
        "thorough": [selftest, seeded_regression],
        "technique": "dtype convention table; CFG must-pass-through of the final cast; access-path agreement of announced meta",
        "level_text": "Static, all-paths: blueprint dtype declarations follow the NumPy convention table, every path of the finalizer casts "
                      "to the announced slot, the engine dispatch result is cast per kernel, the lazy meta is built from the same slot, and the "
                      "re-indexing that runs after the cast makes no dtype decision of its own beyond NA promotion. "
                      "Promotion arithmetic and announced-vs-computed chunk sizes are not decided.",
        "explanation": "R-DTYPETABLE, R-FINALCAST, R-PROMOTE, R-PAIRS[outinds], R-REINDEXDTYPE, R-SUBSUMED (no dead dtype-class branch), R-ACCDTYPE (block accumulators derive from the final dtype), R-FINALDEPS (the final dtype depends on reduction, input dtype, requested dtype and fill value only)",
    },
    "C16": {
        "rules": [M.rule_coindex, rule_passthrough_sort, rule_sorted, rule_token, rule_blocklabels, CD.rule_indexdir, rule_passthrough_options, M.rule_reindexskip],
        "thorough": [selftest, seeded_regression],
        "technique": "syntactic co-indexing of values and labels in one basic block",
        "level_text": "Static: whenever groupby_reduce re-indexes the result along the group axis it re-indexes the labels with the same "
                      "index in the same block, and vice versa; every stage that takes `sort` receives the caller's `sort` unchanged "
                      "(scans pin it by design). Which order results is not decided.",
        "explanation": "R-COINDEX, R-PASSTHROUGH[sort], R-SORTED, R-TOKEN (sort is part of the layer names: sorted and unsorted results computed together are not mixed), R-BLOCKLABELS (per-block label lists follow the sort flag)",
    },
    "C18": {
        "rules": [M.rule_blockonly, PR.rule_unpermute, rule_token, rule_dispatch, rule_qrange, MB.rule_outalias, rule_arity, M.rule_novalid, rule_blocklabels, rule_kwpass],
        "thorough": [selftest, seeded_regression],
        "technique": "registry check; CFG dominance of a refusal over graph construction; three-site agreement",
        "level_text": "Static, all-paths: order statistics declare no block/combine decomposition, a refusal dominates graph construction "
                      "unless the plan is blockwise, and the three sites that special-case the extra leading axis agree with the registry. "
                      "Quantile numerics are not decided.",
        "explanation": "R-BLOCKONLY; R-UNPERMUTE (vector q: rows come back in the order given); R-TOKEN (q / ddof are part of the layer names); R-DISPATCH (quantile / nanquantile are never renamed to a kernel of the other NaN discipline)",
    },
    "C20": {
        "rules": [M.rule_collide, M.rule_castorder, rule_infresolve, M.rule_varshift, M.rule_accdtype, M.rule_scanacc, M.rule_finite, CD.rule_countwidth, M.rule_varwidth, M.rule_accforward, rule_dispatch, M.rule_nanfinal, rule_numbaminmax, M.rule_varbatch],
        "thorough": [selftest, seeded_regression],
        "technique": "sentinel-collision pattern on NaN substitutes; dtype plumbing of the engine wrappers; widening table",
        "level_text": "Static: no all-NaN detector compares a result with its own NaN substitute unless conjoined with a valid-member "
                      "count; the reduceat calls and output buffer use the requested dtype; numbagg's input casts only widen and the "
                      "requested dtype applies to the result. Overflow and cancellation numerics are not decided.",
        "explanation": "R-COLLIDE, R-CASTORDER, R-INFRESOLVE, R-VARSHIFT, R-ACCDTYPE (integer block accumulators are as wide as the final dtype)",
    },
    "C03": {
        "rules": [rule_keys, rule_order, rule_axiskey, rule_global, rule_algebra, rule_contig, rule_pure, rule_passthrough_sort, rule_wholepart, rule_counter, M.rule_combinecast, M.rule_armdtype],
        "thorough": [selftest, seeded_regression],
        "technique": "def-use closure of graph keys over enclosing loops; taint (unordered source -> block selection) with sanitizers; "
                     "module-state scan; associativity column of the monoid table",
        "level_text": "Static, all-paths: the premises of 'a DAG of pure tasks is schedule-independent' for the hand-written tree: every "
                      "hand-written key is injective in all enclosing loop variables (levels, cohorts, partitions), block ids never reach a "
                      "block selection through an unordered container, every tree node brackets a contiguous ascending run of blocks, no reachable code "
                      "touches module state, and every combine operator is a row of the (associative) monoid table. Floating-point re-association, the tree-depth arithmetic and "
                      "actual schedules are not decided.",
        "explanation": "R-KEYS, R-ORDER, R-AXISKEY, R-GLOBAL, R-ALGEBRA, R-CONTIG, R-PURE (no task writes into a value another task may read: the order of unordered tasks cannot matter)",
    },
    "C09": {
        "rules": [rule_cover, rule_keys, rule_axiskey, rule_token, rule_loopstore, rule_bitmask, CD.rule_indexer, rule_meshindex, rule_wholepart, rule_sliceexact],
        "thorough": [selftest, seeded_regression],
        "technique": "def-use closure checks on the planner's cohort->blocks map and on cohort sub-tree keys; content-named subset layers",
        "level_text": "Static, all-paths: the block set stored for a merged cohort is computed from the blocks of every member label (and "
                      "exact cohorts are keyed by each label's own block set), the cohort map never silently overwrites an entry "
                      "(two merged cohorts spanning the same blocks are united), cohort sub-trees write pairwise distinct keys and every "
                      "cohort's subset layer is content-named. The partition/cover of labels produced by the heuristics is data dependent "
                      "and not decided.",
        "explanation": "R-COVER, R-KEYS, R-AXISKEY, R-TOKEN, R-LOOPSTORE",
    },
    "C04": {
        "rules": [rule_algebra, rule_parallel, rule_infresolve, M.rule_subsumed, M.rule_finite, M.rule_nanfinal, rule_dispatch, rule_allnanfill, rule_slotfill, rule_finalizerun],
        "thorough": [selftest, user_blueprints, seeded_regression],
        "technique": "registry constant-evaluation + table comparison (custom AST checker)",
        "level_text": "Static, all-paths: every registered blueprint's (block kernel, combine, intermediate fill, intermediate dtype, "
                      "finalizer) tuple is a row of the monoid table and the min_count counter extends all parallel tuples. Given that "
                      "the kernels do what their names say, table membership is the decomposition law; numerics and run-time "
                      "user-defined Aggregation objects are not decided.",
        "explanation": "R-ALGEBRA/R-PARALLEL: every registered blueprint's (block kernel, combine, intermediate fill, ; R-INFRESOLVE; R-SUBSUMED: no dtype-class branch of the fill resolution is dead (timedelta64 before integer)"
                       "intermediate dtype, finalizer) tuple is compared with the monoid table; decides the wiring of "
                       "the decomposition, not the numerics of the kernels nor user-defined Aggregation objects",
    },
}

NOT_APPLICABLE = {
    "C15": "agreement with xarray's own groupby: the oracle is the run-time behaviour of another library on generated objects; no clause "
           "of it is visible in the shape of flox's code alone (argument immutability is decided under C14)",
    "C17": "rechunk postconditions are arithmetic facts about boundary indices computed from label contents; no sound static bound on "
           "those values is in reach (the copy-before-rechunk clause is decided under C14)",
}

# properties whose rules are designed (DESIGN.md §3) but not built yet: not claimed until they are
PENDING = {p: "static rules designed in DESIGN.md but not built yet in this revision; not claimed"
           for p in []}

# Later-wave clauses (DESIGN.md §3, "second" to "fifth wave"): appended to the claimed level so that MANIFEST.json says what is decided today.
LATER = {
    "C01": "validity counts accumulate in a wide integer (R-COUNTWIDTH); no Fortran-order flatten for position-picking reductions (R-FORDER); "
           "layout-independent flattening, label/value co-permutation, rename discipline of the dispatcher. Sixth wave: accumulation dtype reaches every engine kernel (R-ACCFORWARD), variance shift wide enough (R-VARSHIFT[width]), groups without a valid member masked in the quantile kernel (R-NOVALID), no narrowing re-bind of widening targets (R-CASTORDER). External kernels that break their name's NaN discipline are wrapped (R-NUMBAMINMAX).",
    "C02": "every block passes the re-indexer, the second reduction of the grouped combine is never skipped (R-COMBINEBYPASS), finalizers "
           "propagate NaN (R-NANFINAL), the -1 of get_indexer is consulted before use as a position (R-INDEXER), explicit axis tuples are sorted "
           "before positional use (R-AXISORDER). No data-derived casts on the tree-combine path (R-COMBINECAST).",
    "C03": "every stage of one combine runs with the caller's `sort` (R-PASSTHROUGH[sort]). Every tree node reads its whole partition (R-WHOLEPART); the last intermediate is taken for counts only under the counter's guard (R-COUNTER). No data-derived casts on the tree-combine path (R-COMBINECAST). Options left open by a partial are supplied at every final use (R-PASSTHROUGH partial clause).",
    "C04": "isfinite is never a validity mask (R-FINITE); finalizers propagate NaN (R-NANFINAL). NaN-skipping kernels answer all-NaN groups with their fill (R-ALLNANFILL); variance finalizer clamped NaN-propagatingly (R-NANFINAL). A finalizer runs whenever the blueprint has one (R-FINALIZERUN); intermediate sentinels resolved slot by slot (R-SLOTFILL).",
    "C05": "every path of the dtype normaliser passes the fill-value widening (R-FILLWIDEN); get_indexer's -1 is consulted (R-INDEXER); "
           "code/label producers (R-IDENTITYCODES, R-LABELVALUE, R-MISSINGCODE). Absent-slot mask for every source of memberless slots (R-ABSENTMASK), fill written only into values of the final dtype (R-FILLCAST), integer fills widen by value (R-FILLWIDEN), gathers use from_.get_indexer(to) (R-INDEXDIR), the xarray wrapper forwards options unchanged (R-PASSTHROUGH[options]). The request handed to the blueprint does not depend on chunkedness (R-SEMNEUTRAL).",
    "C06": "no Fortran-order flatten for first/last (R-FORDER). An engine that cannot honour the intermediate fill of arg reductions is refused for chunked data (R-ENGINEFILL). NaN-skipping extreme kernels never store NaN (R-ALLNANFILL). Intermediate sentinels resolved against their own slot's dtype (R-SLOTFILL).",
    "C07": "grouper transposition uses the forward permutation (R-PAIRS[transpose]); code producers and closed sides (R-CODEWIDTH ... R-CODELABELS). Per-grouper sequences iterate the groupers in order (R-PAIRS[groupers]); all four members of pandas' closed alphabet and one representation for labels and edges (R-CLOSEDSIDE); product grids masked (R-ABSENTMASK). Requested labels / edges wrapped without lossy casts (R-EDGEVALUE); contiguity of intervals consulted (R-CLOSEDSIDE).",
    "C08": "axis range refused (R-AXISRANGE), size-1 label dimensions broadcast for any number of reduced axes (R-PAIRS[broadcast*]), "
           "explicit axis tuples sorted before positional use (R-AXISORDER). Unknown labels refused for every partial-axis reduction (R-PARTIALUNKNOWN); split factors looked up by axis (R-AXISKEY). Variance pivot taken from the batch slice it is subtracted from (R-VARSHIFT[batch]).",
    "C09": "get_indexer's -1 consulted (R-INDEXER); dask's key array indexed with an open mesh over every axis (R-MESHINDEX); the block-id "
           "shortcut of the incidence matrix is guarded per chunk (R-BITMASK). Every tree node reads its whole partition (R-WHOLEPART). Block sets become slices only under an element-wise check (R-SLICEEXACT).",
    "C10": "the dask pre-scan accumulates in the blueprint dtype (R-SCANACC); run-start kernels handle an empty axis (R-EMPTYKERNEL); "
           "missing-value shortcuts only for kinds without one (R-KINDMISSING, one open known finding). Single-group shortcuts bound both ends of the code range (R-ONESIDED); missing labels refused up front for cumulative scans (R-SCANMISSING). Zero-length blocks: placeholder label never stored as a code, no identity-less reduction of codes (R-SCANEMPTY); unscanned block returns only for empty blocks (R-KINDMISSING block clause).",
    "C11": "input representation restored under head flags only and never for integer-valued results (R-ROUNDTRIP); fill widening on every path "
           "(R-FILLWIDEN); blockwise plans see broadcast labels (R-BLOCKBCAST); chunk / index / key tuples have one entry per dimension for "
           "every number of reduced axes (R-ARITY, a tuple-arity algebra). maybe_promote is the identity on dtypes with a missing value (R-PROMOTEIDEM); predicates treat names and Aggregation objects alike (R-PREDFAMILY); fill written after the final cast (R-FILLCAST).",
    "C12": "placeholder labels of all-missing blocks are typed like the labels (R-PLACEHOLDER). Unknown labels refused for every partial-axis reduction (R-PARTIALUNKNOWN). The request handed to the blueprint does not depend on chunkedness (R-SEMNEUTRAL). Every arm of chunk_reduce builds its result in the paired dtype (R-ARMDTYPE).",
    "C13": "property getters of graph-embedded classes do not write through self (R-GETTER); caller containers copied (R-CAPTURE). No process-local resource in a blueprint attribute (R-PICKLE attribute clause).",
    "C14": "no task writes through its input (R-PURE). Caller containers are copied before being stored (R-CAPTURE); the engine is part of the graph keys (R-TOKEN). Process-wide options of other libraries changed only inside a `with` (R-OPTIONS).",
    "C16": "per-block and combine-step label lists follow `sort` (R-BLOCKLABELS). The finalizer's re-index is skipped only for order-equal labels (R-REINDEXSKIP); per-block label lists in block order (R-BLOCKLABELS). Options left open by a partial are supplied at every final use (R-PASSTHROUGH partial clause).",
    "C18": "quantile levels bounded to [0, 1] (R-QRANGE); renames in the dispatcher keep the NaN discipline (R-DISPATCH). Vector-quantile dimensions in every arm and end-relative squeezing (R-ARITY), no-valid-member masking (R-NOVALID), out= buffers alias no later read (R-OUTALIAS). finalize_kwargs reach the finalizer unreshaped (R-KWPASS).",
    "C19": "necessary conditions of 'auto works wherever map-reduce does': refusals after the plan choice are anticipated by _choose_method "
           "(R-AUTOREFUSE), refusals keyed on a user option by the proposal guard (R-AUTOPARAM), the planner never proposes cohorts with an empty "
           "map (R-EMPTYCOHORTS); and of clean refusal: alignment / axis range / quantile range / dtype normalisation refusals dominate the kernels, "
           "refusals test the normalised form of two-spelling options (R-NORMFORM), no in-place mutation of a definite tuple (R-SEQKIND), "
           "blockwise plans see broadcast labels (R-BLOCKBCAST), tuple arities hold for every number of axes (R-ARITY), the key array is meshed "
           "(R-MESHINDEX), axis tuples are sorted (R-AXISORDER). Sixth wave: integer positions for np.unravel_index (R-INTINDEX), no in-place float results in user-typed buffers (R-INPLACECAST), typed placeholder labels (R-PLACEHOLDER), predicate family (R-PREDFAMILY), engine/fill refusal (R-ENGINEFILL). Eager arg-reduction kernels run in an integer dtype (R-INTINDEX kernel clause); same-length gathers guarded for emptiness (R-EMPTYIDX). Zero-length blocks dropped before a blockwise plan (R-ZEROBLOCK); refusals depend on every laziness flag (R-NORMFORM).",
    "C20": "isfinite never a validity mask (R-FINITE), padding identities never mistaken for absence (R-COLLIDE), wide validity counts (R-COUNTWIDTH). Accumulation dtype forwarded / squares widened (R-ACCFORWARD), variance shift width (R-VARSHIFT[width]), complex identities folded (R-INFRESOLVE), NaN substitutes keep infinities (R-DISPATCH). NaN membership decided from the members, never from an arithmetic total: inf + -inf is NaN (R-NUMBAMINMAX).",
}
for _p, _t in LATER.items():
    if _p in PROPERTIES:
        PROPERTIES[_p]["level_text"] += " Later clauses (necessary conditions, DESIGN.md §3): " + _t
