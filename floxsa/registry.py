"""Constant evaluator for the blueprint registry in flox/aggregations.py.

Every top-level ``X = Aggregation(...)`` / ``Scan(...)`` call becomes a record of
its arguments with names resolved to symbolic constants; defaults come from the
signatures in the tree under analysis; the scalar -> tuple normalisation of
Aggregation.__init__ is re-implemented here and cross-checked against the AST of
``_atleast_1d`` / ``_normalize_dtype_fill_value`` (shape change -> exit 2).
"""
from __future__ import annotations

import ast
from dataclasses import dataclass, field

from .model import AnalysisError, Program, norm


@dataclass(frozen=True)
class Sym:
    """Symbolic constant: INF, NINF, NA, np.intp, np.floating, nan, func:<qualname> ..."""
    name: str

    def __repr__(self):
        return self.name


INF, NINF, NA, NAN = Sym("INF"), Sym("NINF"), Sym("NA"), Sym("nan")

_SYM_TEXT = {
    "dtypes.INF": INF, "dtypes.NINF": NINF, "dtypes.NA": NA,
    "xrdtypes.INF": INF, "xrdtypes.NINF": NINF, "xrdtypes.NA": NA,
    "np.nan": NAN, "np.NaN": NAN, "numpy.nan": NAN,
    "np.inf": Sym("+inf"), "-np.inf": Sym("-inf"),
    "np.intp": Sym("np.intp"), "np.floating": Sym("np.floating"), "np.float64": Sym("np.float64"),
    "np.int64": Sym("np.int64"), "np.int_": Sym("np.int_"), "np.int32": Sym("np.int32"),
    "np.float32": Sym("np.float32"), "np.bool_": Sym("bool"), "bool": Sym("bool"), "int": Sym("int"), "float": Sym("float"),
    "np.add": Sym("np.add"), "np.multiply": Sym("np.multiply"), "np.maximum": Sym("np.maximum"),
    "np.minimum": Sym("np.minimum"),
}


class Evaluator:
    def __init__(self, prog: Program):
        self.prog = prog
        self.u = prog.unit("aggregations")

    def ev(self, e: ast.AST):
        if isinstance(e, ast.Constant):
            return e.value
        if isinstance(e, ast.Tuple):
            return tuple(self.ev(x) for x in e.elts)
        if isinstance(e, ast.List):
            return [self.ev(x) for x in e.elts]
        if isinstance(e, ast.UnaryOp) and isinstance(e.op, ast.USub):
            v = self.ev(e.operand)
            if isinstance(v, (int, float)):
                return -v
            if v == Sym("+inf"):
                return Sym("-inf")
            return Sym(f"-{v}")
        txt = norm(e)
        if txt in _SYM_TEXT:
            return _SYM_TEXT[txt]
        if isinstance(e, ast.Name):
            if e.id in self.u.funcs:
                return Sym(f"func:{self.u.funcs[e.id].qualname}")
            if e.id in self.u.bindings and len(self.u.bindings[e.id]) == 1:
                v = self.u.bindings[e.id][0]
                if not isinstance(v, ast.Call):
                    return self.ev(v)
            return Sym(f"name:{e.id}")
        if isinstance(e, ast.Attribute):
            return Sym(txt)
        return Sym(f"expr:{txt}")


def _sig_defaults(fn: ast.FunctionDef, ev: Evaluator) -> tuple[list[str], dict[str, object], set[str]]:
    a = fn.args
    pos = [x.arg for x in a.posonlyargs + a.args]
    defaults: dict[str, object] = {}
    for name, d in zip(pos[len(pos) - len(a.defaults):], a.defaults):
        defaults[name] = ev.ev(d)
    required_kw = set()
    for x, d in zip(a.kwonlyargs, a.kw_defaults):
        if d is None:
            required_kw.add(x.arg)
        else:
            defaults[x.arg] = ev.ev(d)
    return pos, defaults, required_kw


@dataclass
class AggRecord:
    var: str                 # module-level variable name
    lineno: int
    args: dict               # parameter -> evaluated value (defaults filled in)
    explicit: set            # parameters given explicitly
    # normalised views
    name: str = ""
    chunk: tuple = ()
    combine: tuple = ()
    fill_intermediate: tuple = ()
    dtypes_intermediate: tuple = ()
    numpy: tuple = ()
    errors: list = field(default_factory=list)

    @property
    def decomposable(self) -> bool:
        return self.chunk != (None,)


@dataclass
class ScanRecord:
    var: str
    lineno: int
    args: dict
    explicit: set


def _is_scalar_value(v) -> bool:
    # xrutils.is_scalar: non-iterable, str, bytes, dict, 0-d -> scalar
    return not isinstance(v, (tuple, list))


def _atleast_1d(v, n=1):
    return (v,) * n if _is_scalar_value(v) else tuple(v)


class Registry:
    def __init__(self, prog: Program):
        self.prog = prog
        self.ev = Evaluator(prog)
        self.u = prog.unit("aggregations")
        self.aggs: dict[str, AggRecord] = {}     # var name -> record
        self.scans: dict[str, ScanRecord] = {}
        self.keys: dict[str, str] = {}           # registry key -> var name
        self.notes: list[str] = []
        self._check_normalisers()
        self._load()

    # -- shape checks of the two normalisers we re-implement --------------------------------
    def _check_normalisers(self):
        f = self.prog.func("aggregations._atleast_1d")
        txt = norm(f.node)
        need = ["is_scalar(inp)", "(inp,) * min_length"]
        if not all(n in txt for n in need):
            raise AnalysisError("aggregations._atleast_1d no longer has the shape the registry evaluator re-implements")
        g = self.prog.func("aggregations.Aggregation._normalize_dtype_fill_value")
        txt = norm(g.node)
        need = ["_atleast_1d(value)", "len(value) == 1", "value * len(self.chunk)", "len(value) != len(self.chunk)"]
        if not all(n in txt for n in need):
            raise AnalysisError("Aggregation._normalize_dtype_fill_value no longer has the shape the evaluator re-implements")
        init = self.prog.func("aggregations.Aggregation.__init__")
        txt = norm(init.node)
        need = ["self.chunk: OptionalFuncTuple = _atleast_1d(chunk)", "self.combine: OptionalFuncTuple = _atleast_1d(combine)",
                "(numpy,) if numpy is not None else (self.name,)",
                "self.fill_value[name] = final_fill_value",
                "self.fill_value['intermediate'] = self._normalize_dtype_fill_value(fill_value, 'fill_value')",
                "'intermediate': self._normalize_dtype_fill_value(dtypes, 'dtype')"]
        miss = [n for n in need if n not in txt]
        if miss:
            raise AnalysisError(f"Aggregation.__init__ no longer has the shape the evaluator re-implements: {miss}")

    def _load(self):
        init = self.prog.func("aggregations.Aggregation.__init__").node
        pos, defaults, required_kw = _sig_defaults(init, self.ev)
        pos = pos[1:]  # drop self
        scan_cls = self.u.classes.get("Scan")
        if scan_cls is None:
            raise AnalysisError("class Scan missing")
        scan_fields: list[str] = []
        scan_defaults: dict[str, object] = {}
        for st in scan_cls.body:
            if isinstance(st, ast.AnnAssign) and isinstance(st.target, ast.Name):
                scan_fields.append(st.target.id)
                if st.value is not None:
                    scan_defaults[st.target.id] = self.ev.ev(st.value)
        for st in self.u.tree.body:
            tgt = val = None
            if isinstance(st, ast.Assign) and len(st.targets) == 1 and isinstance(st.targets[0], ast.Name):
                tgt, val = st.targets[0].id, st.value
            elif isinstance(st, ast.AnnAssign) and isinstance(st.target, ast.Name) and st.value is not None:
                tgt, val = st.target.id, st.value
            if tgt is None:
                continue
            if isinstance(val, ast.Call) and norm(val.func) == "Aggregation":
                self.aggs[tgt] = self._agg_record(tgt, val, pos, defaults, required_kw)
            elif isinstance(val, ast.Call) and norm(val.func) == "Scan":
                args = dict(scan_defaults)
                explicit = set()
                for i, a in enumerate(val.args):
                    args[scan_fields[i]] = self.ev.ev(a)
                    explicit.add(scan_fields[i])
                for k in val.keywords:
                    args[k.arg] = self.ev.ev(k.value)
                    explicit.add(k.arg)
                self.scans[tgt] = ScanRecord(tgt, val.lineno, args, explicit)
            elif tgt == "AGGREGATIONS" and isinstance(val, ast.Dict):
                for k, v in zip(val.keys, val.values):
                    if isinstance(k, ast.Constant) and isinstance(v, ast.Name):
                        self.keys[k.value] = v.id
                    else:
                        raise AnalysisError(f"AGGREGATIONS entry not of the form 'name': variable: {norm(k)}: {norm(v)}")
        if not self.keys:
            raise AnalysisError("AGGREGATIONS dict literal not found")
        for k, v in self.keys.items():
            if v not in self.aggs and v not in self.scans:
                raise AnalysisError(f"AGGREGATIONS[{k!r}] = {v}: not an evaluated Aggregation/Scan record")

    def _agg_record(self, var, call: ast.Call, pos, defaults, required_kw) -> AggRecord:
        args = dict(defaults)
        explicit = set()
        for i, a in enumerate(call.args):
            args[pos[i]] = self.ev.ev(a)
            explicit.add(pos[i])
        for k in call.keywords:
            if k.arg is None:
                raise AnalysisError(f"{var}: **kwargs in blueprint definition cannot be evaluated")
            args[k.arg] = self.ev.ev(k.value)
            explicit.add(k.arg)
        miss = [r for r in required_kw if r not in args]
        rec = AggRecord(var, call.lineno, args, explicit)
        if miss:
            rec.errors.append(f"missing required arguments {miss}")
            return rec
        rec.name = args["name"]
        rec.chunk = _atleast_1d(args["chunk"])
        rec.combine = _atleast_1d(args["combine"])
        rec.numpy = (args["numpy"],) if args.get("numpy") is not None else (rec.name,)
        for key, out in (("fill_value", "fill_intermediate"), ("dtypes", "dtypes_intermediate")):
            v = _atleast_1d(args[key])
            if len(v) == 1 and len(v) < len(rec.chunk):
                v = v * len(rec.chunk)
            if len(v) != len(rec.chunk):
                rec.errors.append(f"{key} has {len(v)} entries for {len(rec.chunk)} block kernels (constructor raises ValueError)")
            setattr(rec, out, v)
        return rec

    # convenience
    def by_key(self, key: str):
        v = self.keys[key]
        return self.aggs.get(v) or self.scans.get(v)

    def agg_items(self):
        """(registry key, AggRecord) for every registered Aggregation."""
        return [(k, self.aggs[v]) for k, v in self.keys.items() if v in self.aggs]

    def scan_items(self):
        return [(k, self.scans[v]) for k, v in self.keys.items() if v in self.scans]

    def slot_funcs(self, slot: str, kind: str | None = None) -> set[str]:
        """qualnames of flox functions used in a blueprint slot (finalize, preprocess, new_dims_func, ...);
        kind 'agg' / 'scan' restricts to Aggregation / Scan blueprints."""
        out = set()
        recs = []
        if kind in (None, "agg"):
            recs += list(self.aggs.values())
        if kind in (None, "scan"):
            recs += list(self.scans.values())
        for r in recs:
            v = r.args.get(slot)
            if isinstance(v, Sym) and v.name.startswith("func:"):
                out.add(v.name[5:])
        return out

    def kernel_names(self) -> set[str]:
        names: set[str] = set()
        for r in self.aggs.values():
            for t in (r.chunk, r.combine, r.numpy):
                names |= {x for x in t if isinstance(x, str)}
        for s in self.scans.values():
            for k in ("scan", "reduction"):
                if isinstance(s.args.get(k), str):
                    names.add(s.args[k])
        names.add("nanlen")
        return names
