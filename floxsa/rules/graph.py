"""R-KEYS (C03, C09), R-ORDER (C03, C06), R-COVER (C09): the hand-written graph layers."""
from __future__ import annotations

import ast

from ..astutil import parents_map, ancestors, kwarg, calls_in, names_in
from ..model import AnalysisError, Func, norm, walk_own
from ..report import RuleResult
from .token import Closure

SANITIZERS = {"_unique", "np.sort", "numpy.sort", "np.unique", "numpy.unique", "sorted"}


def _loop_targets(node: ast.AST, pm) -> list[tuple[ast.AST, set[str]]]:
    """enclosing for-loops / comprehension generators of node (inside one function) with their target names"""
    out = []
    child = node
    for a in ancestors(node, pm):
        if isinstance(a, (ast.FunctionDef, ast.Lambda)):
            break
        if isinstance(a, (ast.For, ast.AsyncFor)) and any(child is st or _contains(st, child) for st in a.body):
            out.append((a, {n.id for n in ast.walk(a.target) if isinstance(n, ast.Name)}))
        if isinstance(a, (ast.DictComp, ast.ListComp, ast.SetComp, ast.GeneratorExp)):
            for g in a.generators:
                out.append((g, {n.id for n in ast.walk(g.target) if isinstance(n, ast.Name)}))
        child = a
    return out


def _contains(root: ast.AST, node: ast.AST) -> bool:
    return any(n is node for n in ast.walk(root))


def rule_keys(ctx) -> RuleResult:
    res = RuleResult("R-KEYS", "hand-written graph layers never reuse a key: keys are injective in all enclosing loop variables",
                     min_instances=8)
    prog = ctx.prog
    nstores = 0
    for f in prog.all_funcs():
        pm = None
        cl = None
        for n in walk_own(f.node):
            keyexpr = None
            if isinstance(n, ast.Assign) and len(n.targets) == 1 and isinstance(n.targets[0], ast.Subscript) \
                    and isinstance(n.value, ast.Tuple) and isinstance(n.targets[0].slice, (ast.Tuple, ast.BinOp)):
                keyexpr = n.targets[0].slice
            elif isinstance(n, ast.DictComp) and isinstance(n.key, (ast.Tuple, ast.BinOp)) and isinstance(n.value, ast.Tuple):
                keyexpr = n.key
            if keyexpr is None:
                continue
            pm = pm or parents_map(f.node)
            cl = cl or Closure(ctx, f)
            nstores += 1
            c = cl.of(keyexpr)
            loops = _loop_targets(keyexpr, pm)
            desc = f"{f.qualname}: graph store key {norm(keyexpr)[:50]} in {len(loops)} loop(s)"
            res.inst(desc, f"{f.qualname}|{norm(keyexpr)[:40]}")
            for loop, tg in loops:
                if not (tg & c["names"]):
                    res.report(f"{f.qualname}|key-not-injective|{norm(keyexpr)[:40]}|{sorted(tg)[0] if tg else '?'}", f.where(n), f.qualname,
                               f"graph key {norm(keyexpr)[:60]} does not depend on the loop variable(s) {sorted(tg)} of the enclosing loop: "
                               "successive iterations overwrite each other's task")
    if nstores < 3:
        raise AnalysisError(f"R-KEYS: only {nstores} hand-written graph stores found (hand-confirmed: 4 writers)")
    # calls that name a sub-layer inside a loop: name / block_index must carry the loop variable
    for f in prog.all_funcs():
        pm = None
        cl = None
        for call in calls_in(f.node):
            ts = ctx.callgraph._expand(ctx.resolver.resolve(call.func, f, f.unit))
            tnames = {t.name for t in ts if t.kind == "func"}
            if not (tnames & {"dask_array_ops._tree_reduce", "dask_array_ops.partial_reduce"}):
                continue
            pm = pm or parents_map(f.node)
            cl = cl or Closure(ctx, f)
            nm, bi = kwarg(call, "name"), kwarg(call, "block_index")
            used = set()
            for e in (nm, bi):
                if e is not None:
                    used |= cl.of(e)["names"]
            loops = _loop_targets(call, pm)
            res.inst(f"{f.qualname}: {norm(call.func)}(name={norm(nm)[:30]}, block_index={norm(bi)[:20]}) in {len(loops)} loop(s)",
                     f"{f.qualname}|{norm(call.func)}|{norm(nm)[:30]}")
            for loop, tg in loops:
                # enumerate counters count as loop variables; the data variable alone does not make names distinct
                if not (tg & used):
                    res.report(f"{f.qualname}|sublayer-name|{norm(call.func)}|{sorted(tg)[0] if tg else '?'}", f.where(call), f.qualname,
                               f"{norm(call.func)}(name={norm(nm)[:40]}, block_index={norm(bi)[:20]}) is called in a loop over {sorted(tg)} but "
                               "neither the name nor block_index depends on it: every iteration writes the same keys")
    # _tree_reduce: every sub-layer name depends on its own name parameter and on block_index (directly or via the kwarg)
    tr = prog.func("dask_array_ops._tree_reduce")
    cl = Closure(ctx, tr)
    ncalls = 0
    for call in calls_in(tr.node):
        if norm(call.func) != "partial_reduce":
            continue
        ncalls += 1
        nm, bi = kwarg(call, "name"), kwarg(call, "block_index")
        cn = cl.of(nm)["names"] if nm is not None else set()
        cb = cl.of(bi)["names"] if bi is not None else set()
        res.inst(f"_tree_reduce -> partial_reduce(name={norm(nm)[:30]}, block_index={norm(bi)[:20]}): name depends on {sorted(cn & set(tr.params))}",
                 f"tree|{norm(nm)[:30]}")
        if "name" not in cn:
            res.report(f"dask_array_ops._tree_reduce|subname-without-name|{norm(nm)[:30]}", tr.where(call), tr.qualname,
                       f"sub-layer name {norm(nm)[:40]} does not derive from the caller's (content-addressed) name")
        if "block_index" not in cn and "block_index" not in cb:
            res.report(f"dask_array_ops._tree_reduce|subname-without-block_index|{norm(nm)[:30]}", tr.where(call), tr.qualname,
                       f"partial_reduce(name={norm(nm)[:40]}) carries block_index neither in the name nor as block_index=: the intermediate tree "
                       "levels of different cohorts (same name) write the same keys -- invisible to the suite, whose trees have depth 1")
        if nm is not None and norm(nm) != "name":
            # an intermediate level: must also depend on the level counter of the enclosing loop (checked above via loops)
            pass
    if ncalls < 2:
        raise AnalysisError("_tree_reduce: expected an intermediate-level and a final partial_reduce call")
    # partial_reduce's own self-check
    pr = prog.func("dask_array_ops.partial_reduce")
    has_assert = any(isinstance(n, ast.Assert) and norm(n.test) == "dep_name != name" for n in walk_own(pr.node))
    res.inst(f"partial_reduce self-check 'assert dep_name != name': {'present' if has_assert else 'absent'}")
    return res


# -------------------------------------------------------------------------------------------------
def _target_names(t: ast.AST, it: ast.AST) -> tuple[set[str], set[str]]:
    """(names that carry the iterable's elements, names that are mere counters) for `for t in it`"""
    if isinstance(it, ast.Call) and norm(it.func) == "enumerate" and isinstance(t, ast.Tuple) and len(t.elts) == 2:
        return {n.id for n in ast.walk(t.elts[1]) if isinstance(n, ast.Name)}, {n.id for n in ast.walk(t.elts[0]) if isinstance(n, ast.Name)}
    return {n.id for n in ast.walk(t) if isinstance(n, ast.Name)}, set()


def _tainted_names(f: Func, sources: set[str]) -> tuple[set[str], dict]:
    """names whose value may depend on a source without passing through a sanitizer call (flow-insensitive fixpoint;
    comprehension variables are scoped to their comprehension)"""
    tainted = set(sources)
    why: dict[str, str] = {}

    def expr_tainted(e: ast.AST, loc_t: frozenset = frozenset(), loc_c: frozenset = frozenset()) -> bool:
        if isinstance(e, ast.Call) and norm(e.func) in SANITIZERS:
            return False
        if isinstance(e, ast.Name):
            if e.id in loc_c:
                return False
            return e.id in loc_t or e.id in tainted
        if isinstance(e, (ast.ListComp, ast.SetComp, ast.GeneratorExp, ast.DictComp)):
            lt, lc = set(loc_t), set(loc_c)
            for g in e.generators:
                it_t = expr_tainted(g.iter, frozenset(lt), frozenset(lc))
                data, counters = _target_names(g.target, g.iter)
                if it_t:
                    lt |= data
                    lc -= data
                else:
                    lc |= data
                    lt -= data
                lc |= counters
                lt -= counters
            parts = [e.key, e.value] if isinstance(e, ast.DictComp) else [e.elt]
            return any(expr_tainted(p, frozenset(lt), frozenset(lc)) for p in parts)
        return any(expr_tainted(ch, loc_t, loc_c) for ch in ast.iter_child_nodes(e))

    changed = True
    while changed:
        changed = False
        for n in walk_own(f.node):
            tgts, val = [], None
            if isinstance(n, ast.Assign):
                tgts, val = n.targets, n.value
            elif isinstance(n, ast.AnnAssign) and n.value is not None:
                tgts, val = [n.target], n.value
            elif isinstance(n, ast.AugAssign):
                tgts, val = [n.target], n.value
            elif isinstance(n, ast.For):
                if expr_tainted(n.iter):
                    data, _ = _target_names(n.target, n.iter)
                    for nm in data - tainted:
                        tainted.add(nm)
                        why[nm] = f"for {norm(n.target)} in {norm(n.iter)[:40]}"
                        changed = True
                continue
            elif isinstance(n, ast.Call) and isinstance(n.func, ast.Attribute) and n.func.attr in ("append", "extend", "add", "update") \
                    and isinstance(n.func.value, ast.Name) and n.args:
                if n.func.value.id not in tainted and any(expr_tainted(a) for a in n.args):
                    tainted.add(n.func.value.id)
                    why[n.func.value.id] = norm(n)[:60]
                    changed = True
                continue
            if val is None or not expr_tainted(val):
                continue
            for t in tgts:
                for nm in ast.walk(t):
                    if isinstance(nm, ast.Name) and nm.id not in tainted:
                        tainted.add(nm.id)
                        why[nm.id] = norm(n)[:70]
                        changed = True
    return tainted, why


class MapStore:
    """one store into a local mapping: D[K] = V, D[K] += V, D.setdefault(K, init).extend/append/update(V)"""
    __slots__ = ("node", "map", "key", "value", "members", "merging", "in_loop", "form")

    def __init__(self, node, map_, key, value, members, merging, in_loop, form):
        self.node, self.map, self.key, self.value, self.members, self.merging, self.in_loop, self.form = \
            node, map_, key, value, members, merging, in_loop, form

    @property
    def lineno(self):
        return self.node.lineno


def map_stores(f: Func, pm=None) -> list[MapStore]:
    pm = pm or parents_map(f.node)
    from ..astutil import guard_facts
    out = []
    for n in walk_own(f.node):
        in_loop = any(isinstance(a, (ast.For, ast.While)) for a in ancestors(n, pm))
        if isinstance(n, ast.Assign) and len(n.targets) == 1 and isinstance(n.targets[0], ast.Subscript) and isinstance(n.targets[0].value, ast.Name):
            d, k, v = n.targets[0].value.id, n.targets[0].slice, n.value
            reads_old = any((isinstance(x, ast.Subscript) and isinstance(x.value, ast.Name) and x.value.id == d and norm(x.slice) == norm(k))
                            or (isinstance(x, ast.Call) and isinstance(x.func, ast.Attribute) and x.func.attr in ("get", "pop", "setdefault")
                                and isinstance(x.func.value, ast.Name) and x.func.value.id == d and x.args and norm(x.args[0]) == norm(k))
                            for x in ast.walk(v))
            guarded = any(at == f"{norm(k)} in {d}" and pol is False for at, pol in guard_facts(n, pm))
            callees = {c.func.id for c in ast.walk(v) if isinstance(c, ast.Call) and isinstance(c.func, ast.Name)}
            members = {x for x in names_in(v) if x != d and x not in names_in(k) and x not in callees} or names_in(v) - {d}
            out.append(MapStore(n, d, k, v, members, reads_old or guarded, in_loop,
                                "merge" if reads_old else ("guarded by 'not in'" if guarded else "overwrite")))
        elif isinstance(n, ast.AugAssign) and isinstance(n.target, ast.Subscript) and isinstance(n.target.value, ast.Name):
            out.append(MapStore(n, n.target.value.id, n.target.slice, n.value, names_in(n.value), True, in_loop, "augmented"))
        elif isinstance(n, ast.Call) and isinstance(n.func, ast.Attribute) and n.func.attr in ("extend", "append", "update", "add") \
                and isinstance(n.func.value, ast.Call) and isinstance(n.func.value.func, ast.Attribute) and n.func.value.func.attr == "setdefault" \
                and isinstance(n.func.value.func.value, ast.Name) and n.func.value.args and n.args:
            sd = n.func.value
            out.append(MapStore(n, sd.func.value.id, sd.args[0], n.args[0], names_in(n.args[0]), True, in_loop, "setdefault"))
    return out


def _cohort_anchors(ctx):
    """(function, label->blocks map name, key function name, stores into the merged-cohort map) found structurally"""
    f = ctx.prog.func("core.find_group_cohorts")
    lc = keyfn = None
    for c in calls_in(f.node):
        if norm(c.func).endswith("groupby") and len(c.args) == 2 and isinstance(c.args[0], ast.Name) and isinstance(c.args[1], ast.Call) \
                and isinstance(c.args[1].func, ast.Attribute) and c.args[1].func.attr == "keys" and isinstance(c.args[1].func.value, ast.Name):
            keyfn, lc = c.args[0].id, c.args[1].func.value.id
    if lc is None:
        raise AnalysisError("find_group_cohorts: exact cohorts are no longer obtained by groupby(<key function>, <label->blocks map>.keys()) (anchor)")
    sc = ctx.resolver.scope(f)
    empties = {n for n, b in sc.bind.items() if any(k == "assign" and isinstance(v, ast.Dict) and not v.keys for k, v in b)}
    pm = parents_map(f.node)
    stores = [m for m in map_stores(f, pm) if m.map in empties and m.in_loop]
    if not stores:
        raise AnalysisError("find_group_cohorts: no store into the merged-cohort map found (anchor vanished)")
    return f, lc, keyfn, stores


def rule_order(ctx) -> RuleResult:
    res = RuleResult("R-ORDER", "block order never passes through an unordered container on the way to a block selection",
                     min_instances=2)
    prog = ctx.prog
    # (a) unordered sources that reach the planner's block sets
    fgc, _lc, _kf, mstores = _cohort_anchors(ctx)
    unordered_keys = []
    for n in mstores:
        # does the key's closure contain a set(...) that is not wrapped in a sanitizer?
        unordered_keys.append((n, _has_unsanitized_set(ctx, fgc, n.key)))
    source_unordered = any(u for _, u in unordered_keys)
    res.inst(f"find_group_cohorts: merged cohort block sets are {'built from an unordered set' if source_unordered else 'ordered at creation'}",
             "source")
    # (b) the sanitizer in _normalize_indexes on every path from flatblocks to the returned index
    ni = prog.func("core._normalize_indexes")
    tainted, why = _tainted_names(ni, {"flatblocks"})
    ret_tainted = []
    for n in walk_own(ni.node):
        if isinstance(n, ast.Return) and n.value is not None:
            bad = sorted(names_in(n.value) & tainted)
            if bad:
                ret_tainted.append((n, bad))
    res.inst(f"_normalize_indexes: returned index {'depends on flatblocks without an ordering step via ' + str(ret_tainted[0][1]) if ret_tainted else 'is ordered on every path (sanitised by _unique / sort)'}",
             "sink")
    if source_unordered and ret_tainted:
        n, bad = ret_tainted[0]
        chain = []
        for b in bad:
            cur = b
            seen = set()
            while cur in why and cur not in seen:
                seen.add(cur)
                chain.append(f"{cur} <- {why[cur]}")
                nxt = [x for x in tainted if x in why[cur] and x != cur]
                cur = nxt[0] if nxt else None
        res.report("core._normalize_indexes|unordered-block-ids", ni.where(n), ni.qualname,
                   "block ids that come from an unordered set (find_group_cohorts: tuple(set(...))) reach the block selection without being "
                   "ordered on every path: small-int sets happen to iterate in ascending order, so the suite passes, but first/last/arg "
                   "reductions combine blocks out of position once block ids outgrow the hash table", path=chain[:6])
    # (c) subset_to_blocks must route flatblocks through _normalize_indexes
    sb = prog.func("core.subset_to_blocks")
    uses = [c for c in calls_in(sb.node) if norm(c.func) == "_normalize_indexes" and any("flatblocks" in names_in(a) for a in c.args)]
    res.inst(f"subset_to_blocks: flatblocks routed through _normalize_indexes: {bool(uses)}", "route")
    if not uses and source_unordered:
        res.report("core.subset_to_blocks|unordered-block-ids", sb.where(), sb.qualname,
                   "flatblocks no longer pass through _normalize_indexes (the ordering step) before indexing the key array")
    # (d) no other unordered iteration feeds positional concatenation in task-reachable combine code
    for q in ("core._simple_combine", "core._grouped_combine", "core._conc2", "dask_array_ops.partial_reduce"):
        f = prog.funcs.get(q)
        if f is None:
            continue
        for n in walk_own(f.node):
            if isinstance(n, ast.Call) and norm(n.func) in ("set", "frozenset") or isinstance(n, (ast.Set, ast.SetComp)):
                res.report(f"{q}|set-in-combine", f.where(n), q, f"{norm(n)[:50]}: an unordered container in order-sensitive combine code")
        res.inst(f"{q}: no unordered container", None)
    return res


def _has_unsanitized_set(ctx, f: Func, e: ast.AST, seen=None) -> bool:
    seen = seen or set()
    scope = ctx.resolver.scope(f)

    def walk(x: ast.AST) -> bool:
        if isinstance(x, ast.Call) and norm(x.func) in SANITIZERS:
            return False
        if isinstance(x, ast.Call) and norm(x.func) in ("set", "frozenset") or isinstance(x, (ast.Set, ast.SetComp)):
            return True
        if isinstance(x, ast.Name):
            if x.id in seen:
                return False
            seen.add(x.id)
            for kind, node in scope.bind.get(x.id, []):
                if kind == "assign" and walk(node):
                    return True
            return False
        return any(walk(ch) for ch in ast.iter_child_nodes(x))

    return walk(e)


# -------------------------------------------------------------------------------------------------
def rule_cover(ctx) -> RuleResult:
    res = RuleResult("R-COVER", "the block set attached to a cohort is computed from the blocks of every member label", min_instances=2)
    prog = ctx.prog
    f, LC, KEYFN, stores = _cohort_anchors(ctx)
    scope = ctx.resolver.scope(f)
    for st in stores:
        key, val = st.key, st.value
        vname = val.id if isinstance(val, ast.Name) else (sorted(st.members)[0] if len(st.members) == 1 else None)
        ok = False
        seen: set[str] = set()

        def walk(x: ast.AST):
            nonlocal ok
            for n in ast.walk(x):
                if isinstance(n, (ast.GeneratorExp, ast.ListComp, ast.SetComp)):
                    for g in n.generators:
                        if isinstance(g.iter, ast.Name) and g.iter.id == vname and isinstance(g.target, ast.Name):
                            # element must look up the member's own blocks
                            for s in ast.walk(n.elt):
                                if isinstance(s, ast.Subscript) and norm(s.value) == LC and g.target.id in names_in(s.slice):
                                    ok = True
                if isinstance(n, ast.Name) and n.id not in seen:
                    seen.add(n.id)
                    for kind, node in scope.bind.get(n.id, []):
                        if kind == "assign":
                            walk(node)

        walk(key)
        res.inst(f"find_group_cohorts: {st.map}[{norm(key)}] <- {norm(val)[:50]} ({st.form}): key derived from {LC}[m] for every m in {vname}: {ok}",
                 f"merged|{norm(key)}")
        if not ok:
            res.report(f"core.find_group_cohorts|cohort-blocks-not-union|{norm(key)[:30]}", f.where(st.node), f.qualname,
                       f"the block set {norm(key)} stored for cohort {norm(val)} is not computed from {LC}[m] for every member m: a label "
                       "merged by containment (>= 0.75, not 1.0) may occupy blocks outside that set, which are then silently dropped from "
                       "its cohort's tree")
    # exact cohorts: grouping key is each label's own block set
    inv = prog.funcs.get(f"core.find_group_cohorts.{KEYFN}")
    if inv is None:
        raise AnalysisError(f"find_group_cohorts.{KEYFN} (the exact-cohort key function) is not a nested function (anchor)")
    p0 = inv.params[0]
    rets = [n for n in walk_own(inv.node) if isinstance(n, ast.Return) and n.value is not None]
    cl = Closure(ctx, inv)
    good = False
    for r in rets:
        for n in ast.walk(r.value):
            pass
        c = cl.of(r.value)
        # closure must reach label_chunks[<param>]
        for b in [r.value] + [node for nm in c["names"] for kind, node in cl.scope.bind.get(nm, []) if kind == "assign"]:
            for s in ast.walk(b):
                if isinstance(s, ast.Subscript) and norm(s.value) == LC and p0 in names_in(s.slice):
                    good = True
    res.inst(f"find_group_cohorts.{KEYFN}: exact-cohort key is {LC}[{p0}]: {good}", "exact")
    if not good:
        res.report("core.find_group_cohorts|exact-key", inv.where(), inv.qualname,
                   "the grouping key of exact cohorts is no longer the label's own block set")
    return res


# -------------------------------------------------------------------------------------------------
def rule_axiskey(ctx) -> RuleResult:
    res = RuleResult("R-AXISKEY", "per-axis split factors are looked up by axis key, never paired positionally with per-axis sequences",
                     min_instances=4)
    prog = ctx.prog
    n = 0
    for q in ("dask_array_ops._tree_reduce", "dask_array_ops.partial_reduce", "dask_array_ops.get_parts"):
        f = prog.func(q)
        for node in walk_own(f.node):
            # uses of the split_every mapping
            if isinstance(node, ast.Name) and node.id == "split_every" and isinstance(node.ctx, ast.Load):
                n += 1
        pm = parents_map(f.node)
        for node in walk_own(f.node):
            if isinstance(node, ast.Call) and isinstance(node.func, ast.Attribute) and isinstance(node.func.value, ast.Name) \
                    and node.func.value.id == "split_every" and node.func.attr in ("values", "items", "keys"):
                par = pm.get(id(node))
                # tuple(split_every.items()) handed on as a hashable copy of the mapping is fine
                ok = isinstance(par, ast.Call) and norm(par.func) in ("tuple", "dict", "sorted", "frozenset") and node.func.attr == "items"
                res.inst(f"{q}: {norm(par)[:60] if par is not None else norm(node)}: {'mapping copy' if ok else 'positional use'}", f"{q}|{norm(node)}")
                if not ok:
                    res.report(f"{q}|positional-split_every|{norm(node)}", f.where(node), q,
                               f"{norm(par)[:70] if par is not None else norm(node)}: split_every is keyed by the *reduced* axes; using its "
                               f".{node.func.attr}() positionally pairs the factors with the leading (batch) axes whenever the reduced axes are "
                               "not the first ones, so the tree depth / partitioning is computed from the wrong block counts")
            if isinstance(node, ast.Subscript) and isinstance(node.value, ast.Name) and node.value.id == "split_every":
                res.inst(f"{q}: split_every[{norm(node.slice)}] by key", f"{q}|sub|{norm(node.slice)}")
    # the depth loop pairs block count and factor through the same axis index
    tr = prog.func("dask_array_ops._tree_reduce")
    loops = [l for l in walk_own(tr.node) if isinstance(l, ast.For) and "depth" in {x.id for x in ast.walk(l) if isinstance(x, ast.Name) and isinstance(x.ctx, ast.Store)}]
    if not loops:
        raise AnalysisError("_tree_reduce: the loop computing the tree depth was not found (anchor)")
    for l in loops:
        it = l.iter
        ok = isinstance(it, ast.Call) and norm(it.func) == "enumerate" and isinstance(l.target, ast.Tuple) and len(l.target.elts) == 2
        if ok:
            i = norm(l.target.elts[0])
            subs = [s for s in ast.walk(l) if isinstance(s, ast.Subscript) and norm(s.value) == "split_every"]
            ok = bool(subs) and all(norm(s.slice) == i for s in subs)
        res.inst(f"_tree_reduce depth loop: for {norm(l.target)} in {norm(l.iter)[:40]}: block count and split factor share the axis index: {ok}", "depth-loop")
        if not ok:
            res.report("dask_array_ops._tree_reduce|depth-axis-pairing", tr.where(l), tr.qualname,
                       f"the depth loop 'for {norm(l.target)} in {norm(l.iter)[:50]}' does not look up split_every by the axis index of the block "
                       "count it is combined with")
    if n < 6:
        raise AnalysisError(f"R-AXISKEY: only {n} uses of split_every found")
    return res


# ---------------------------------------------------------------------------------------------
# R-CONTIG (C03): the hand-written reduction tree brackets *adjacent* blocks, in block order.
# The combine step is associative but not commutative (first/last, arg-reductions on ties, concatenation order in the
# grouped combine), so re-bracketing is value-preserving only if every tree node covers a contiguous, ascending run of blocks.
_CONTIG_PARTITIONERS = {"partition_all", "toolz.partition_all", "tlz.partition_all", "partition", "np.array_split", "np.split"}


def _range_is_contiguous(c: ast.Call) -> bool | None:
    """range(n) / range(a, b) / range(a, b, 1) -> True; range(a, b, k) -> False"""
    if norm(c.func) != "range":
        return None
    if len(c.args) <= 2:
        return True
    st = c.args[2]
    return isinstance(st, ast.Constant) and st.value == 1


def _strided_evidence(e: ast.AST) -> str | None:
    """a construct inside a *part* expression that makes the part non-contiguous or not ascending"""
    for n in ast.walk(e):
        if isinstance(n, ast.Call):
            fn = norm(n.func)
            if fn == "range" and _range_is_contiguous(n) is False:
                return f"strided range '{norm(n)}'"
            if fn in ("reversed", "set", "frozenset", "random.sample", "random.shuffle", "np.random.permutation", "interleave", "toolz.interleave"):
                return f"'{norm(n)[:50]}' reorders / unorders the block ids"
            if fn == "sorted" and (len(n.args) > 1 or n.keywords):
                return f"'{norm(n)[:50]}' reorders the block ids"
        if isinstance(n, ast.Subscript) and isinstance(n.slice, ast.Slice) and n.slice.step is not None:
            st = n.slice.step
            if not (isinstance(st, ast.Constant) and st.value in (1, None)):
                return f"strided slice '{norm(n)}'"
    return None


def _part_exprs(ctx, f, e: ast.AST, depth=0):
    """yield (function, expression, is_element) for the expressions that build the block partition of one axis"""
    if isinstance(e, (ast.ListComp, ast.GeneratorExp)):
        yield f, e.elt, True
        return
    if isinstance(e, ast.Call):
        fn = norm(e.func)
        if fn in ("list", "tuple") and e.args:
            yield from _part_exprs(ctx, f, e.args[0], depth)
            return
        if fn in _CONTIG_PARTITIONERS:
            yield f, e, False
            return
        callee = ctx.prog.funcs.get(f"{f.unit.name}.{fn}") if isinstance(e.func, ast.Name) else None
        if callee is not None and depth < 3:
            for r in walk_own(callee.node):
                if isinstance(r, ast.Return) and r.value is not None:
                    yield from _part_exprs(ctx, callee, r.value, depth + 1)
                elif isinstance(r, (ast.Yield,)) and r.value is not None:
                    yield callee, r.value, True
            return
    if isinstance(e, ast.Name):
        for a in walk_own(f.node):
            if isinstance(a, ast.Assign) and len(a.targets) == 1 and isinstance(a.targets[0], ast.Name) and a.targets[0].id == e.id:
                yield from _part_exprs(ctx, f, a.value, depth)
            elif isinstance(a, ast.Expr) and isinstance(a.value, ast.Call) and isinstance(a.value.func, ast.Attribute) \
                    and a.value.func.attr == "append" and isinstance(a.value.func.value, ast.Name) and a.value.func.value.id == e.id and a.value.args:
                yield f, a.value.args[0], True
        return
    yield f, e, False


def rule_contig(ctx) -> RuleResult:
    res = RuleResult("R-CONTIG", "every node of the hand-written reduction tree combines a contiguous, ascending run of blocks", min_instances=3)
    prog = ctx.prog
    gp = prog.func("dask_array_ops.get_parts")
    rets = [n for n in walk_own(gp.node) if isinstance(n, ast.Return) and isinstance(n.value, ast.Tuple) and len(n.value.elts) == 3]
    if not rets:
        raise AnalysisError("dask_array_ops.get_parts: no 'return keys, parts, out_chunks'")
    parts_e = rets[0].value.elts[1]
    # per-axis partition expression: the element of the list built over the axes
    per_axis = []
    for a in walk_own(gp.node):
        if isinstance(a, ast.Assign) and isinstance(parts_e, ast.Name) and any(isinstance(t, ast.Name) and t.id == parts_e.id for t in a.targets):
            v = a.value
            per_axis.append(v.elt if isinstance(v, (ast.ListComp, ast.GeneratorExp)) else v)
    if not per_axis:
        raise AnalysisError("dask_array_ops.get_parts: cannot find the definition of the per-axis block partition")
    for pa in per_axis:
        for f, e, is_elt in _part_exprs(ctx, gp, pa):
            ev = _strided_evidence(e)
            if isinstance(e, ast.Call) and norm(e.func) in _CONTIG_PARTITIONERS:
                verdict = "contiguous partitioner" if ev is None else ev
            elif ev is None:
                verdict = "no stride / reordering in the part expression" if is_elt else "UNDECIDED (unrecognised partitioner)"
            else:
                verdict = ev
            res.inst(f"{f.qualname}: block partition '{norm(e)[:70]}': {verdict}", f"{f.qualname}|{norm(e)[:60]}")
            if ev is not None:
                res.report(f"{f.qualname}|non-contiguous-parts", f"flox/{f.unit.name}.py:{e.lineno}", f.qualname,
                           f"the blocks combined by one tree node are not a contiguous ascending run: {ev}. The combine step is associative but "
                           "not commutative (first/last, arg-reductions, concatenation order of the grouped combine): the result would depend on split_every")
            elif verdict.startswith("UNDECIDED"):
                res.notes.append(f"UNDECIDED {f.qualname}: '{norm(e)[:80]}' is not a recognised partitioner; contiguity not established")
    # keys are paired with parts positionally: both are products over the same axis order
    pr = prog.func("dask_array_ops.partial_reduce")
    for loop in walk_own(pr.node):
        if isinstance(loop, ast.For) and isinstance(loop.iter, ast.Call) and norm(loop.iter.func) == "zip" and len(loop.iter.args) == 2:
            k_e, p_e = loop.iter.args
            ok_p = isinstance(p_e, ast.Call) and norm(p_e.func) in ("product", "itertools.product") and len(p_e.args) == 1 \
                and isinstance(p_e.args[0], ast.Starred) and isinstance(p_e.args[0].value, ast.Name)
            res.inst(f"partial_reduce: keys zipped with {norm(p_e)[:40]} ({'plain product over the parts' if ok_p else 'not a plain product'})", "zip")
            if not ok_p:
                ev = _strided_evidence(p_e)
                if ev or (isinstance(p_e, ast.Call) and any(norm(x.func) in ("reversed", "sorted") for x in ast.walk(p_e) if isinstance(x, ast.Call))):
                    res.report("dask_array_ops.partial_reduce|key-part-pairing", pr.where(loop), pr.qualname,
                               f"output keys are paired with '{norm(p_e)[:60]}', which is not the plain axis-order product of the parts: "
                               "partial results land under the wrong output block")
    # in get_parts: keys = product over range(len(part)) in the same axis order
    keys_e = rets[0].value.elts[0]
    if isinstance(keys_e, ast.Name) and isinstance(parts_e, ast.Name):
        for a in walk_own(gp.node):
            if isinstance(a, ast.Assign) and any(isinstance(t, ast.Name) and t.id == keys_e.id for t in a.targets):
                txt = norm(a.value)
                uses_parts = parts_e.id in names_in(a.value)
                rev = any(isinstance(x, ast.Call) and norm(x.func) in ("reversed", "sorted") for x in ast.walk(a.value)) or "[::-1]" in txt
                res.inst(f"get_parts: keys = {txt[:70]} (over '{parts_e.id}': {uses_parts}, reordered: {rev})", "keys")
                if uses_parts and rev:
                    res.report("dask_array_ops.get_parts|key-order", gp.where(a), gp.qualname,
                               f"output keys '{txt[:60]}' enumerate the parts in a different axis order than product(*{parts_e.id})")
    return res


# ---------------------------------------------------------------------------------------------
# R-LOOPSTORE (C09, C19): an accumulator dict filled in a loop never silently overwrites an entry.
# `d[K] = V` inside a loop is an *assignment per iteration* only if K is injective in the iteration (it contains the loop variable).
# When K is an aggregate of the iteration's data (a set / union / sum of several members' values), two iterations can compute the same
# K; the second store then drops the first entry.  In find_group_cohorts that loses a whole cohort of labels.
_AGGREGATORS = {"set", "frozenset", "sum", "len", "min", "max", "sorted", "itertools.chain", "chain", "tlz.concat", "concat", "np.unique",
                "_unique", "np.union1d", "reduce", "functools.reduce", "hash", "tokenize", "any", "all", "math.prod", "np.sum", "np.concatenate",
                "itertools.chain.from_iterable", "chain.from_iterable", "tlz.unique", "np.bitwise_or.reduce"}


def _enclosing_loop_vars(node, pm) -> set[str]:
    out = set()
    for a in ancestors(node, pm):
        if isinstance(a, ast.For):
            out |= names_in(a.target)
    return out


def rule_loopstore(ctx) -> RuleResult:
    res = RuleResult("R-LOOPSTORE", "an accumulator dict filled in a loop is keyed injectively or merges on a repeated key", min_instances=2)
    from .codes import _local_closure
    for q, f in sorted(ctx.prog.funcs.items()):
        if f.is_overload or isinstance(f.node, ast.Lambda) or f.unit.name not in ("core", "dask_array_ops", "aggregations", "cohorts", "lib"):
            continue
        sc = ctx.resolver.scope(f)
        accs = {n for n, b in sc.bind.items()
                if any(k == "assign" and ((isinstance(v, ast.Dict) and not v.keys) or (isinstance(v, ast.Call) and norm(v.func) in ("dict", "defaultdict", "collections.defaultdict", "OrderedDict") and not v.args))
                       for k, v in b)}
        if not accs:
            continue
        pm = parents_map(f.node)
        for m in map_stores(f, pm):
            if m.map not in accs or not m.in_loop or isinstance(m.key, ast.Slice):
                continue
            loopvars = _enclosing_loop_vars(m.node, pm)
            key_names = names_in(m.key)
            clo = _local_closure(f, m.key)
            direct = bool(key_names & loopvars)
            fmt = any(isinstance(e, ast.JoinedStr) and names_in(e) & loopvars for e in clo)
            aggs = sorted({norm(c.func) for e in clo for c in ast.walk(e) if isinstance(c, ast.Call) and norm(c.func) in _AGGREGATORS})
            if not key_names:
                verdict = "constant slot (overwritten on purpose)"
            elif direct:
                verdict = f"key contains the loop variable {sorted(key_names & loopvars)}: injective"
            elif fmt and not aggs:
                verdict = "key is a string formatted from the loop variable: injective"
            elif m.merging:
                verdict = f"repeated keys are merged ({m.form})"
            elif aggs:
                verdict = f"key is an aggregate ({', '.join(aggs)}) of the iteration's data and the store overwrites"
            else:
                verdict = "UNDECIDED (key derived from the iteration by an unrecognised function)"
            res.inst(f"{q}: {m.map}[{norm(m.key)[:30]}] <- {norm(m.value)[:30]}: {verdict}", f"{q}|{m.map}|{norm(m.key)[:30]}")
            if verdict.startswith("key is an aggregate"):
                res.report(f"{q}|overwriting-store|{m.map}", f.where(m.node), q,
                           f"'{norm(m.node)[:70]}' runs once per iteration of the loop over {sorted(loopvars)}, but its key is computed by "
                           f"{', '.join(aggs)} from the iteration's data, so two iterations can produce the same key and the later store silently drops the "
                           "earlier entry (in find_group_cohorts: a whole cohort of labels vanishes; the trailing assert turns it into an AssertionError, "
                           "python -O into silently missing groups)")
            elif verdict.startswith("UNDECIDED"):
                res.notes.append(f"UNDECIDED {q}: {norm(m.node)[:80]}")
    return res


# ---------------------------------------------------------------------------------------------
# R-BITMASK (C09): the label/block incidence matrix cannot lose a label by overflow.
# scipy's sparse constructors *sum* repeated (row, col) pairs.  The planner feeds them ones of a narrow dtype (uint8): unless the matrix is
# built as bool (sum = logical or) or from de-duplicated pairs, a label with 256 members in one block sums to 0 and is recorded as absent
# from that block -- it then belongs to no cohort and its result is silently the fill value.
_NARROW = ("np.uint8", "np.int8", "np.uint16", "np.int16", "'uint8'", "'int8'", "'u1'", "'i1'")


def rule_bitmask(ctx) -> RuleResult:
    res = RuleResult("R-BITMASK", "the label/block incidence matrix is built so that repeated pairs cannot wrap around", min_instances=1)
    from .codes import _local_closure
    f = ctx.prog.funcs.get("core._compute_label_chunk_bitmask")
    if f is None:
        raise AnalysisError("core._compute_label_chunk_bitmask is gone (anchor)")
    ctors = []
    for g in [f] + [h for q, h in ctx.prog.funcs.items() if q.startswith(f.qualname + ".")]:
        for c in calls_in(g.node):
            if norm(c.func).split(".")[-1] in ("csc_array", "csr_array", "coo_array", "csc_matrix", "csr_matrix", "coo_matrix") and c.args \
                    and isinstance(c.args[0], ast.Tuple) and len(c.args[0].elts) == 2:
                ctors.append((g, c))
    if not ctors:
        res.notes.append("the incidence matrix is no longer built from (data, (rows, cols)) triplets: rule not applicable")
        res.min_instances = 0
        return res
    for g, c in ctors:
        dt = kwarg(c, "dtype")
        as_bool = dt is not None and norm(dt) in ("bool", "np.bool_", "'bool'")
        data = c.args[0].elts[0]
        clo = _local_closure(g, data)
        txt = " ".join(norm(e) for e in clo)
        narrow = [w for w in _NARROW if w in txt]
        res.inst(f"{g.qualname}: {norm(c)[:60]}: built as bool: {as_bool}; data of a narrow dtype: {narrow or False}", f"{g.qualname}|{norm(c)[:30]}")
        if not as_bool and narrow:
            res.report(f"{g.qualname}|incidence-overflow", g.where(c), g.qualname,
                       f"'{norm(c)[:70]}' sums repeated (block, label) pairs in {narrow[0]}: a label with a multiple of 256 members in one block is recorded as "
                       "absent from it, is assigned to no cohort (or a plan that does not cover it) and silently receives the fill value")
    # block-id shortcut: a branch that pairs element i with block i (rows = np.arange(<number of blocks>), cols = the labels themselves, no
    # per-block slicing) is only right when EVERY chunk has size one.  Its guard must look at the individual chunk sizes (all(c == 1 ...)):
    # aggregate quantities (total length == number of chunks) also hold for chunks like (2, 0, 1).
    for st in walk_own(f.node):
        if not isinstance(st, ast.If):
            continue
        body_calls = [c for b in st.body for c in ast.walk(b) if isinstance(c, ast.Call)]
        pairs_by_position = any(norm(c.func) in ("np.arange", "numpy.arange") and c.args and "chunk" in norm(c.args[0]) for c in body_calls)
        slices = any("slices_from_chunks" in norm(c.func) for c in body_calls) \
            or any(isinstance(x, (ast.For, ast.ListComp, ast.GeneratorExp)) for b in st.body for x in ast.walk(b))
        if not pairs_by_position or slices or not any(isinstance(b, ast.Return) for b in st.body):
            continue
        per_chunk = False
        for c in ast.walk(st.test):
            if isinstance(c, ast.Call) and norm(c.func) in ("all", "np.all") and c.args:
                a0 = c.args[0]
                cmp1 = any(isinstance(x, ast.Compare) and any(isinstance(k, ast.Constant) and k.value == 1 for k in [x.left] + x.comparators) for x in ast.walk(a0))
                if cmp1 and any("chunk" in nm for nm in names_in(a0)):
                    per_chunk = True
        res.inst(f"{f.qualname}: block-id shortcut guarded by '{norm(st.test)[:60]}': inspects every chunk size: {per_chunk}", f"{f.qualname}|shortcut")
        if not per_chunk:
            res.report(f"{f.qualname}|block-id-shortcut-guard", f.where(st), f.qualname,
                       f"the shortcut pairs element i with block i, but its guard '{norm(st.test)[:60]}' compares aggregate quantities only: it also holds for chunks "
                       "such as (2, 0, 1) (a zero-length chunk), and the elements are then assigned to the wrong blocks -- members of a cohort are silently dropped")
    return res


# ---------------------------------------------------------------------------------------------
# R-WHOLEPART (C03, C09, C02): a tree node reads EVERY block of its partition.
# partial_reduce walks the partitions `p` of the blocks (one tuple of block numbers per axis).  The regular task nests all of them
# (lol_tuples over the reduced axes).  Any expression that picks only the FIRST block of a per-axis partition (`j[0]`) -- for the kept axes
# of the regular task, or for a pass-through alias -- is only sound where that partition has exactly one block, i.e. under `len(j) == 1`
# (a comprehension filter or an enclosing test); "fewer than the fan-in" also holds for 2 or 3 blocks, whose tail is then never read.
def rule_wholepart(ctx) -> RuleResult:
    res = RuleResult("R-WHOLEPART", "first-block selections from a partition are made only where the partition has exactly one block", min_instances=1)
    f = ctx.prog.func("dask_array_ops.partial_reduce")
    pm = parents_map(f.node)
    n = 0
    for comp in [x for x in ast.walk(f.node) if isinstance(x, (ast.DictComp, ast.ListComp, ast.GeneratorExp, ast.SetComp))]:
        g = comp.generators[0]
        tnames = {x.id for x in ast.walk(g.target) if isinstance(x, ast.Name)}
        elts = [comp.value] if isinstance(comp, ast.DictComp) else [comp.elt]
        firsts = [x for e in elts for x in ast.walk(e) if isinstance(x, ast.Subscript) and isinstance(x.value, ast.Name) and x.value.id in tnames
                  and isinstance(x.slice, ast.Constant) and x.slice.value == 0]
        for x in firsts:
            n += 1
            v = x.value.id
            want = f"len({v}) == 1"
            filt = any(want in norm(i) for i in g.ifs)
            outer = False
            cur = comp
            for a in ancestors(comp, pm):
                if isinstance(a, ast.If) and want in norm(a.test) and any(cur is b or any(cur is y for y in ast.walk(b)) for b in a.body):
                    outer = True
                if a is f.node:
                    break
            ok = filt or outer
            res.inst(f"partial_reduce: '{norm(comp)[:60]}' takes {norm(x)} under '{want}': {ok}", f"first|{norm(comp)[:40]}")
            if not ok:
                res.report(f"dask_array_ops.partial_reduce|first-block-of-a-longer-partition|{norm(comp)[:30]}", f.where(comp), f.qualname,
                           f"'{norm(comp)[:70]}' keeps only the first block ({norm(x)}) of each per-axis partition without requiring that the partition has exactly one "
                           "block: for a partition of 2 or 3 blocks the others are never read, fall out of the graph, and their members are silently missing from the result")
    if n == 0:
        res.notes.append("partial_reduce makes no first-block selection: rule not applicable")
        res.min_instances = 0
    return res


# ---------------------------------------------------------------------------------------------
# R-MESHINDEX (C09, C19): the block-key array is never subscripted with slices and open-mesh arrays mixed.
# dask's `_key_array` is a NumPy object array.  NumPy moves the dimensions of advanced indices that are *separated by a slice* to the front of the
# result, so an index (mesh, slice, mesh) returns the keys in another axis order than the chunks computed axis by axis next to it: IndexError
# at graph construction, or blocks of one cohort paired with the chunks of another axis.  Accepted: an index that is an open mesh over every
# axis (np.ix_(*positions)), or one whose def-use closure (through the flox helper that builds it) contains no np.ix_ at all (basic indexing).
def rule_meshindex(ctx) -> RuleResult:
    res = RuleResult("R-MESHINDEX", "the block-key array is indexed with an open mesh over every axis, never with slices and meshes mixed", min_instances=1)
    from .codes import _local_closure
    prog = ctx.prog
    n = 0
    for q, f in sorted(prog.funcs.items()):
        if isinstance(f.node, ast.Lambda):
            continue
        for s in walk_own(f.node):
            if not (isinstance(s, ast.Subscript) and isinstance(s.value, ast.Attribute) and s.value.attr == "_key_array"):
                continue
            n += 1
            idx = s.slice
            if isinstance(idx, ast.Name):
                defs = [a.value for a in walk_own(f.node) if isinstance(a, ast.Assign) and len(a.targets) == 1 and norm(a.targets[0]) == idx.id]
                if len(defs) == 1:
                    idx = defs[0]
            if isinstance(idx, ast.Call) and norm(idx.func) in ("np.ix_", "numpy.ix_"):
                res.inst(f"{q}: {norm(s)[:60]}: open mesh over every axis", f"{q}|{norm(s)[:40]}")
                continue
            clo = list(_local_closure(f, idx, limit=8))
            # one level through flox helpers that build the index
            for e in list(clo):
                for c in ast.walk(e):
                    if isinstance(c, ast.Call) and isinstance(c.func, ast.Name):
                        g = next((h for qq, h in prog.funcs.items() if qq.count(".") == 1 and qq.split(".")[-1] == c.func.id), None)
                        if g is not None and g is not f:
                            for r in walk_own(g.node):
                                if isinstance(r, ast.Return) and r.value is not None:
                                    clo += _local_closure(g, r.value, limit=8)
            has_mesh = any(isinstance(c, ast.Call) and norm(c.func) in ("np.ix_", "numpy.ix_") for e in clo for c in ast.walk(e))
            has_slice = any((isinstance(c, ast.Call) and norm(c.func) == "slice") or isinstance(c, ast.Slice) for e in clo for c in ast.walk(e))
            res.inst(f"{q}: {norm(s)[:60]}: index built from open meshes: {has_mesh}, from slices: {has_slice}", f"{q}|{norm(s)[:40]}")
            if has_mesh and has_slice:
                res.report(f"{q}|key-array-mixed-index", f.where(s), q,
                           f"'{norm(s)[:60]}' subscripts dask's NumPy key array with an index that mixes slices and np.ix_ meshes: when two meshes are separated by a slice "
                           "(a cohort whose blocks are non-contiguous along the first and the last of three block axes) NumPy moves the mesh dimensions to the front, "
                           "and the keys no longer line up with the per-axis chunks: IndexError at graph construction or blocks paired with the wrong chunks")
    if n == 0:
        res.notes.append("no subscript of a dask _key_array in the package: rule not applicable")
        res.min_instances = 0
    return res


# ---------------------------------------------------------------------------------------------
# R-SLICEEXACT (C09, C03): a set of block numbers is replaced by a slice only after an element-wise comparison with that slice's enumeration.
# _normalize_indexes turns the blocks of a cohort into slices where it can (fewer tasks).  A slice stands for ALL the integers it enumerates:
# "first, last and count fit an arithmetic progression" does not make a sorted set one ({0, 2, 3, 6} has the span and length of 0:7:2, which is
# {0, 2, 4, 6}: block 3 leaves the cohort's dependency closure, block 4 enters it).  Every `append(slice(...))` of a computed slice sits under a
# test that compares the index set with np.arange(...) element by element (np.array_equal / (a == b).all()).
def rule_sliceexact(ctx) -> RuleResult:
    res = RuleResult("R-SLICEEXACT", "block sets are turned into slices only under an element-wise comparison with the slice's enumeration", min_instances=2)
    from ..astutil import guard_facts
    f = ctx.prog.func("core._normalize_indexes")
    pm = parents_map(f.node)
    n = 0
    for c in calls_in(f.node):
        if not (isinstance(c.func, ast.Attribute) and c.func.attr == "append" and c.args and isinstance(c.args[0], ast.Call) and norm(c.args[0].func) == "slice"):
            continue
        n += 1
        # all enclosing tests (this arm's own test is what matters; earlier arms of the elif chain are negated context)
        leaves = []
        cur = c
        for a in ancestors(c, pm):
            if isinstance(a, ast.If) and any(cur is b or any(cur is y for y in ast.walk(b)) for b in a.body):
                leaves.append(a.test)
            if a is f.node:
                break
        exact = any(isinstance(x, ast.Call) and norm(x.func) in ("np.array_equal", "numpy.array_equal") and any("arange" in norm(y) for y in x.args)
                    for t in leaves for x in ast.walk(t))
        res.inst(f"_normalize_indexes: '{norm(c)[:50]}' under an element-wise comparison with np.arange(…): {exact}", f"slice|{c.lineno}")
        if not exact:
            res.report(f"core._normalize_indexes|slice-without-elementwise-check|{norm(c.args[0])[:30]}", f.where(c), f.qualname,
                       f"'{norm(c)[:60]}' replaces a set of block numbers by a slice without comparing the set with the slice's enumeration (np.array_equal(i, np.arange(…))): "
                       "end-point / length arithmetic also holds for unevenly spaced sets ({0, 2, 3, 6} vs 0:7:2), so a block holding members of the cohort drops out of "
                       "its dependency closure and another one is read instead")
    if n == 0:
        res.notes.append("_normalize_indexes no longer builds slices: rule not applicable")
        res.min_instances = 0
    return res
