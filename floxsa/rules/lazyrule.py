"""R-LAZY (C12): nothing materialises a possibly-chunked value while a graph is being built."""
from __future__ import annotations

from ..lazy import LazyAnalysis
from ..model import AnalysisError, norm
from ..report import RuleResult

ROOTS = {
    "core.groupby_reduce": {"array": "array", "by": "tuple"},
    "core.groupby_scan": {"array": "array", "by": "tuple"},
    "core.rechunk_for_blockwise": {"array": "array"},     # labels are documented NumPy
    "core.rechunk_for_cohorts": {"array": "array"},
    "xarray.xarray_reduce.wrapper": {"array": "array", "by": "tuple"},   # called by xr.apply_ufunc(dask='allowed') with the blocks unevaluated
    "core._get_expected_groups": {"by": "array"},                        # called by xarray_reduce with b_.data (possibly chunked): must refuse, not materialise
}
EXEMPT = {
    "xrutils._contains_cftime_datetimes": ".compute() on the first element of an object-dtype array; C12 excludes object dtypes",
    "xrutils.datetime_to_numeric": "only called for cftime (object-dtype) arrays, under 'elif is_cftime'; C12 excludes object dtypes",
}
MIN_GUARDED = 6


def rule_lazy(ctx) -> RuleResult:
    res = RuleResult("R-LAZY", "no materialising operation is applied to a possibly-chunked value on any graph-construction path",
                     min_instances=10)
    roots = {q: ps for q, ps in ROOTS.items() if q in ctx.prog.funcs}
    if "core.groupby_reduce" not in roots or "core.groupby_scan" not in roots:
        raise AnalysisError("R-LAZY: API roots missing")
    la = LazyAnalysis(ctx, EXEMPT)
    found = la.run_roots(roots)
    guarded = sorted(set(la.guarded_sites))
    for g in guarded:
        res.inst(f"guarded: {g}", g)
    if len(guarded) < MIN_GUARDED:
        raise AnalysisError(f"R-LAZY: only {len(guarded)} guarded materialisation sites recognised (hand-confirmed minimum {MIN_GUARDED}); "
                            "the rule would pass vacuously")
    by_site: dict = {}
    for q, atoms, sk in found:
        f = ctx.prog.funcs[sk.func]
        site = (q, f"{f.where(sk.node)}", norm(sk.node)[:70] if sk.chain else sk.what[:70])
        by_site.setdefault(site, []).append((atoms, sk))
    for (q, where, construct), hits in sorted(by_site.items(), key=lambda kv: kv[0]):
        atoms, sk = hits[0]
        origins = []
        for _, h in hits:
            o = h.chain[-1] if h.chain else (h.func, h.what)
            origins.append(f"{o[0]}: {o[1].split(' ', 1)[-1][:60]}" if h.chain else h.what[:70])
        key = f"{q}|{construct}"
        res.inst(f"UNGUARDED: {q}: {construct} when {atoms.describe(sk.cond)[:120]}", key)
        res.report(key, where, q,
                   f"{construct}: a possibly chunked value reaches a materialising operation when [{atoms.describe(sk.cond)[:160]}]: "
                   f"{'; '.join(sorted(set(origins))[:4])}{' ...' if len(set(origins)) > 4 else ''} -- the call evaluates (or hands to pandas/NumPy) "
                   "a lazy array while the graph is being built",
                   path=[f"{a}: {b_[:90]}" for a, b_ in sk.chain])
    res.notes.append(f"functions summarised: {len(la.summaries)}; call sites mapped: {la.analysed_calls}; materialisation sites examined: {la.sink_sites_seen}")
    res.notes.append(f"exempt: {EXEMPT}")
    res.assumptions.append("expected_groups, fill_value, func and the other non-array arguments are never chunked arrays")
    res.assumptions.append("metadata attributes (.shape .ndim .dtype .chunks ...) and everything in dask.array.* keep a value lazy")
    return res
