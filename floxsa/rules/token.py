"""R-TOKEN (C14; C09 for cohort subsets): graph layers are content-named, and the content is complete."""
from __future__ import annotations

import ast

from ..astutil import kwarg, calls_in, names_in, access_path, returned_name, blueprint_vars
from ..model import AnalysisError, Func, norm, walk_own
from ..report import RuleResult

# callee (dotted suffix) -> how the explicit name is passed.  ("kw", "name") / ("pos", index)
FULL_NAME_SITES = {
    "dask.array.blockwise": ("kw", "name"),
    "dask.array.map_blocks": ("kw", "name"),
    "dask.array.core.map_blocks": ("kw", "name"),
    "dask.array.Array": ("pos", 1),
    "dask.array.core.Array": ("pos", 1),
    "dask.highlevelgraph.HighLevelGraph.from_collections": ("pos", 0),
}
# name= is only a prefix there: dask appends tokenize(func, x, ...) itself
PREFIX_ONLY = {"dask.array.reductions._tree_reduce", "dask.array.reductions.cumreduction"}
FLOX_NAME_PARAMS = {"dask_array_ops._tree_reduce": "name", "dask_array_ops.partial_reduce": "name", "lib.ArrayLayer": "name"}

# value-neutral ingredients: (function, parameter) -> (reason, validator name)
NEUTRAL = {
    # ("core.dask_groupby_agg", "engine") was listed here as value-neutral ("equal values whichever engine computes them, C01"); that is true only up to
    # floating-point rounding: float32 nansum of [1e8, 1, -1e8, 1] is 2 / 0 / 1 on numpy / flox / numbagg, and with one shared key the three
    # lazy results overwrite each other when computed together (finding F56).  The engine is value-relevant.
    ("core.dask_groupby_agg", "reindex"): ("equal values whether intermediates are reindexed at the block or the combine stage (C02)", None),
    ("core.dask_groupby_agg", "fill_value"): ("dead parameter: _aggregate and _reduce_blockwise never read their fill_value", "dead_fill"),
    ("core.dask_groupby_agg", "chunks_cohorts"): ("a function of by, the chunks, expected_groups and method, all covered", "cohorts_from_covered"),
    ("core.subset_to_blocks", "chunks_as_array"): ("a function of array.chunks", None),
    ("core.subset_to_blocks", "blkshape"): ("enters the name through index", None),
    ("core.subset_to_blocks", "flatblocks"): ("enters the name through index", None),
    ("core._extract_unknown_groups", "dtype"): ("display-only meta of the label array", None),
    ("core._collapse_blocks_along_axes", "axis"): ("determined by reduced.name, whose token covers axis", None),
    ("core._collapse_blocks_along_axes", "group_chunks"): ("determined by reduced.name (labels and chunks are covered by its token)", None),
}


class Closure:
    """def-use closure of an expression inside one function (flow-insensitive over the function's bindings)"""

    def __init__(self, ctx, f: Func):
        self.ctx = ctx
        self.f = f
        self.scope = ctx.resolver.scope(f)

    def of(self, e: ast.AST) -> dict:
        out = {"params": set(), "tokenize": [], "dotname": set(), "const_only": True, "names": set()}
        seen: set[str] = set()
        self._walk(e, out, seen)
        return out

    def _walk(self, e: ast.AST, out, seen):
        for n in ast.walk(e):
            if isinstance(n, ast.Call) and norm(n.func).split(".")[-1] == "tokenize":
                out["tokenize"].append(n)
                out["const_only"] = False
            elif isinstance(n, ast.Attribute) and n.attr == "name" and isinstance(n.ctx, ast.Load):
                out["dotname"].add(norm(n))
                out["const_only"] = False
            elif isinstance(n, ast.Name) and isinstance(n.ctx, ast.Load):
                if n.id in seen:
                    continue
                seen.add(n.id)
                out["names"].add(n.id)
                binds = self.scope.bind.get(n.id)
                if binds is None:
                    continue
                for kind, node in binds:
                    if kind == "param":
                        out["params"].add(n.id)
                        out["const_only"] = False
                    elif kind in ("assign",):
                        self._walk(node, out, seen)
                    elif kind in ("iter", "unpack"):
                        self._walk(node, out, seen)
                        out["const_only"] = False
                    elif kind in ("aug",):
                        self._walk(node.value, out, seen)
                    elif kind in ("opaque",):
                        out["const_only"] = False


def _site_name_expr(ctx, f: Func, call: ast.Call):
    """-> (kind, name expression) for calls that create an explicitly named layer, else None"""
    ts = ctx.callgraph._expand(ctx.resolver.resolve(call.func, f, f.unit))
    for t in ts:
        if t.kind == "ext":
            if t.name in PREFIX_ONLY:
                return None
            for dotted, (how, which) in FULL_NAME_SITES.items():
                if t.name == dotted or (t.name.endswith("." + dotted.split(".")[-1]) and t.name.split(".")[0] == "dask"
                                        and dotted.split(".")[-1] in ("blockwise", "map_blocks", "Array", "from_collections")):
                    if how == "kw":
                        v = kwarg(call, which)
                        return ("full", v) if v is not None else None
                    if len(call.args) > which:
                        return ("full", call.args[which])
                    v = kwarg(call, "name")
                    return ("full", v) if v is not None else None
        elif t.kind == "func" and t.name in FLOX_NAME_PARAMS:
            v = kwarg(call, FLOX_NAME_PARAMS[t.name])
            return ("full", v) if v is not None else None
        elif t.kind == "class" and t.name in FLOX_NAME_PARAMS:
            v = kwarg(call, FLOX_NAME_PARAMS[t.name])
            return ("full", v) if v is not None else None
    if isinstance(call.func, ast.Attribute) and call.func.attr == "map_blocks":
        v = kwarg(call, "name")
        return ("full", v) if v is not None else None
    return None


def _validators(ctx):
    prog = ctx.prog

    def dead_fill():
        for q in ("core._aggregate", "core._reduce_blockwise"):
            f = prog.funcs.get(q)
            if f is None:
                return False
            for n in walk_own(f.node):
                if isinstance(n, ast.Name) and n.id == "fill_value" and isinstance(n.ctx, ast.Load):
                    return False
        return True

    def cohorts_from_covered():
        g = prog.funcs.get("core.groupby_reduce")
        if g is None:
            return False
        ok = False
        for n in walk_own(g.node):
            if isinstance(n, ast.Assign) and any("chunks_cohorts" in names_in(t) for t in n.targets):
                v = n.value
                if isinstance(v, ast.Call) and norm(v.func) == "find_group_cohorts":
                    used = names_in(v)
                    ok = used <= {"find_group_cohorts", "by_", "array", "ax", "range", "expected_", "method"}
                elif isinstance(v, ast.Dict) and not v.keys:
                    pass
                else:
                    return False
        return ok

    return {"dead_fill": dead_fill, "cohorts_from_covered": cohorts_from_covered}


def rule_token(ctx) -> RuleResult:
    res = RuleResult("R-TOKEN", "explicitly named graph layers are content-named, the token covers every value-relevant ingredient, "
                     "and Aggregation.__dask_tokenize__ covers every attribute read by tasks", min_instances=12)
    prog, cg = ctx.prog, ctx.callgraph
    validators = _validators(ctx)
    # ---------------- (1) content-named sites
    nsites = 0
    tokenizing_funcs: dict[str, list] = {}
    for f in prog.all_funcs():
        cl = None
        for call in calls_in(f.node):
            site = _site_name_expr(ctx, f, call)
            if site is None or site[1] is None:
                continue
            cl = cl or Closure(ctx, f)
            c = cl.of(site[1])
            nsites += 1
            key = f"{f.qualname}|{norm(call.func)[:40]}|name"
            delegated = bool(c["params"]) and not c["tokenize"] and not c["dotname"]
            res.inst(f"{f.qualname}: {norm(call.func)[:50]}(name={norm(site[1])[:60]}) "
                     f"[{'tokenize' if c['tokenize'] else 'upstream .name' if c['dotname'] else 'delegated to caller' if delegated else 'CONSTANT'}]", key)
            if c["tokenize"]:
                tokenizing_funcs.setdefault(f.qualname, []).extend(c["tokenize"])
            if not c["tokenize"] and not c["dotname"] and not c["params"]:
                res.report(f"{f.qualname}|constant-name|{norm(site[1])[:50]}", f.where(call), f.qualname,
                           f"layer created with the constant name {norm(site[1])[:60]}: two graphs built by this code share key names, and one "
                           "silently overwrites the other when they are computed together")
        # hand-written graph dict keys: (name, ...) heads
        for n in walk_own(f.node):
            keyexpr = None
            if isinstance(n, ast.Assign) and len(n.targets) == 1 and isinstance(n.targets[0], ast.Subscript) \
                    and isinstance(n.value, ast.Tuple) and isinstance(n.targets[0].slice, (ast.Tuple, ast.BinOp)):
                keyexpr = n.targets[0].slice
            elif isinstance(n, ast.DictComp) and isinstance(n.key, (ast.Tuple, ast.BinOp)) and isinstance(n.value, ast.Tuple):
                keyexpr = n.key
            elif isinstance(n, ast.Dict) and n.keys and all(isinstance(k, ast.Tuple) for k in n.keys if k is not None) \
                    and all(isinstance(v, ast.Tuple) for v in n.values):
                keyexpr = n.keys[0]
            if keyexpr is None:
                continue
            head = keyexpr
            while isinstance(head, ast.BinOp):
                head = head.left
            if isinstance(head, ast.Tuple) and head.elts:
                head = head.elts[0]
            cl = cl or Closure(ctx, f)
            c = cl.of(head)
            nsites += 1
            res.inst(f"{f.qualname}: graph key head {norm(head)[:40]} "
                     f"[{'tokenize' if c['tokenize'] else 'upstream .name' if c['dotname'] else 'delegated to caller' if c['params'] else 'CONSTANT'}]",
                     f"{f.qualname}|key|{norm(head)[:30]}")
            if c["tokenize"]:
                tokenizing_funcs.setdefault(f.qualname, []).extend(c["tokenize"])
            if not c["tokenize"] and not c["dotname"] and not c["params"]:
                res.report(f"{f.qualname}|constant-key|{norm(head)[:50]}", f.where(n), f.qualname,
                           f"hand-written graph keys start with the constant {norm(head)[:50]}")
    if nsites < 9:
        raise AnalysisError(f"R-TOKEN: only {nsites} explicitly named layer sites found (hand-confirmed: 10)")
    # ---------------- (2) token completeness per tokenizing function
    for q in ("core.dask_groupby_agg", "core.subset_to_blocks"):
        if q not in tokenizing_funcs and not any(f_.func == q for f_ in res.findings):
            raise AnalysisError(f"R-TOKEN: {q} no longer builds a name from tokenize(...) and no constant name was found either (anchor vanished)")
    for q, tcalls in sorted(tokenizing_funcs.items()):
        f = prog.funcs[q]
        cl = Closure(ctx, f)
        covered: set[str] = set()
        for tc in tcalls:
            for a in list(tc.args) + [k.value for k in tc.keywords]:
                c = cl.of(a)
                covered |= c["params"]
        # parameters that reach a graph-embedding position in this function
        embedded: set[str] = set()
        for (ef, desc, e, ts) in cg.embedded:
            if ef.qualname == q:
                embedded |= cl.of(e)["params"]
        for call in calls_in(f.node):
            ts = cg._expand(ctx.resolver.resolve(call.func, f, f.unit))
            if any(t.kind == "func" and t.name in ("dask_array_ops._tree_reduce", "core.subset_to_blocks", "core._extract_unknown_groups",
                                                    "core._collapse_blocks_along_axes") for t in ts) or _site_name_expr(ctx, f, call):
                for a in list(call.args) + [k.value for k in call.keywords if k.arg not in ("name", "token", "dtype", "meta", "concatenate", "align_arrays", "key")]:
                    embedded |= cl.of(a)["params"]
        for p in sorted(embedded):
            if p in covered:
                res.inst(f"{q}: ingredient {p!r} covered by tokenize(...)", f"{q}|{p}")
                continue
            row = NEUTRAL.get((q, p))
            if row is not None:
                reason, val = row
                ok = True if val is None else validators[val]()
                res.inst(f"{q}: ingredient {p!r} value-neutral: {reason} [{'verified' if ok else 'PREMISE BROKEN'}]", f"{q}|{p}")
                if ok:
                    continue
                res.report(f"{q}|neutral-void|{p}", f.where(), q, f"ingredient {p!r} was exempted because '{reason}', which no longer holds")
                continue
            res.report(f"{q}|uncovered|{p}", f.where(tcalls[0]), q,
                       f"parameter {p!r} flows into tasks of layers named by {norm(tcalls[0])[:80]} but is not an ingredient of that token: "
                       "results differing only in it get identical key names and overwrite each other in one compute")
    # ---------------- (3) __dask_tokenize__ coverage
    _tokenize_method(ctx, res)
    return res


def _tokenize_method(ctx, res):
    prog, cg = ctx.prog, ctx.callgraph
    tok = prog.funcs.get("aggregations.Aggregation.__dask_tokenize__")
    if tok is None:
        raise AnalysisError("Aggregation.__dask_tokenize__ not found")
    rets = [n for n in walk_own(tok.node) if isinstance(n, ast.Return) and n.value is not None]
    covered = set()
    partial_cover: dict[str, str] = {}
    VALUE_PRESERVING = {"tokenize", "normalize_token", "dict", "repr", "str", "copy.deepcopy", "dask.base.tokenize", "dask.base.normalize_token"}

    def cover(e: ast.AST, ctx_ok: bool, how: str):
        """self.X counts as covered when its *value* enters the token: a direct element, .items(), or a value-preserving call;
        sorted(self.X) / tuple(self.X) / len(self.X) / self.X.keys() keep only keys or sizes of a mapping"""
        if isinstance(e, ast.Attribute) and isinstance(e.value, ast.Name) and e.value.id == "self":
            if ctx_ok:
                covered.add(e.attr)
            else:
                partial_cover.setdefault(e.attr, how)
            return
        if isinstance(e, (ast.Tuple, ast.List)):
            for x in e.elts:
                cover(x, ctx_ok, how)
            return
        if isinstance(e, ast.Call):
            fn = norm(e.func)
            if isinstance(e.func, ast.Attribute) and e.func.attr == "items":
                cover(e.func.value, ctx_ok, how)
                return
            if isinstance(e.func, ast.Attribute) and e.func.attr in ("keys", "__len__"):
                cover(e.func.value, False, norm(e)[:50])
                return
            inner_ok = ctx_ok and (fn in VALUE_PRESERVING or (fn in ("tuple", "sorted", "frozenset", "list") and e.args and isinstance(e.args[0], ast.Call)
                                                            and isinstance(e.args[0].func, ast.Attribute) and e.args[0].func.attr == "items"))
            for a in list(e.args) + [k.value for k in e.keywords]:
                cover(a, inner_ok, norm(e)[:50])
            return
        for ch in ast.iter_child_nodes(e):
            if isinstance(ch, ast.expr):
                cover(ch, False, norm(e)[:50])

    for r in rets:
        cover(r.value, True, "")
    # instance attributes of Aggregation
    init = prog.func("aggregations.Aggregation.__init__")
    attrs = {t.attr for n in walk_own(init.node) if isinstance(n, (ast.Assign, ast.AnnAssign))
             for t in (n.targets if isinstance(n, ast.Assign) else [n.target]) if isinstance(t, ast.Attribute) and norm(t.value) == "self"}
    props: dict[str, set[str]] = {}
    cls = prog.unit("aggregations").classes["Aggregation"]
    for st in cls.body:
        if isinstance(st, ast.FunctionDef) and any(norm(d) in ("cached_property", "property", "functools.cached_property") for d in st.decorator_list):
            props[st.name] = {n.attr for n in ast.walk(st) if isinstance(n, ast.Attribute) and isinstance(n.value, ast.Name) and n.value.id == "self"}
    # derived attributes written by _initialize_aggregation from other attributes only
    derived: dict[str, set[str]] = dict(props)
    ia = prog.func("aggregations._initialize_aggregation")
    av = returned_name(ia) or "agg"
    for n in walk_own(ia.node):
        if isinstance(n, ast.Assign) and len(n.targets) == 1 and access_path(n.targets[0]) == f"{av}.simple_combine":
            derived["simple_combine"] = {"combine"}      # shape checked by R-ALGEBRA (_check_simple_combine)

    def is_covered(a: str, depth=0) -> bool:
        if a in covered:
            return True
        if a in derived and depth < 5:
            return all(is_covered(x, depth + 1) for x in derived[a])
        return False

    # attributes read by task-reachable code through a variable holding the per-call blueprint
    tr = cg.task_reachable()
    reads: dict[str, list] = {}
    for q in sorted(tr):
        f = prog.funcs[q]
        ann = {a.arg: norm(a.annotation) for a in f.node.args.args + f.node.args.kwonlyargs if a.annotation is not None} \
            if isinstance(f.node, ast.FunctionDef) else {}
        if "Scan" in ann.get("agg", ""):
            continue
        bvs = blueprint_vars(f)
        if not bvs:
            continue
        for n in walk_own(f.node):
            if isinstance(n, ast.Attribute) and isinstance(n.ctx, ast.Load) and isinstance(n.value, ast.Name) and n.value.id in bvs:
                if n.attr in attrs or n.attr in props:
                    reads.setdefault(n.attr, []).append(f"{q}:{n.lineno}")
    if len(reads) < 8:
        raise AnalysisError(f"R-TOKEN(3): only {len(reads)} blueprint attributes found to be read by tasks (hand-confirmed: >= 10)")
    for a, where in sorted(reads.items()):
        ok = is_covered(a)
        res.inst(f"Aggregation.{a} read by tasks at {where[:3]} [{'covered by __dask_tokenize__' if ok else 'NOT COVERED'}]", f"attr|{a}")
        if not ok:
            extra = f" (it only appears inside {partial_cover[a]}, which does not keep its value)" if a in partial_cover else ""
            res.report(f"aggregations.Aggregation.__dask_tokenize__|uncovered|{a}", tok.where(), tok.qualname,
                       f"tasks read agg.{a} (e.g. {where[0]}) but __dask_tokenize__ does not cover its value{extra}: two blueprints differing "
                       f"only in {a} get the same token, hence the same layer names")
