"""R-PURE (C13), R-ARGS, R-GLOBAL, R-MEMO (C14): nobody writes through an input, the registry or a memoised result."""
from __future__ import annotations

import ast

from ..astutil import calls_in
from ..model import AnalysisError, norm, walk_own
from ..origins import Origins, F
from ..report import RuleResult

# ---------------------------------------------------------------------------------------------
# Frozen exceptions, applied at the source write.  key: (function, fragment of the write description) -> (reason, validator)


def _ex_reindex_numpy(ctx) -> bool:
    """reindexed = array[tuple(indexer)] is advanced indexing (a copy) as long as indexer[axis] is the integer array
    returned by Index.get_indexer."""
    f = ctx.prog.funcs.get("core.reindex_numpy")
    if f is None:
        return False
    txt = norm(f.node)
    return "idx = from_.get_indexer(to)" in txt and "indexer[axis] = idx" in txt and "reindexed = array[tuple(indexer)]" in txt


def _ex_postprocess(ctx) -> bool:
    """generic_aggregate returns its input only for func == 'identity', which no blueprint asks for, and
    _postprocess_numbagg returns before its store for names outside DEFAULT_FILL_VALUE."""
    if "identity" in ctx.registry.kernel_names():
        return False
    p = ctx.prog.funcs.get("core._postprocess_numbagg")
    if p is None:
        return False
    first_if = next((st for st in p.node.body if isinstance(st, ast.If)), None)
    if first_if is None or "func not in DEFAULT_FILL_VALUE" not in norm(first_if.test):
        return False
    if not any(isinstance(x, ast.Return) for x in first_if.body):
        return False
    nb = ctx.prog.unit("aggregate_numbagg").bindings.get("DEFAULT_FILL_VALUE")
    return bool(nb) and "identity" not in norm(nb[-1])


def _ex_finalize_none(ctx) -> bool:
    """agg.finalize = None is a constant, idempotent store into the per-call blueprint copy."""
    f = ctx.prog.funcs.get("core._reduce_blockwise")
    if f is None:
        return False
    stores = [n for n in walk_own(f.node) if isinstance(n, ast.Assign) and any(isinstance(t, ast.Attribute) and isinstance(t.value, ast.Name)
              and t.value.id == "agg" for t in n.targets)]
    return len(stores) == 1 and isinstance(stores[0].value, ast.Constant) and stores[0].value.value is None \
        and stores[0].targets[0].attr == "finalize"


def _ex_set_blockwise(ctx) -> bool:
    """set_blockwise_for_numpy is a no-op unless blockwise is None, and _validate_reindex returns a new object whenever
    blockwise is None."""
    m = ctx.prog.funcs.get("core.ReindexStrategy.set_blockwise_for_numpy")
    v = ctx.prog.funcs.get("core._validate_reindex")
    if m is None or v is None:
        return False
    if norm(m.node.body[-1]) != "self.blockwise = True if self.blockwise is None else self.blockwise":
        return False
    # in _validate_reindex, under 'reindex_.blockwise is None' every path returns/assigns a fresh ReindexStrategy(...)
    guard = next((st for st in v.node.body if isinstance(st, ast.If) and norm(st.test) == "reindex_.blockwise is None"), None)
    if guard is None:
        return False
    for n in ast.walk(guard):
        if isinstance(n, ast.Return) and not (isinstance(n.value, ast.Call) and norm(n.value.func) == "ReindexStrategy"):
            return False
        if isinstance(n, ast.Assign) and any(norm(t) == "reindex_" for t in n.targets) and not (
                isinstance(n.value, ast.Call) and norm(n.value.func) == "ReindexStrategy"):
            return False
    # and the chain must end in an else-less if/elif whose last arm covers 'map-reduce'; methods are validated Literals
    return True


EXCEPTIONS = [
    ("core.reindex_numpy", "store reindexed[tuple(indexer)]", _ex_reindex_numpy,
     "advanced indexing with the integer array from Index.get_indexer copies; void if that store into indexer disappears"),
    ("core.chunk_reduce", "call core._postprocess_numbagg", _ex_postprocess,
     "result may be the input only via generic_aggregate's func == 'identity' early return; no blueprint uses 'identity' and "
     "_postprocess_numbagg returns before its store for such names"),
    ("core._reduce_blockwise", "store agg.finalize", _ex_finalize_none,
     "constant idempotent store into the per-call deep copy of the blueprint (listed on every run)"),
    ("core.groupby_reduce", "call core.ReindexStrategy.set_blockwise_for_numpy", _ex_set_blockwise,
     "no-op unless blockwise is None, and _validate_reindex returns a new object whenever blockwise is None"),
    ("core.reindex_pydata_sparse_coo", "store coords[-1, :]", lambda ctx: True,
     "pydata/sparse is not installed in this sandbox: the aliasing of COO.__getitem__ cannot be confirmed; reported as a note, never decisive"),
    ("xarray.xarray_reduce", "store actual[name].attrs", lambda ctx: True,
     "actual is the fresh Dataset returned by xr.apply_ufunc; the names written (group names) are assigned on the line above"),
]


class PurityModel:
    def __init__(self, ctx):
        self.ctx = ctx
        self.used: dict[int, int] = {}
        self.valid: dict[int, bool] = {}
        for i, (fn, frag, val, why) in enumerate(EXCEPTIONS):
            self.valid[i] = bool(val(ctx))
            self.used[i] = 0

        def exempt(f, node, what, toks):
            for i, (fn, frag, val, why) in enumerate(EXCEPTIONS):
                if f.qualname == fn and what.startswith(frag) and self.valid[i]:
                    self.used[i] += 1
                    return frozenset()
            return toks

        self.origins = Origins(ctx, exempt=exempt)


def _model(ctx) -> PurityModel:
    m = getattr(ctx, "_purity_model", None)
    if m is None:
        m = ctx._purity_model = PurityModel(ctx)
    return m


def _fmt_chain(chain) -> list[str]:
    return [f"{fn}: {desc}" for fn, desc in chain]


PROTECTING = [
    # (function, normalised fragment that must be present): hand-confirmed protecting copies
    ("core._factorize_single", "idx = flat.copy()"),
    ("aggregate_flox._nan_grouped_op", "np.where(isnull(array), fillna, array)"),
    ("aggregate_flox.nansum_of_squares", "np.where(isnull(array), 0, array)"),
    ("aggregate_npg.nansum", "np.where(np.isnan(array), 0, array)"),
    ("aggregate_npg.nanprod", "np.where(np.isnan(array), 1, array)"),
    ("aggregations._initialize_aggregation", "copy.deepcopy(AGGREGATIONS[func])"),
    ("aggregations._initialize_aggregation", "copy.deepcopy(func)"),
    ("core.groupby_scan", "copy.deepcopy(agg)"),
    ("xarray._rechunk", "obj.copy(deep=True)"),
]


def rule_pure(ctx) -> RuleResult:
    res = RuleResult("R-PURE", "no task-reachable function writes through a parameter (or an alias / view of one)", min_instances=60)
    m = _model(ctx)
    o, cg = m.origins, ctx.callgraph
    tr = cg.task_reachable()
    if len(tr) < 40:
        raise AnalysisError(f"only {len(tr)} task-reachable functions (expected >= 40)")
    nwrites = 0
    for q in sorted(tr):
        for w in o.writes.get(q, []):
            nwrites += 1
            res.inst(f"{q}: {w.what} -> {'fresh' if not w.tokens else sorted(w.tokens)}", f"{q}|{w.what[:60]}" if w.tokens else None)
    # verdict at the task roots: which of their parameters may be written?
    roots = sorted(r for r in cg.task_roots if r in ctx.prog.funcs)
    compose_inner = _compose_inner_params(ctx)
    by_site: dict = {}
    for r in roots:
        if "cubed_groupby_agg" in r:
            continue
        for tok, chain in o.summaries[r].mutates.items():
            if tok[0] != "P":
                continue
            if (r, tok[1]) in compose_inner and tok[2] == 0:
                # f in compose(f, g): its parameter is g's return value
                ret = o.summaries[compose_inner[(r, tok[1])]].ret
                bad = {t for t in ret.top if t != F}
                res.inst(f"{r}({tok[1]}) receives the result of {compose_inner[(r, tok[1])]}: top-level origins {sorted(ret.top)}", f"{r}|compose")
                if not bad:
                    continue
            site = chain[-1]
            by_site.setdefault(site, []).append((r, tok, chain))
    for site, hits in sorted(by_site.items()):
        hits.sort(key=lambda h: len(h[2]))
        r, tok, chain = hits[0]
        affected = sorted({f"{h[0]}({h[1][1]}{'.*' if h[1][2] else ''})" for h in hits})
        construct = site[1].split(" ", 1)[-1]
        res.report(f"{site[0]}|{construct[:70]}", site[1].split(" ")[0], site[0],
                   f"{construct}: writes through an input of task root(s) {', '.join(affected[:6])}{' ...' if len(affected) > 6 else ''} "
                   "-- a data race under a threaded scheduler and a wrong answer on re-execution",
                   path=_fmt_chain(chain))
    res.notes.append(f"{nwrites} write sites in {len(tr)} task-reachable functions; task roots judged: {len(roots)}")
    _protect(ctx, res)
    _exceptions_report(ctx, res, m)
    res.assumptions.append("NumPy/pandas/scipy/numbagg/numpy_groupies functions outside the view table return new objects")
    res.assumptions.append("an explicit out= buffer is only ever passed by name, never smuggled through **kwargs / finalize_kwargs")
    return res


def _compose_inner_params(ctx) -> dict:
    """(outer function, its first parameter) -> inner function, for toolz.compose(outer, inner) embedded in graphs"""
    out = {}
    cg = ctx.callgraph
    for (f, desc, e, ts) in cg.embedded:
        work = list(ts)
        while work:
            t = work.pop()
            if t.kind == "partial":
                work.append(t.parts[0])
            elif t.kind == "compose" and len(t.parts) >= 2:
                outer_alts, inner_alts = t.parts[0], t.parts[-1]
                inner = [x.name for x in cg._expand(set(inner_alts)) if x.kind == "func"]
                for oa in cg._expand(set(outer_alts)):
                    if oa.kind == "func" and oa.name in ctx.prog.funcs and inner:
                        p0 = ctx.prog.funcs[oa.name].positional_params[0]
                        out[(oa.name, p0)] = inner[0]
    return out


def _protect(ctx, res):
    missing = []
    for fn, frag in PROTECTING:
        f = ctx.prog.funcs.get(fn)
        ok = f is not None and frag in norm(f.node)
        res.inst(f"protecting copy {fn}: {frag} [{'present' if ok else 'absent (the origin analysis decides)'}]")
    return missing


def _exceptions_report(ctx, res, m: PurityModel):
    for i, (fn, frag, val, why) in enumerate(EXCEPTIONS):
        state = "valid" if m.valid[i] else "VOID (its structural premise no longer holds: the write is judged normally)"
        res.notes.append(f"exception {fn}: '{frag}': {state}; used {m.used[i]}x: {why}")


API_PROTECTED_SKIP = {"self"}


def rule_args(ctx) -> RuleResult:
    res = RuleResult("R-ARGS", "API-reachable code never writes through an argument, the registry, or a memoised result",
                     min_instances=100)
    m = _model(ctx)
    o, cg = m.origins, ctx.callgraph
    ar = cg.api_reachable()
    for q in sorted(ar):
        for w in o.writes.get(q, []):
            res.inst(f"{q}: {w.what} -> {'fresh' if not w.tokens else sorted(w.tokens)}", f"{q}|{w.what[:60]}" if w.tokens else None)
            f = ctx.prog.funcs[q]
            for t in w.tokens:
                if t[0] == "G":
                    res.report(f"{q}|global|{t[1]}|{w.what[:50]}", f.where(w.node), q,
                               f"{w.what}: writes into the module-level object {t[1]} (the registry and other module state must be "
                               "deep-copied before any store)", path=_fmt_chain(w.via))
                elif t[0] == "R":
                    res.report(f"{q}|memo|{t[1]}|{w.what[:50]}", f.where(w.node), q,
                               f"{w.what}: writes through the cached result of memoised {t[1]}: every later call with an equal key is corrupted",
                               path=_fmt_chain(w.via))
    by_site: dict = {}
    for r in cg.api_roots():
        f = ctx.prog.funcs[r]
        if f.cls:      # methods of user-constructed objects (Aggregation.__init__, ReindexStrategy.*) write to self by design
            continue
        for tok, chain in o.summaries[r].mutates.items():
            if tok[0] != "P" or tok[1] in API_PROTECTED_SKIP:
                continue
            by_site.setdefault(chain[-1], []).append((r, tok, chain))
    for site, hits in sorted(by_site.items()):
        hits.sort(key=lambda h: len(h[2]))
        r, tok, chain = hits[0]
        affected = sorted({f"{h[0]}({h[1][1]}{'.*' if h[1][2] else ''})" for h in hits})
        construct = site[1].split(" ", 1)[-1]
        res.report(f"{site[0]}|{construct[:70]}", site[1].split(" ")[0], site[0],
                   f"{construct}: writes through argument(s) {', '.join(affected[:6])}{' ...' if len(affected) > 6 else ''} of the public API",
                   path=_fmt_chain(chain))
    _protect(ctx, res)
    _exceptions_report(ctx, res, m)
    res.assumptions.append("NumPy/pandas/scipy/xarray functions outside the view table return new objects")
    return res


def rule_global(ctx) -> RuleResult:
    res = RuleResult("R-GLOBAL", "no API- or task-reachable function rebinds or mutates module state", min_instances=50)
    cg = ctx.callgraph
    m = _model(ctx)
    reach = cg.api_reachable() | cg.task_reachable()
    for q in sorted(reach):
        f = ctx.prog.funcs[q]
        res.inst(f"{q}: scanned for global/nonlocal declarations and writes into module objects")
        for n in walk_own(f.node):
            if isinstance(n, (ast.Global, ast.Nonlocal)):
                res.report(f"{q}|{type(n).__name__.lower()}|{','.join(n.names)}", f.where(n), q,
                           f"declares {type(n).__name__.lower()} {', '.join(n.names)}: module / closure state written by reachable code")
        for w in m.origins.writes.get(q, []):
            for t in w.tokens:
                if t[0] == "G":
                    res.nontrivial.add(f"{q}|{t[1]}")
                    res.report(f"{q}|gwrite|{t[1]}|{w.what[:50]}", f.where(w.node), q, f"{w.what}: writes into module-level object {t[1]}")
        # mutable default arguments that are written
        a = f.node.args if isinstance(f.node, ast.FunctionDef) else None
        if a is not None:
            pos = [x.arg for x in a.posonlyargs + a.args]
            for name, d in list(zip(pos[len(pos) - len(a.defaults):], a.defaults)) + [(x.arg, d) for x, d in zip(a.kwonlyargs, a.kw_defaults) if d is not None]:
                if isinstance(d, (ast.List, ast.Dict, ast.Set)) and ("P", name, 0) in m.origins.summaries[q].mutates:
                    res.report(f"{q}|mutable-default|{name}", f.where(d), q, f"mutable default of {name!r} is written: state shared across calls")
    # positive control: the rule must see a global write in a tiny synthetic example
    if not _positive_control():
        raise AnalysisError("R-GLOBAL positive control failed: the checker no longer recognises AGGREGATIONS['x'] = ... as a global write")
    res.inst("positive control: AGGREGATIONS['x'] = ... in a synthetic function is flagged", "control")
    return res


def _positive_control() -> bool:
    import os
    import tempfile
    import shutil
    from ..context import Context
    from .. import model
    d = tempfile.mkdtemp(prefix="floxsa_ctl_")
    try:
        pkg = os.path.join(d, "flox")
        shutil.copytree(os.path.join(model.REPO, "flox"), pkg, ignore=shutil.ignore_patterns("__pycache__"))
        with open(os.path.join(pkg, "core.py"), "a") as fh:
            fh.write("\n\ndef _floxsa_control(x):\n    AGGREGATIONS['x'] = x\n    return x\n")
        c = Context(d)
        mm = PurityModel(c)
        ws = mm.origins.writes.get("core._floxsa_control", [])
        return any(t[0] == "G" and "AGGREGATIONS" in t[1] for w in ws for t in w.tokens)
    finally:
        shutil.rmtree(d, ignore_errors=True)


def rule_memo(ctx) -> RuleResult:
    res = RuleResult("R-MEMO", "memoisation keys cover all arguments; memoised bodies are pure; cached results are never written", min_instances=2)
    prog = ctx.prog
    m = _model(ctx)
    o = m.origins
    memo = sorted(o.memoised)
    if len(memo) < 2:
        raise AnalysisError(f"memoised functions found: {memo}; hand-confirmed: _get_optimal_chunks_for_groups, get_parts")
    # (a) key covers every parameter
    cache_u = prog.unit("cache")
    b = cache_u.bindings.get("memoize", [])
    key_ok = any("partial(cache.memoize, key=dask.base.tokenize)" == norm(v) for v in b)
    for q in memo:
        f = prog.funcs[q]
        decs = [norm(d) for d in f.node.decorator_list]
        res.inst(f"{q}: decorators {decs}", q)
        for d in f.node.decorator_list:
            n = norm(d.func) if isinstance(d, ast.Call) else norm(d)
            if n == "memoize" and not key_ok:
                res.report(f"{q}|key", f.where(d), q, "flox.cache.memoize is no longer cachey's memoize keyed by dask.base.tokenize of all arguments: "
                           "the cache key may drop an argument")
            if isinstance(d, ast.Call) and any(k.arg == "key" for k in d.keywords):
                res.report(f"{q}|custom-key", f.where(d), q, f"custom cache key {norm(d)}: must cover every argument (not decidable here)")
        # (b) body writes through no parameter and reads no mutable module state
        for tok in o.summaries[q].mutates:
            if tok[0] == "P":
                res.report(f"{q}|mutates|{tok[1]}", f.where(), q, f"memoised function writes through its parameter {tok[1]!r}")
    # (a') the key is as fine as the behaviour: functools.lru_cache / cache compare keys with ==, and 0 == 0.0 == False (1 == 1.0 == True);
    # a memoised function that applies a *type-sensitive* primitive to a parameter gives the answer of whichever spelling came first
    TYPE_SENSITIVE = {"np.result_type", "np.promote_types", "np.min_scalar_type", "np.asarray", "np.array", "np.dtype", "type", "isinstance",
                      "np.can_cast", "np.issubdtype", "np.full", "np.full_like", "pd.Index", "np.isscalar"}
    for q, f in sorted(prog.funcs.items()):
        if isinstance(f.node, ast.Lambda):
            continue
        for d in f.node.decorator_list:
            dn = norm(d.func) if isinstance(d, ast.Call) else norm(d)
            if dn not in ("lru_cache", "functools.lru_cache", "cache", "functools.cache"):
                continue
            typed = isinstance(d, ast.Call) and any(k.arg == "typed" and isinstance(k.value, ast.Constant) and k.value.value is True for k in d.keywords)
            hits = []
            for c in calls_in(f.node):
                if norm(c.func) in TYPE_SENSITIVE:
                    for a in list(c.args) + [k.value for k in c.keywords]:
                        for nm in ast.walk(a):
                            if isinstance(nm, ast.Name) and nm.id in f.params:
                                ann = next((norm(x.annotation) for x in f.node.args.args + f.node.args.kwonlyargs if x.arg == nm.id and x.annotation is not None), "")
                                if not any(t in ann for t in ("np.dtype", "tuple", "str", "int", "Sequence")) or ann == "":
                                    hits.append((nm.id, norm(c)[:50]))
            res.inst(f"{q}: functools cache (typed={typed}); parameters reaching type-sensitive primitives: {sorted(set(h[0] for h in hits))}", f"{q}|typed")
            if hits and not typed:
                res.report(f"{q}|untyped-key|{hits[0][0]}", f.where(d), q,
                           f"{dn} compares keys with ==, so {hits[0][0]}=0, 0.0 and False (1, 1.0, True) share one cache entry, but '{hits[0][1]}' distinguishes "
                           "their types: the result depends on which spelling was seen first in this process (call-history dependence); use typed=True or "
                           "do not memoise")
    # (c) callers never write through the returned object: covered by the 'R' tokens in R-ARGS; count them here
    n = 0
    for q, ws in o.writes.items():
        for w in ws:
            for t in w.tokens:
                if t[0] == "R":
                    n += 1
                    f = prog.funcs[q]
                    res.report(f"{q}|memo-write|{t[1]}|{w.what[:50]}", f.where(w.node), q,
                               f"{w.what}: writes through the cached result of {t[1]}")
    res.inst(f"writes through cached results: {n}")
    return res


# ---------------------------------------------------------------------------------------------
# R-GETTER (C13, C03): reading an attribute of an object that is embedded in the graph never writes to it.
# Blueprints (Aggregation / Scan / Dim ...) are bound into every task of a graph and shared by the threads that run them.  A property getter
# is invoked by a plain attribute read, which the call graph does not see as a call: a getter that builds its value incrementally in `self`
# (self._x += ..., self._x.append(...)) is a check-then-act race between the first tasks that read it.  Getters of flox classes contain no
# explicit store through `self` (functools.cached_property's own memo is a single, value-determined store and is accepted).
def rule_getter(ctx) -> RuleResult:
    res = RuleResult("R-GETTER", "property getters of graph-embedded classes do not write through self", min_instances=2)
    n = 0
    for q, f in sorted(ctx.prog.funcs.items()):
        node = f.node
        if not isinstance(node, (ast.FunctionDef, ast.AsyncFunctionDef)) or not f.cls:
            continue
        decos = {norm(d).split(".")[-1] for d in node.decorator_list}
        if not decos & {"property", "cached_property"}:
            continue
        n += 1
        selfname = f.params[0] if f.params else "self"
        writes = []
        for x in walk_own(node):
            tg = []
            if isinstance(x, ast.Assign):
                tg = x.targets
            elif isinstance(x, (ast.AugAssign, ast.AnnAssign)):
                tg = [x.target]
            for t in tg:
                base = t
                while isinstance(base, (ast.Attribute, ast.Subscript)):
                    base = base.value
                if isinstance(base, ast.Name) and base.id == selfname and not isinstance(t, ast.Name):
                    writes.append(x)
            if isinstance(x, ast.Call) and isinstance(x.func, ast.Attribute) and x.func.attr in ("append", "extend", "update", "add", "insert", "setdefault", "pop", "clear") \
                    and isinstance(x.func.value, ast.Attribute):
                base = x.func.value
                while isinstance(base, (ast.Attribute, ast.Subscript)):
                    base = base.value
                if isinstance(base, ast.Name) and base.id == selfname:
                    writes.append(x)
        res.inst(f"{q} (@{'/'.join(sorted(decos & {'property', 'cached_property'}))}): explicit stores through {selfname}: {len(writes)}", q)
        if writes:
            res.report(f"{q}|getter-writes-self", f.where(writes[0]), q,
                       f"'{norm(writes[0])[:60]}' runs on a plain attribute read of an object that is bound into every task of a graph: the first tasks to read "
                       f"'{f.name}' concurrently see (or double) a half-built value -- wrong combine functions / IndexError under a threaded scheduler, never under the "
                       "synchronous one")
    if n == 0:
        res.notes.append("no property getters in flox classes")
        res.min_instances = 0
    return res


# ---------------------------------------------------------------------------------------------
# R-CAPTURE (C14, C13): a mutable container handed in by the caller is copied before it is stored into an object that outlives the call.
# The blueprint built by _initialize_aggregation is bound into the tasks of a lazy result.  Storing the caller's own dict (finalize_kwargs)
# in it by reference means that a later edit of that dict -- e.g. to prepare the next call -- changes what the first, not yet computed,
# result computes (while its graph keys still name the old value).  Every store `obj.attr = P` of a parameter P annotated as dict / list /
# Mapping / Sequence / set goes through a copying constructor (copy.deepcopy, copy.copy, dict(...), list(...), {**P}).
_MUTABLE_ANN = ("dict", "Dict", "list", "List", "Mapping", "MutableMapping", "Sequence", "MutableSequence", "set", "Set")
_COPIERS = ("copy.deepcopy", "deepcopy", "copy.copy", "dict", "list", "tuple", "set", "frozenset")


def rule_capture(ctx) -> RuleResult:
    res = RuleResult("R-CAPTURE", "mutable containers handed in by the caller are copied before being stored into long-lived objects", min_instances=1)
    n = 0
    for q, f in sorted(ctx.prog.funcs.items()):
        node = f.node
        if not isinstance(node, (ast.FunctionDef, ast.AsyncFunctionDef)) or f.is_overload:
            continue
        if f.name == "__init__" or f.name.startswith("__"):
            continue            # constructors store what they are given; the rule is about the functions that receive the USER's objects
        anns = {}
        for a in list(node.args.args) + list(node.args.kwonlyargs):
            if a.annotation is not None:
                t = norm(a.annotation)
                if any(m in t.replace("[", " ").replace("|", " ").replace(",", " ").split() or t.startswith(m + "[") or f" {m}[" in " " + t for m in _MUTABLE_ANN):
                    anns[a.arg] = t
        if not anns:
            continue
        for st in walk_own(node):
            if not (isinstance(st, ast.Assign) and len(st.targets) == 1 and isinstance(st.targets[0], ast.Attribute)):
                continue
            v = st.value
            direct = isinstance(v, ast.Name) and v.id in anns
            copied = isinstance(v, ast.Call) and norm(v.func) in _COPIERS and v.args and isinstance(v.args[0], ast.Name) and v.args[0].id in anns
            spread = isinstance(v, ast.Dict) and any(k is None and isinstance(x, ast.Name) and x.id in anns for k, x in zip(v.keys, v.values))
            if not (direct or copied or spread):
                continue
            n += 1
            pname = v.id if direct else (v.args[0].id if copied else next(x.id for k, x in zip(v.keys, v.values) if k is None and isinstance(x, ast.Name)))
            res.inst(f"{q}: '{norm(st)[:60]}' stores parameter '{pname}' ({anns[pname][:30]}): copied: {not direct}", f"{q}|{norm(st.targets[0])}")
            if direct:
                res.report(f"{q}|caller-container-stored-by-reference|{pname}", f.where(st), q,
                           f"'{norm(st)[:60]}' keeps the caller's own {anns[pname][:30]} in an object that is bound into the tasks of a lazy result: editing the container "
                           "afterwards (to prepare the next call) changes what the first result computes, although its graph keys were derived from the old content")
    if n == 0:
        res.notes.append("no parameter annotated as a mutable container is stored into an attribute: rule not applicable")
        res.min_instances = 0
    return res


# ---------------------------------------------------------------------------------------------
# R-OPTIONS (C14): process-wide options of other libraries are only changed inside a `with`.
# xr.set_options, dask.config.set, np.errstate / np.printoptions, warnings.catch_warnings ... are context managers: as the context
# expression of a `with` they are restored on exit; called as a plain statement (xr.set_options(keep_attrs=...), np.seterr(...),
# warnings.simplefilter(...), pd.set_option(...)) they change the state of the process for every later call -- results (attrs, error
# behaviour, the plan dask picks) then depend on the call history.
_SETTERS = ("xr.set_options", "xarray.set_options", "dask.config.set", "np.seterr", "numpy.seterr", "np.seterrcall", "np.set_printoptions",
            "pd.set_option", "pandas.set_option", "warnings.simplefilter", "warnings.filterwarnings", "np.random.seed", "random.seed",
            "os.environ.update", "os.putenv", "logging.basicConfig", "sys.setrecursionlimit")


def rule_options(ctx) -> RuleResult:
    res = RuleResult("R-OPTIONS", "process-wide options of other libraries are changed only as the context expression of a `with`", min_instances=0)
    n = 0
    for q, f in sorted(ctx.prog.funcs.items()):
        if isinstance(f.node, ast.Lambda) or f.is_overload:
            continue
        with_exprs = set()
        within_catch = []
        for w in ast.walk(f.node):
            if isinstance(w, (ast.With, ast.AsyncWith)):
                for it in w.items:
                    for x in ast.walk(it.context_expr):
                        with_exprs.add(id(x))
                if any("catch_warnings" in norm(it.context_expr) for it in w.items):
                    within_catch.append(w)
        for c in walk_own(f.node):
            if not (isinstance(c, ast.Call) and norm(c.func) in _SETTERS):
                continue
            n += 1
            scoped = id(c) in with_exprs or (norm(c.func).startswith("warnings.") and any(any(c is y for y in ast.walk(w)) for w in within_catch))
            res.inst(f"{q}: {norm(c)[:50]}: scoped by a `with`: {scoped}", f"{q}|{norm(c)[:40]}")
            if not scoped:
                res.report(f"{q}|process-wide-option-set|{norm(c.func)}", f.where(c), q,
                           f"'{norm(c)[:60]}' is a plain call: the option stays changed after {f.name} returns, so later calls (and other code in the process) behave differently "
                           "depending on whether this path ran before them -- results depend on the call history")
    if n == 0:
        res.notes.append("no process-wide option setter is called (the self-test keeps a positive example)")
    return res
