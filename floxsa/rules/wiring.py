"""R-PASSTHROUGH (C16, C01), R-COUNTER (C05, C04), R-GLOBALIDX (C06): cross-site wiring agreements."""
from __future__ import annotations

import ast

from ..astutil import calls_in, kwarg, names_in, parents_map, ancestors, access_path, guard_facts, returned_name, blueprint_vars
from ..model import AnalysisError, norm, walk_own
from ..report import RuleResult
from .refusals import _unwrap, _Sig
from .token import Closure

# contract parameters that every stage must receive unchanged: parameter -> functions that legitimately pin it, with the reason
PASSTHROUGH = {
    "sort": {
        "core.groupby_scan": "scans keep positional order by design (sort=False)",
        "core.rechunk_for_blockwise": "labels are only factorised to find group boundaries",
        "aggregations.AlignedArrays.last": "scan state: labels are integer codes already in canonical order",
        "core.grouped_reduce": "scan state: labels are integer codes already in canonical order",
        "core._get_expected_groups": "sort is its own parameter",
    },
    "engine": {
        "aggregations.scan_binary_op": "scans are only implemented for engine='flox' (refused otherwise in groupby_scan)",
        "aggregations.AlignedArrays.last": "scans are only implemented for engine='flox'",
        "core.chunk_scan": "scans are only implemented for engine='flox'",
        "core.grouped_reduce": "scans are only implemented for engine='flox'",
        "aggregations.generic_aggregate": "fall-back to numpy_groupies when an engine lacks a kernel (R-DISPATCH)",
    },
}


def rule_passthrough(ctx, param: str) -> RuleResult:
    res = RuleResult(f"R-PASSTHROUGH[{param}]", f"every stage that takes `{param}` receives the caller's `{param}` unchanged", min_instances=5)
    prog, rs, cg = ctx.prog, ctx.resolver, ctx.callgraph
    pins = PASSTHROUGH[param]
    for f in prog.all_funcs():
        if param not in f.params:
            continue
        pm = parents_map(f.node)
        cl = None
        for call in calls_in(f.node):
            is_partial = norm(call.func) in ("partial", "functools.partial")
            target = call.args[0] if is_partial and call.args else call.func
            with rs.assuming(guard_facts(call, pm)):
                ts = rs.resolve(target, f, f.unit)
            alts = []
            for t in ts:
                alts += _unwrap(ctx, t)
            for (q, bound, npos_bound) in alts:
                g = prog.funcs.get(q)
                if g is None or param not in g.params or q == f.qualname:
                    continue
                sg = _Sig(g)
                given = None
                v = kwarg(call, param)
                if v is not None:
                    given = v
                elif param in sg.pos:
                    i = sg.pos.index(param) - npos_bound - (1 if is_partial else 0) + (1 if is_partial else 0)
                    args = call.args[1:] if is_partial else call.args
                    idx = sg.pos.index(param) - npos_bound
                    if 0 <= idx < len(args) and not any(isinstance(a, ast.Starred) for a in args[: idx + 1]):
                        given = args[idx]
                if given is None and param in bound:
                    continue      # supplied by an enclosing partial, checked at its construction site
                if given is None and any(k.arg is None for k in call.keywords):
                    # **kwargs: accept when the dict provably carries the parameter
                    cl = cl or Closure(ctx, f)
                    carried = False
                    for k in call.keywords:
                        if k.arg is None and isinstance(k.value, ast.Name):
                            for kind, node in cl.scope.bind.get(k.value.id, []):
                                if kind == "assign" and isinstance(node, ast.Call) and norm(node.func) == "dict" and kwarg(node, param) is not None:
                                    carried = True
                            # kwargs["engine"] = ...
                            for n in walk_own(f.node):
                                if isinstance(n, ast.Assign) and any(access_path(t) == f"{k.value.id}[{param!r}]" for t in n.targets):
                                    carried = True
                    if carried:
                        res.inst(f"{f.qualname} -> {q}: {param} carried in **kwargs", f"{f.qualname}|{q}")
                        continue
                if is_partial and given is None:
                    # a partial may leave the parameter to the final call -- when it is bound to a local name, every use of that name in
                    # this function must then supply it: a call `L(..., param=...)`, or a hand-over `submit(L, ..., param=...)` whose
                    # keywords reach the callee; `executor.map(L, ...)` / `map(L, ...)` cannot, so the callee's default would be used
                    par = pm.get(id(call))
                    if isinstance(par, ast.Call) and par.args and par.args[0] is call and isinstance(par.func, ast.Attribute) and par.func.attr in ("map", "submit", "starmap", "imap") \
                            and not any(k.arg is None for k in par.keywords):
                        supplied = kwarg(par, param)
                        cl = cl or Closure(ctx, f)
                        okp = supplied is not None and param in cl.of(supplied)["params"]
                        res.inst(f"{f.qualname} -> {q}: inline partial handed to '{norm(par.func)}': {param} " + (f"= {norm(supplied)[:30]}" if supplied is not None else "omitted"),
                                 f"{f.qualname}|{q}|inline-partial|{norm(par.func)}")
                        if not okp and f.qualname not in pins:
                            res.report(f"{f.qualname}|{param}-not-forwarded|{q}|inline-partial", f.where(par), f.qualname,
                                       f"'{norm(par)[:80]}' runs {q} through a partial that does not bind `{param}` and does not supply it either: "
                                       f"this arm runs with the callee's default `{param}` while its sibling uses the caller's")
                    if isinstance(par, ast.Assign) and len(par.targets) == 1 and isinstance(par.targets[0], ast.Name):
                        L = par.targets[0].id
                        for use in walk_own(f.node):
                            if not (isinstance(use, ast.Name) and use.id == L and isinstance(use.ctx, ast.Load)):
                                continue
                            up = pm.get(id(use))
                            if not isinstance(up, ast.Call):
                                continue
                            handover = isinstance(up.func, ast.Attribute) and up.func.attr in ("map", "submit", "starmap", "imap") or norm(up.func) in ("map", "itertools.starmap")
                            if not (up.func is use or (handover and up.args and up.args[0] is use)):
                                continue      # composed / re-wrapped: decided where the wrapper is finally called
                            supplied = kwarg(up, param)
                            if up.func is use and supplied is None and param in sg.pos:
                                idx = sg.pos.index(param) - npos_bound - (len(call.args) - 1)
                                if 0 <= idx < len(up.args):
                                    supplied = up.args[idx]
                            if supplied is None and any(k.arg is None for k in up.keywords):
                                continue
                            cl = cl or Closure(ctx, f)
                            okp = False
                            if supplied is not None:
                                c = cl.of(supplied)
                                okp = param in c["params"] and c["names"] <= {param, "bool"}
                            res.inst(f"{f.qualname} -> {q}: partial bound to `{L}`, used as '{norm(up)[:40]}': {param} "
                                     + (f"= {norm(supplied)[:30]}" if supplied is not None else "omitted"), f"{f.qualname}|{q}|partial-use|{norm(up)[:40]}")
                            if not okp and f.qualname not in pins:
                                res.report(f"{f.qualname}|{param}-not-forwarded|{q}|via-{L}", f.where(up), f.qualname,
                                           f"'{norm(up)[:70]}' runs {q} through the partial `{L}`, which does not bind `{param}`, and does not supply it either: "
                                           f"this arm silently runs with the callee's default `{param}` while its sibling uses the caller's")
                    continue
                key = f"{f.qualname}|{q}|{norm(call)[:40]}"
                if given is None:
                    ok = False
                    how = "omitted (the callee's default is used)"
                else:
                    cl = cl or Closure(ctx, f)
                    c = cl.of(given)
                    ok = param in c["params"] and c["names"] <= {param} | {n for n in c["names"] if n in ("bool",)}
                    how = f"= {norm(given)[:40]}"
                res.inst(f"{f.qualname} -> {q}: {param} {how}", key)
                if not ok:
                    if f.qualname in pins:
                        res.notes.append(f"pinned by design in {f.qualname}: {pins[f.qualname]}")
                        continue
                    res.report(f"{f.qualname}|{param}-not-forwarded|{q}", f.where(call), f.qualname,
                               f"{norm(call)[:70]}: callee {q} takes `{param}` but receives it {how}, not the caller's `{param}`: the stage "
                               f"silently runs with a different `{param}` than the user asked for")
    return res


def rule_passthrough_sort(ctx):
    return rule_passthrough(ctx, "sort")


def rule_passthrough_engine(ctx):
    return rule_passthrough(ctx, "engine")


# ---------------------------------------------------------------------------------------------
def _cmp_shape(test: ast.AST):
    """('>', 0) for 'x > 0' style comparisons on min_count"""
    if isinstance(test, ast.Compare) and len(test.ops) == 1 and isinstance(test.comparators[0], ast.Constant):
        return (type(test.ops[0]).__name__, test.comparators[0].value, norm(test.left))
    return None


def rule_counter(ctx) -> RuleResult:
    res = RuleResult("R-COUNTER", "the validity counter is appended, detected and stripped under one and the same condition and name",
                     min_instances=5)
    prog = ctx.prog
    ia = prog.func("aggregations._initialize_aggregation")
    fr = prog.func("core._finalize_results")
    # writer: the branch that appends the counter and records agg.min_count
    av = returned_name(ia) or "agg"
    w_if = None
    for n in walk_own(ia.node):
        if isinstance(n, ast.If) and any(isinstance(x, ast.AugAssign) and access_path(x.target) == f"{av}.chunk" for x in ast.walk(n)):
            if "min_count" in norm(n.test):
                w_if = n if w_if is None else w_if
    if w_if is None:
        raise AnalysisError("_initialize_aggregation: counter branch not found")
    wshape = _cmp_shape(w_if.test)
    then_sets = [norm(x.value) for x in ast.walk(ast.Module(body=w_if.body, type_ignores=[])) if isinstance(x, ast.Assign)
                 and any(access_path(t) == f"{av}.min_count" for t in x.targets)]
    else_sets = [norm(x.value) for x in ast.walk(ast.Module(body=w_if.orelse, type_ignores=[])) if isinstance(x, ast.Assign)
                 and any(access_path(t) == f"{av}.min_count" for t in x.targets)]
    res.inst(f"writer: if {norm(w_if.test)}: append counter, agg.min_count = {then_sets}; else agg.min_count = {else_sets}", "writer")
    if then_sets != ["min_count"] or else_sets != ["0"]:
        res.report("aggregations._initialize_aggregation|min_count-record", ia.where(w_if), ia.qualname,
                   f"the counter branch must record agg.min_count = min_count and the other branch agg.min_count = 0 (found {then_sets} / {else_sets}): "
                   "the finalizer decides from agg.min_count whether a counter was appended")
    # reader: the finalizer strips the last intermediate under the same comparison on agg.min_count
    bvars = blueprint_vars(fr) or {"agg"}
    strips = []
    for n in walk_own(fr.node):
        if isinstance(n, ast.If) and any(isinstance(x, ast.Assign) and "[:-1]" in norm(x.value) and "intermediates" in norm(x.value) for x in n.body):
            strips.append(n)
    if len(strips) != 1:
        raise AnalysisError(f"_finalize_results: {len(strips)} counter-stripping branches found (expected 1)")
    rshape = _cmp_shape(strips[0].test)
    # the variable tested must come from <blueprint>.min_count
    tested = rshape[2] if rshape else None
    mc_src = [norm(n.value) for n in walk_own(fr.node) if isinstance(n, ast.Assign) and any(norm(t) == tested for t in n.targets)] if tested else []
    if tested and any(tested == f"{b}.min_count" for b in bvars):
        mc_src = [tested]
    takes = [norm(x.value) for x in strips[0].body if isinstance(x, ast.Assign) and isinstance(x.value, ast.Subscript)
             and "intermediates" in norm(x.value) and "[:-1]" not in norm(x.value)]
    res.inst(f"reader: {tested} = {mc_src}; if {norm(strips[0].test)}: counter = {takes}, strip last intermediate", "reader")
    if not mc_src or not all(any(m == f"{b}.min_count" for b in bvars) for m in mc_src):
        res.report("core._finalize_results|min_count-source", fr.where(), fr.qualname, f"the stripping condition tests {tested} = {mc_src}, not <blueprint>.min_count")
    if wshape is None or rshape is None or wshape[:2] != rshape[:2]:
        res.report("core._finalize_results|counter-condition", fr.where(strips[0]), fr.qualname,
                   f"the counter is appended when {norm(w_if.test)} but stripped when {norm(strips[0].test)}: for the values on which the two "
                   "differ the finalizer receives one intermediate too many or too few")
    if len(takes) != 1 or not takes[0].endswith("['intermediates'][-1]"):
        res.report("core._finalize_results|counter-position", fr.where(strips[0]), fr.qualname, f"counter taken from {takes}; the counter is the last intermediate")
    # masks use the same variable and comparison direction: counts < min_count
    # the literal by which the counter is recognised elsewhere equals the appended kernel name
    appended = [norm(x.value) for x in ast.walk(w_if) if isinstance(x, ast.AugAssign) and access_path(x.target) == f"{av}.chunk"]
    lit = None
    if appended and appended[0].startswith("("):
        try:
            lit = ast.literal_eval(appended[0])[0]
        except Exception:   # noqa: BLE001
            lit = None
    sites = []
    for q in ("core._grouped_combine", "core.is_nanlen"):
        f = prog.funcs.get(q)
        if f is None:
            continue
        for n in walk_own(f.node):
            if isinstance(n, ast.Compare) and len(n.ops) == 1 and isinstance(n.ops[0], ast.Eq) and isinstance(n.comparators[0], ast.Constant) \
                    and isinstance(n.comparators[0].value, str) and ("chunk[-1]" in norm(n.left) or norm(n.left) == "reduction"):
                sites.append((f, n, n.comparators[0].value))
    if len(sites) < 3:
        raise AnalysisError(f"counter recognition sites found: {len(sites)} (hand-confirmed: 3)")
    for f, n, v in sites:
        res.inst(f"{f.qualname}: counter recognised by {norm(n)}", f"{f.qualname}|{norm(n)}")
        if v != lit:
            res.report(f"{f.qualname}|counter-literal|{norm(n)[:30]}", f.where(n), f.qualname,
                       f"the counter is appended as {lit!r} but recognised by {norm(n)}")
    # belief clause: "the counts come last" is only true under the condition that appended them.  Every read of `<x>["intermediates"][-1]`
    # in the combine / finalize stages sits under a guard that establishes the counter: a comparison of <blueprint>.min_count (or a local
    # bound to it), or the recognition of the counter kernel by name -- otherwise the last intermediate is a VALUE (max, prod, all, nanlast ...)
    # and treating 0 there as "no members" drops or masks genuine results.
    from ..astutil import guard_facts
    for q, g in sorted(prog.funcs.items()):
        if not q.startswith("core.") or isinstance(g.node, ast.Lambda):
            continue
        pmg = None
        for x in walk_own(g.node):
            if not (isinstance(x, ast.Subscript) and isinstance(x.ctx, ast.Load) and isinstance(x.slice, ast.UnaryOp) and isinstance(x.slice.op, ast.USub)
                    and isinstance(x.slice.operand, ast.Constant) and x.slice.operand.value == 1 and norm(x.value).replace('"', "'").endswith("['intermediates']")):
                continue
            pmg = pmg or parents_map(g.node)
            facts = guard_facts(x, pmg)
            ok = any(("min_count" in at) or ("nanlen" in at) for at, _pol in facts)
            res.inst(f"{q}: read of {norm(x)[:40]} under a counter-establishing guard: {ok} ({[at for at, _ in facts][:2]})", f"{q}|last|{getattr(x, 'lineno', 0)}")
            if not ok:
                res.report(f"{q}|last-intermediate-taken-for-counts", g.where(x), q,
                           f"'{norm(x)[:50]}' is read without a guard on <blueprint>.min_count / the counter kernel: the last intermediate is the validity counter only "
                           "when one was appended; for max, min, prod, all, nanfirst, nanlast ... it is the value itself, and a partial result of exactly 0 / False is "
                           "then taken for 'no members'")
    return res


# ---------------------------------------------------------------------------------------------
def rule_globalidx(ctx) -> RuleResult:
    res = RuleResult("R-GLOBALIDX", "block-local arg-reduction indices are mapped to global positions through the zipped index", min_instances=3)
    prog = ctx.prog
    ca = prog.func("core.chunk_argreduce")
    cl = Closure(ctx, ca)
    p0 = ca.params[0]
    unpack = [n for n in walk_own(ca.node) if isinstance(n, ast.Assign) and isinstance(n.targets[0], ast.Tuple) and norm(n.value) == p0]
    if not unpack or len(unpack[0].targets[0].elts) != 2:
        raise AnalysisError("chunk_argreduce: 'array, idx = array_plus_idx' not found")
    arr, idx = (e.id for e in unpack[0].targets[0].elts)
    stores = [n for n in walk_own(ca.node) if isinstance(n, ast.Assign) and any(norm(t) == "results['intermediates'][1]" for t in n.targets)]
    if not stores:
        raise AnalysisError("chunk_argreduce: store into results['intermediates'][1] not found")
    st = stores[0]
    c = cl.of(st.value)
    uses_idx = idx in c["names"]
    unravel = [x for nm in c["names"] | {None} for kind, node in (cl.scope.bind.get(nm, []) if nm else [("assign", st.value)]) if kind == "assign"
               for x in ast.walk(node) if isinstance(x, ast.Call) and norm(x.func).endswith("unravel_index")]
    shape_ok = any(len(u.args) >= 2 and norm(u.args[1]) == f"{arr}.shape" for u in unravel)
    res.inst(f"chunk_argreduce: global index = {norm(st.value)} uses zipped index {idx!r}: {uses_idx}; local indices unravelled over {arr}.shape: {shape_ok}", "globalise")
    if not uses_idx:
        res.report("core.chunk_argreduce|no-global-index", ca.where(st), ca.qualname,
                   f"the arg-reduction result is not looked up in the zipped global index {idx!r}: indices are positions within the block")
    if not shape_ok:
        res.report("core.chunk_argreduce|unravel-shape", ca.where(st), ca.qualname,
                   f"block-local flat indices are not unravelled over the block's own shape ({arr}.shape)")
    # the store must come before the optional reindex and after chunk_reduce; and must be guarded only by 'groups not all missing'
    ap = prog.func("aggregations.argreduce_preprocess")
    ar = [c_ for c_ in calls_in(ap.node) if norm(c_.func).endswith("arange")]
    if not ar:
        raise AnalysisError("argreduce_preprocess: dask.array.arange(...) not found")
    a0 = ar[0]
    size, chunks = (norm(a0.args[0]) if a0.args else ""), norm(kwarg(a0, "chunks")) if kwarg(a0, "chunks") is not None else ""
    same_axis = size.replace(".shape", "") == chunks.replace(".chunks", "") and ".shape[" in size and ".chunks[" in chunks
    res.inst(f"argreduce_preprocess: index = arange({size}, chunks={chunks}): chunked like the array along the same axis: {same_axis}", "arange")
    if not same_axis:
        res.report("aggregations.argreduce_preprocess|index-chunks", ap.where(a0), ap.qualname,
                   f"the global index arange({size}, chunks={chunks}) is not chunked like the array along the reduced axis: blocks would be zipped with "
                   "the wrong index ranges")
    rb = prog.func("core._reduce_blockwise")
    un = [c_ for c_ in calls_in(rb.node) if norm(c_.func).endswith("unravel_index")]
    okrb = any(len(u.args) >= 2 and norm(u.args[1]) == "array.shape" for u in un)
    res.inst(f"_reduce_blockwise: eager arg-reduction unravels over array.shape and takes the last axis: {okrb}", "eager")
    if not okrb:
        res.report("core._reduce_blockwise|unravel", rb.where(), rb.qualname, "the eager arg-reduction no longer unravels flat indices over array.shape")
    return res


# ---------------------------------------------------------------------------------------------
SORT_CALLS = {"np.sort", "numpy.sort", "sorted"}


def _is_sorted_expr(e: ast.AST, sorted_vars: set[str]) -> bool:
    if isinstance(e, ast.Call):
        fn = norm(e.func)
        if fn in SORT_CALLS:
            return True
        if isinstance(e.func, ast.Attribute) and e.func.attr in ("sort_values", "sort"):
            return True
        if fn in ("pd.Index", "pandas.Index", "pd.IntervalIndex.from_breaks", "np.asarray", "np.array") and e.args:
            # constructors keep the order of their (sorted) argument; bin edges are breaks given in ascending order by contract
            return fn.endswith("from_breaks") or _is_sorted_expr(e.args[0], sorted_vars)
    if isinstance(e, ast.Name):
        return e.id in sorted_vars
    return False


def rule_sorted(ctx) -> RuleResult:
    res = RuleResult("R-SORTED", "with sort=True every requested-label index handed on has been sorted", min_instances=3)
    from ..cfg import CFG
    from ..dataflow import forward, atom_of
    f = ctx.prog.func("core._convert_expected_groups_to_index")
    if "sort" not in f.params:
        raise AnalysisError("_convert_expected_groups_to_index lost its sort parameter (anchor)")
    cfg = CFG(f)
    # must-analysis: (sort_fact, frozenset of variables known to be sorted whenever sort is true)
    TOP = None

    def t1(n, fact, sv):
        a = n.ast
        if n.kind == "stmt" and isinstance(a, ast.Assign) and len(a.targets) == 1 and isinstance(a.targets[0], ast.Name):
            name = a.targets[0].id
            if _is_sorted_expr(a.value, set(sv)):
                return (fact, sv | {name})
            return (fact, sv - {name})
        if n.kind == "for":
            gone = {x.id for x in ast.walk(a.target) if isinstance(x, ast.Name)}
            return (fact, sv - gone)
        return (fact, sv)

    def transfer(n, st):
        return frozenset(t1(n, fact, sv) for fact, sv in st)

    def edge(n, lab, st):
        if n.kind == "test" and lab in ("T", "F"):
            at, pol = atom_of(n.ast)
            if at == "sort":
                val = pol if lab == "T" else not pol
                out = frozenset((val, sv) for fact, sv in st if fact is None or fact == val)
                return out or None
        return st

    def join(x, y):
        return x | y

    ins, _ = forward(cfg, frozenset({(None, frozenset())}), transfer, edge=edge, join=join)
    n_app = 0
    for n in cfg.nodes:
        if n.id not in ins or n.kind != "stmt" or not isinstance(n.ast, ast.Expr):
            continue
        c = n.ast.value
        if not (isinstance(c, ast.Call) and isinstance(c.func, ast.Attribute) and c.func.attr == "append" and c.args):
            continue
        n_app += 1
        e = c.args[0]
        if isinstance(e, ast.Constant) and e.value is None:
            res.inst(f"append(None) [no requested labels for this grouper]")
            continue
        states = ins[n.id]
        ok = all(fact is False or _is_sorted_expr(e, set(sv)) for fact, sv in states)
        facts = sorted({str(fact) for fact, _ in states})
        res.inst(f"{norm(c)[:60]} under sort in {facts}: sorted whenever sort may be true: {ok}", f"append|{norm(c)[:40]}")
        if not ok:
            res.report(f"core._convert_expected_groups_to_index|unsorted|{norm(e)[:40]}", f.where(c), f.qualname,
                       f"{norm(c)[:70]} can be reached with sort=True without {norm(e)[:30]} having been sorted: the requested labels keep the caller's "
                       "order, so downstream code that assumes ascending labels pairs each label with the value of another")
    if n_app < 3:
        raise AnalysisError(f"_convert_expected_groups_to_index: {n_app} appends found (hand-confirmed: 5)")
    return res


# ---------------------------------------------------------------------------------------------
def rule_infresolve(ctx) -> RuleResult:
    res = RuleResult("R-INFRESOLVE", "for floating dtypes the INF / NINF fill sentinels resolve to +-np.inf (the identities of min / max)",
                     min_instances=2)
    u = ctx.prog
    for fn, want in (("xrdtypes.get_pos_infinity", "np.inf"), ("xrdtypes.get_neg_infinity", "-np.inf")):
        f = u.func(fn)
        found = False
        for n in walk_own(f.node):
            if isinstance(n, ast.If) and "np.floating" in norm(n.test) and "issubclass" in norm(n.test):
                found = True
                rets = [x for x in ast.walk(ast.Module(body=n.body, type_ignores=[])) if isinstance(x, ast.Return)]
                vals = [norm(r.value) for r in rets]
                ok = vals == [want]
                res.inst(f"{fn}: floating branch returns {vals}", fn)
                if not ok:
                    res.report(f"{fn}|float-identity", f.where(n), fn,
                               f"for floating dtypes the sentinel resolves to {vals} instead of {want}: a finite stand-in is neutral for finite data only; "
                               f"a group whose true extreme is {want} merged with an absent block yields the stand-in")
        if not found:
            raise AnalysisError(f"{fn}: floating-dtype branch not found (anchor)")
    # complex arm: the sentinel is a constant expression; fold it with Python's complex arithmetic.  `np.inf + 1j * np.inf` is nan+infj (the
    # product 1j * inf has a NaN real part), and a fill with a NaN part poisons every max / min it meets; the parts must be +-inf.
    def fold(e):
        if isinstance(e, ast.Constant) and isinstance(e.value, (int, float, complex)):
            return complex(e.value)
        if norm(e) in ("np.inf", "numpy.inf", "math.inf", "float('inf')"):
            return complex(float("inf"), 0.0)
        if isinstance(e, ast.UnaryOp) and isinstance(e.op, (ast.USub, ast.UAdd)):
            v = fold(e.operand)
            return None if v is None else (-v if isinstance(e.op, ast.USub) else v)
        if isinstance(e, ast.BinOp) and isinstance(e.op, (ast.Add, ast.Sub, ast.Mult)):
            l, r = fold(e.left), fold(e.right)
            if l is None or r is None:
                return None
            return l + r if isinstance(e.op, ast.Add) else l - r if isinstance(e.op, ast.Sub) else l * r
        if isinstance(e, ast.Call) and norm(e.func) == "complex" and len(e.args) == 2:
            a, b = fold(e.args[0]), fold(e.args[1])
            return None if a is None or b is None else complex(a.real, b.real)
        return None

    for fn, sign in (("xrdtypes.get_pos_infinity", 1.0), ("xrdtypes.get_neg_infinity", -1.0)):
        f = u.func(fn)
        for n in walk_own(f.node):
            if isinstance(n, ast.If) and "complexfloating" in norm(n.test):
                for r in [x for x in ast.walk(ast.Module(body=n.body, type_ignores=[])) if isinstance(x, ast.Return) and x.value is not None]:
                    v = fold(r.value)
                    want = sign * float("inf")
                    ok = v is not None and v.real == want and v.imag == want
                    res.inst(f"{fn}: complex branch returns '{norm(r.value)}' = {v}: both parts {want}: {ok}", f"{fn}|complex")
                    if v is None:
                        res.notes.append(f"UNDECIDED: {fn}: complex sentinel '{norm(r.value)}' is not a foldable constant expression")
                    elif not ok:
                        res.report(f"{fn}|complex-identity", f.where(r), fn,
                                   f"for complex dtypes the sentinel '{norm(r.value)}' evaluates to {v}: a part that is NaN (1j * inf has a NaN real part) makes every "
                                   "max / min with the fill NaN, so complex min / max of a chunked array are NaN wherever a group is absent from a block")
    g = u.func("xrdtypes._get_fill_value")
    t = norm(g.node)
    ok = "fill_value == INF" in t and "get_pos_infinity(dtype" in t and "fill_value == NINF" in t and "get_neg_infinity(dtype" in t
    res.inst(f"_get_fill_value maps INF -> get_pos_infinity and NINF -> get_neg_infinity: {ok}", "map")
    if not ok:
        res.report("xrdtypes._get_fill_value|sentinel-map", g.where(), g.qualname, "INF / NINF are no longer resolved through get_pos_infinity / get_neg_infinity respectively")
    return res


# ---------------------------------------------------------------------------------------------
# R-UNIQUEFROM (C19): the final reindex never meets a duplicated source index unprepared.
# `reindex_(result, from_=G, to=...)` ends in `pd.Index(G).get_indexer(to)`, which raises pandas' InvalidIndexError when G has duplicates.
# On the blockwise plan G is the *concatenation of the label sets of the blocks* (dask_groupby_agg), unique only if no group spans
# two blocks -- a precondition on the user's chunking.  The code removes duplicated -1 (missing) slots itself, which states the belief
# that duplicates occur; any other duplicate must be refused with an allowed exception before the reindex.
def _per_block_concats(f):
    """np.concatenate(N) calls where N is bound to a comprehension that slices one array per loop item (per-block label lists),
    found structurally (no reliance on variable names)"""
    out = []
    for n in walk_own(f.node):
        if not (isinstance(n, ast.Call) and norm(n.func) in ("np.concatenate", "numpy.concatenate") and n.args and isinstance(n.args[0], ast.Name)):
            continue
        name = n.args[0].id
        defs = [a.value for a in walk_own(f.node) if isinstance(a, ast.Assign) and any(isinstance(t, ast.Name) and t.id == name for t in a.targets)]
        for d in defs:
            comp = d
            if isinstance(d, ast.Call) and norm(d.func) in ("tuple", "list") and d.args:
                comp = d.args[0]
            if isinstance(comp, (ast.GeneratorExp, ast.ListComp)):
                tvars = set()
                for g in comp.generators:
                    tvars |= names_in(g.target)
                if any(isinstance(x, ast.Subscript) and names_in(x.slice) & tvars for x in ast.walk(comp.elt)):
                    out.append(n)
    return out


_UNIQ_WORDS = ("is_unique", "duplicated(", "has_duplicates", "np.unique(", "_unique(", "nunique(")


def rule_uniquefrom(ctx) -> RuleResult:
    res = RuleResult("R-UNIQUEFROM", "a uniqueness refusal dominates the final reindex of block-concatenated group labels", min_instances=2)
    from ..cfg import CFG, node_exprs
    prog = ctx.prog
    # (1) the source: blockwise groups are a concatenation of per-block label sets
    dga = prog.func("core.dask_groupby_agg")
    conc = _per_block_concats(dga)
    res.inst(f"dask_groupby_agg: {len(conc)} concatenation(s) of per-block label sets: {[norm(c)[:50] for c in conc]}", "source")
    if not conc:
        res.notes.append("blockwise groups are no longer a concatenation of per-block label sets: duplicates cannot arise that way; rule not applicable")
        res.min_instances = 1
        return res
    # (2) the sink and its dominating refusal
    f = prog.func("core.groupby_reduce")
    cfg = CFG(f)
    dom = cfg.dominators()
    sinks = []
    for n in cfg.nodes:
        for e in node_exprs(n):
            for c in ast.walk(e):
                if isinstance(c, ast.Call) and norm(c.func) == "reindex_" and kwarg(c, "from_") is not None:
                    sinks.append((n, c))
    if not sinks:
        raise AnalysisError("core.groupby_reduce: the final reindex_(..., from_=...) call is gone (anchor)")
    for n, c in sinks:
        g = kwarg(c, "from_")
        gnames = {x.id for x in ast.walk(g) if isinstance(x, ast.Name)}
        guards = []
        for st in ast.walk(f.node):
            if not isinstance(st, ast.If):
                continue
            txt = norm(st.test)
            if not (any(w in txt for w in _UNIQ_WORDS) and (gnames & {x.id for x in ast.walk(st.test) if isinstance(x, ast.Name)})):
                continue
            raises = [r for b in (st.body, st.orelse) for s_ in b for r in ast.walk(s_) if isinstance(r, ast.Raise)]
            if not any(r.exc is not None and norm(r.exc.func if isinstance(r.exc, ast.Call) else r.exc) in ("ValueError", "NotImplementedError") for r in raises):
                continue
            # some leaf test of this `if` is evaluated on every path to the sink (the others only narrow when the refusal applies)
            leaves = {id(x) for x in ast.walk(st.test)}
            if any(cfg.nodes[d].kind == "test" and id(cfg.nodes[d].ast) in leaves for d in dom.get(n.id, ())):
                guards.append(txt[:80])
        res.inst(f"groupby_reduce: reindex_(from_={norm(g)}) dominated by a uniqueness refusal: {guards[:1] or False}", f"sink|{norm(g)}")
        if not guards:
            res.report("core.groupby_reduce|duplicates-reach-reindex", f.where(c), f.qualname,
                       f"'reindex_(…, from_={norm(g)}, …)' is reached without a refusal of duplicated labels: with method='blockwise' {norm(g)} is the "
                       "concatenation of the blocks' label sets (dask_groupby_agg), so a group that spans two blocks reaches "
                       "pd.Index.get_indexer and raises pandas.errors.InvalidIndexError instead of a ValueError (only the duplicated -1 slots are removed)")
    return res


# ---------------------------------------------------------------------------------------------
# R-EMPTYIDX (C19): X[0] / X[-1] on a label index is reached only when the index is known to be non-empty.
# All labels may be missing (NaN), none of the requested labels may occur: label indexes can be empty, and pandas raises IndexError.
_EMPTYIDX_EXCEPTIONS = {
    # (function, subscript text): (reason, validator: an earlier 'if <text>: return' that makes the index non-empty)
    ("core.reindex_", "from_[0]"): ("from_ has array.shape[axis] entries and the zero-length case returned earlier", "array.shape[axis] == 0"),
}


def _const_index(sl):
    if isinstance(sl, ast.UnaryOp) and isinstance(sl.op, ast.USub) and isinstance(sl.operand, ast.Constant) and isinstance(sl.operand.value, int):
        return -sl.operand.value
    if isinstance(sl, ast.Constant) and isinstance(sl.value, int) and not isinstance(sl.value, bool):
        return sl.value
    return None


def rule_emptyidx(ctx) -> RuleResult:
    res = RuleResult("R-EMPTYIDX", "first/last element of a label index is read only under a non-emptiness guard", min_instances=2)
    from ..cfg import CFG, node_exprs
    from ..dataflow import forward, atom_of
    for q, f in sorted(ctx.prog.funcs.items()):
        if f.is_overload or isinstance(f.node, ast.Lambda) or f.unit.name not in ("core", "dask_array_ops", "aggregations", "xrutils", "xrdtypes"):
            continue
        a = f.node.args
        anns = {arg.arg: (norm(arg.annotation) if arg.annotation is not None else "") for arg in a.posonlyargs + a.args + a.kwonlyargs}
        idx_vars = {p for p, t in anns.items() if "Index" in t or p in ("expect", "expected_groups", "from_", "to", "found_groups")}
        # locals rebound from pd.Index(param) keep the role
        for n in walk_own(f.node):
            if isinstance(n, ast.Assign) and len(n.targets) == 1 and isinstance(n.targets[0], ast.Name) and isinstance(n.value, ast.Call) \
                    and norm(n.value.func) in ("pd.Index", "pandas.Index") and n.value.args and isinstance(n.value.args[0], ast.Name) and n.value.args[0].id in idx_vars:
                idx_vars.add(n.targets[0].id)
        sites = [n for n in walk_own(f.node) if isinstance(n, ast.Subscript) and isinstance(n.ctx, ast.Load) and isinstance(n.value, ast.Name)
                 and n.value.id in idx_vars and _const_index(n.slice) in (0, -1)]
        # arrays of the same length as a label index (sorter = np.argsort(expect)): a gather `sorter[(idx,)]` with computed positions fails on an
        # empty index just like expect[-1] does
        same_len = {}
        for n in walk_own(f.node):
            if isinstance(n, ast.Assign) and len(n.targets) == 1 and isinstance(n.targets[0], ast.Name) and isinstance(n.value, ast.Call) \
                    and norm(n.value.func) in ("np.argsort", "numpy.argsort") and n.value.args and isinstance(n.value.args[0], ast.Name) and n.value.args[0].id in idx_vars:
                same_len[n.targets[0].id] = n.value.args[0].id
        derived_sites = [n for n in walk_own(f.node) if isinstance(n, ast.Subscript) and isinstance(n.ctx, ast.Load) and isinstance(n.value, ast.Name)
                         and n.value.id in same_len and not isinstance(n.slice, ast.Slice) and _const_index(n.slice) is None
                         and any(isinstance(x, ast.Name) for x in ast.walk(n.slice))]
        sites = sites + derived_sites
        if not sites:
            continue
        cfg = CFG(f)

        def nonempty_atoms(v):
            return {f"len({v}) > 0": True, f"len({v}) == 0": False, f"len({v})": True, f"{v}.empty": False, f"{v}.size": True,
                    f"{v}.size > 0": True, f"{v}.size == 0": False, f"len({v}) >= 1": True, f"len({v}) != 0": True}

        for s in sites:
            v = same_len.get(s.value.id, s.value.id)
            table = nonempty_atoms(v)

            # must-analysis: is v known non-empty?
            def transfer(n, st, v=v):
                from ..cfg import node_defs
                return False if v in node_defs(n) else st

            def edge(n, lab, st, table=table):
                if n.kind == "test" and lab in ("T", "F") and n.ast is not None:
                    at, pol = atom_of(n.ast)
                    if at in table:
                        truth = pol if lab == "T" else not pol
                        if truth == table[at]:
                            return True
                return st

            ins, _ = forward(cfg, False, transfer, edge=edge, join=lambda x, y: x and y)
            node = None
            for n in cfg.nodes:
                for e in node_exprs(n):
                    if any(x is s for x in ast.walk(e)):
                        node = n
            known = bool(node is not None and ins.get(node.id, False))
            # short-circuit guard inside the same expression: `len(v) and v[0]` / IfExp
            why = "non-emptiness established on every path" if known else None
            if not known:
                exc = _EMPTYIDX_EXCEPTIONS.get((q, norm(s)))
                if exc is not None:
                    reason, needle = exc
                    ok = any(isinstance(st_, ast.If) and needle in norm(st_.test) and any(isinstance(r, ast.Return) for b in st_.body for r in ast.walk(b))
                             and st_.lineno < s.lineno for st_ in walk_own(f.node))
                    if ok:
                        why = f"listed exception: {reason}"
            res.inst(f"{q}: {norm(s)}: {why or 'NOT guarded'}", f"{q}|{norm(s)}")
            if why is None:
                res.report(f"{q}|unguarded-end-element|{norm(s)}", f.where(s), q,
                           f"'{norm(s)}' is read on a path on which '{v}' may be empty (all labels missing, or none of the requested labels present): "
                           "pandas raises IndexError, an internal error for an input that map-reduce handles")
    return res


# ---------------------------------------------------------------------------------------------
# R-FILLNONE (C19, C05): the members of the reindex family agree about fill_value=None.
# reindex_numpy and the sparse kernel refuse a needed fill with ValueError('Filling is required').  Every other place in the family that
# writes the fill value into an array (np.full / np.full_like / a masked store) must be unreachable with fill_value None as well --
# np.full_like(lazy_array, None) does not raise: it yields a graph whose result is a function object.
def rule_fillnone(ctx) -> RuleResult:
    res = RuleResult("R-FILLNONE", "no member of the reindex family writes a fill value that may still be None", min_instances=2)
    from ..cfg import CFG, node_exprs, node_defs
    from ..dataflow import forward, atom_of
    fam = [q for q in ("core.reindex_", "core.reindex_numpy", "core.reindex_pydata_sparse_coo") if q in ctx.prog.funcs]
    if len(fam) < 2:
        raise AnalysisError("the reindex family (reindex_, reindex_numpy, ...) is gone (anchor)")
    for q in fam:
        f = ctx.prog.func(q)
        if "fill_value" not in f.params:
            continue
        cfg = CFG(f)

        def transfer(n, st):
            if "fill_value" in node_defs(n):
                a = n.ast
                if isinstance(a, ast.Assign) and isinstance(a.value, ast.Constant) and a.value.value is None:
                    return True
                return False          # rebound to a computed value (maybe_promote, array.fill_value)
            return st

        def edge(n, lab, st):
            if n.kind == "test" and lab in ("T", "F") and n.ast is not None:
                at, pol = atom_of(n.ast)
                if at == "fill_value is None":
                    truth = pol if lab == "T" else not pol
                    return True if truth else False
            return st

        ins, _ = forward(cfg, True, transfer, edge=edge, join=lambda x, y: x or y)
        for n in cfg.nodes:
            for e in node_exprs(n):
                for c in ast.walk(e):
                    sink = None
                    if isinstance(c, ast.Call) and norm(c.func) in ("np.full", "np.full_like", "numpy.full", "numpy.full_like"):
                        args = list(c.args[1:2]) + [k.value for k in c.keywords if k.arg == "fill_value"]
                        if any(isinstance(x, ast.Name) and x.id == "fill_value" for x in args):
                            sink = norm(c)[:60]
                    if sink is None:
                        continue
                    may_none = ins.get(n.id, True)
                    res.inst(f"{q}: {sink}: fill_value may be None here: {may_none}", f"{q}|{sink[:30]}")
                    if may_none:
                        res.report(f"{q}|fill-none|{sink[:30]}", f.where(c), q,
                                   f"'{sink}' can run with fill_value=None (the default): the sibling kernels refuse that with ValueError('Filling is required'), "
                                   "this site fills a NumPy float result with NaN, raises TypeError for integers, and for a lazy array builds a graph whose "
                                   "result is a function object")
            a = n.ast
            if n.kind == "stmt" and isinstance(a, ast.Assign) and len(a.targets) == 1 and isinstance(a.targets[0], ast.Subscript) \
                    and isinstance(a.value, ast.Name) and a.value.id == "fill_value":
                may_none = ins.get(n.id, True)
                res.inst(f"{q}: {norm(a)[:50]}: fill_value may be None here: {may_none}", f"{q}|{norm(a)[:30]}")
                if may_none:
                    res.report(f"{q}|fill-none|store", f.where(a), q, f"'{norm(a)[:60]}' can run with fill_value=None")
    return res


# ---------------------------------------------------------------------------------------------
# R-ALIGNED (C19): both API entry points refuse misaligned labels before any kernel or graph function runs.
# groupby_reduce does it with _assert_by_is_aligned; its sibling groupby_scan must do the equivalent, otherwise a label array of the wrong
# length reaches AlignedArrays / the kernels and fails with a bare AssertionError.
_KERNEL_ENTRIES = {"chunk_scan", "dask_groupby_scan", "_reduce_blockwise", "dask_groupby_agg", "cubed_groupby_agg"}


def rule_aligned(ctx) -> RuleResult:
    res = RuleResult("R-ALIGNED", "every API entry point refuses misaligned labels before a kernel or graph function runs", min_instances=2)
    from ..cfg import CFG, node_exprs
    for q in ("core.groupby_reduce", "core.groupby_scan"):
        f = ctx.prog.func(q)
        arr = f.params[0]
        cfg = CFG(f)
        dom = cfg.dominators()
        # validators: a call of _assert_by_is_aligned, or a test comparing a label shape with the array shape whose `if` raises ValueError
        val_nodes = {}
        for n in cfg.nodes:
            for e in node_exprs(n):
                for c in ast.walk(e):
                    if isinstance(c, ast.Call) and norm(c.func) == "_assert_by_is_aligned":
                        val_nodes[n.id] = "_assert_by_is_aligned(...)"
        for st in walk_own(f.node):
            if isinstance(st, ast.If) and any(isinstance(r, ast.Raise) and r.exc is not None and norm(r.exc.func if isinstance(r.exc, ast.Call) else r.exc) == "ValueError"
                                              for b in st.body for r in ast.walk(b)):
                t = norm(st.test)
                if ".shape" in t and f"{arr}.shape" in t and any(isinstance(c, ast.Compare) for c in ast.walk(st.test)):
                    for n in cfg.nodes:
                        if n.kind == "test" and n.ast is not None and any(x is n.ast for x in ast.walk(st.test)):
                            val_nodes[n.id] = t[:60]
        sinks = []
        for n in cfg.nodes:
            for e in node_exprs(n):
                for c in ast.walk(e):
                    if isinstance(c, ast.Call) and norm(c.func) in _KERNEL_ENTRIES:
                        sinks.append((n, c))
        if not sinks:
            raise AnalysisError(f"{q}: no call of a kernel / graph entry ({sorted(_KERNEL_ENTRIES)}) found (anchor)")
        for n, c in sinks:
            doms = [val_nodes[d] for d in dom.get(n.id, ()) if d in val_nodes]
            res.inst(f"{q}: {norm(c.func)}(...) dominated by an alignment refusal: {doms[:1] or False}", f"{q}|{norm(c.func)}")
            if not doms:
                res.report(f"{q}|unaligned-labels-reach-kernel|{norm(c.func)}", f.where(c), q,
                           f"'{norm(c.func)}(…)' is reached without a refusal of labels whose shape does not match the array (groupby_reduce uses "
                           "_assert_by_is_aligned): a label array of another length fails deep inside with a bare AssertionError / IndexError")
    return res


# ---------------------------------------------------------------------------------------------
# R-AUTOREFUSE (C19): the automatic plan is never one that the validation after it refuses while map-reduce is accepted.
# groupby_reduce calls _choose_method and then refuses some (data condition, method) combinations.  A refusal that spares "map-reduce"
# must be anticipated by _choose_method: on every path that returns a refusable method the data condition is known to be false.
# (Contradiction form: only conditions that _choose_method itself tests somewhere are armed; others are listed as UNDECIDED.)
_METHODS = {"map-reduce", "cohorts", "blockwise"}


def _method_constraint(leaf: ast.AST, var: str):
    """leaf over `var` -> set of refused method constants, or None"""
    if isinstance(leaf, ast.Compare) and len(leaf.ops) == 1 and isinstance(leaf.left, ast.Name) and leaf.left.id == var:
        op, r = leaf.ops[0], leaf.comparators[0]
        if isinstance(op, ast.In) and isinstance(r, (ast.List, ast.Tuple, ast.Set)):
            return {e.value for e in r.elts if isinstance(e, ast.Constant)}
        if isinstance(op, ast.Eq) and isinstance(r, ast.Constant):
            return {r.value}
        if isinstance(op, ast.NotEq) and isinstance(r, ast.Constant):
            return _METHODS - {r.value}
    return None


def rule_autorefuse(ctx) -> RuleResult:
    res = RuleResult("R-AUTOREFUSE", "the automatically chosen plan is never refused where map-reduce is accepted", min_instances=2)
    from ..cfg import CFG
    from ..dataflow import forward, atom_of
    gr = ctx.prog.func("core.groupby_reduce")
    cm = ctx.prog.func("core._choose_method")
    call = None
    for n in walk_own(gr.node):
        if isinstance(n, ast.Assign) and isinstance(n.value, ast.Call) and norm(n.value.func) == "_choose_method":
            call = n
    if call is None:
        raise AnalysisError("groupby_reduce no longer calls _choose_method (anchor)")
    mvar = call.targets[0].id if isinstance(call.targets[0], ast.Name) else "method"
    rename = {norm(a): p for p, a in zip(cm.params, call.value.args)}
    refusals = []
    for st in walk_own(gr.node):
        if isinstance(st, ast.If) and st.lineno > call.lineno and any(isinstance(r, ast.Raise) for b in st.body for r in ast.walk(b)):
            leaves = st.test.values if isinstance(st.test, ast.BoolOp) and isinstance(st.test.op, ast.And) else [st.test]
            S, data = None, []
            for lf in leaves:
                mc = _method_constraint(lf, mvar)
                if mc is not None:
                    S = mc if S is None else (S & mc)
                else:
                    data.append(lf)
            if S is None or "map-reduce" in S:
                continue          # refuses map-reduce too: consistent with the property
            refusals.append((st, S, data))
    if not refusals:
        res.notes.append("no refusal after _choose_method spares map-reduce: nothing to anticipate")
        res.min_instances = 0
        return res
    cfg = CFG(cm)

    def translate(e: ast.AST) -> str:
        t = norm(e)
        for a, p in sorted(rename.items(), key=lambda kv: -len(kv[0])):
            if a != p:
                t = t.replace(a, p)
        return t

    tested_atoms = {atom_of(n.ast)[0] for n in cfg.nodes if n.kind == "test" and n.ast is not None}
    # blueprints without a block decomposition (order statistics): 'agg.chunk == (None,)' and 'agg.chunk[0] is None' are the same predicate
    # for blueprint tuples (R-BLOCKONLY); groupby_reduce refuses every method but blockwise for them, map-reduce included
    order_stat_atoms = {"agg.chunk == (None,)", "agg.chunk[0] is None"}
    for st, S, data in refusals:
        atoms = [atom_of(ast.parse(translate(d), mode="eval").body) for d in data]
        armed = [(a, pol) for a, pol in atoms if a in tested_atoms]
        if not armed:
            res.inst(f"refusal '{norm(st.test)[:70]}' (methods {sorted(S)}): its data condition is not tested in _choose_method [UNDECIDED]", f"ref|{st.lineno}")
            res.notes.append(f"UNDECIDED: '{norm(st.test)[:80]}' -- _choose_method tests none of {[a for a, _ in atoms]}")
            continue
        names = {a for a, _ in armed}

        # path-sensitive: a state is a set of fact-sets (one per path class), so that "A false, or A true and B false" survives joins
        def transfer(n, stt):
            return stt

        def edge(n, lab, stt, names=names):
            if n.kind == "test" and lab in ("T", "F") and n.ast is not None:
                at, pol = atom_of(n.ast)
                if at in names or at in order_stat_atoms or " == '" in at:
                    truth = pol if lab == "T" else not pol
                    out = set()
                    for fs in stt:
                        d = dict(fs)
                        if at in d and d[at] != truth:
                            continue            # infeasible
                        d[at] = truth
                        out.add(frozenset(d.items()))
                    return frozenset(out) if out else None
            return stt

        ins, _ = forward(cfg, frozenset({frozenset()}), transfer, edge=edge, join=lambda x, y: x | y)
        for n in cfg.nodes:
            if n.kind != "return" or n.ast is None or n.ast.value is None:
                continue
            v = n.ast.value
            if isinstance(v, ast.Name) and v.id == cm.params[0]:
                continue            # the user's explicit method: refusing it is the refusal's job
            unsafe_paths, risky_all = [], set()
            for fs in ins.get(n.id, frozenset()):
                facts = dict(fs)
                if isinstance(v, ast.Constant):
                    vals = {v.value}
                elif isinstance(v, ast.Name):
                    vals = {m for m in _METHODS if facts.get(f"{v.id} == '{m}'", None) is not False}
                else:
                    vals = set(_METHODS)
                risky = vals & S
                if not risky:
                    continue
                # paths on which map-reduce is refused as well (order statistics: only blockwise is implemented) are outside the clause
                if any(facts.get(a) is True for a in order_stat_atoms):
                    continue
                if any((a in facts) and (facts[a] != pol) for a, pol in armed):
                    continue
                unsafe_paths.append(facts)
                risky_all |= risky
            res.inst(f"_choose_method: 'return {norm(v)}' vs refusal '{norm(st.test)[:50]}': unprotected path classes: {len(unsafe_paths)}",
                     f"ret|{n.ast.lineno}|{st.lineno}")
            if unsafe_paths:
                res.report(f"core._choose_method|auto-plan-refused|{norm(v)}", cm.where(n.ast), cm.qualname,
                           f"'return {norm(v)}' can hand {sorted(risky_all)} to groupby_reduce on a path on which "
                           f"{' and '.join(a if pol else 'not (' + a + ')' for a, pol in armed)} may hold "
                           f"(path facts: {sorted((k, val) for k, val in unsafe_paths[0].items())[:4]}); groupby_reduce then refuses it "
                           f"('{norm(st.test)[:60]}') although method='map-reduce' is accepted for the same input")
    return res


# ---------------------------------------------------------------------------------------------
# R-AUTOPARAM (C19): a plan-specific refusal keyed on a USER PARAMETER is anticipated when the plan is chosen automatically.
# The graph constructor (dask_groupby_agg) and the stated belief in _validate_reindex refuse "method in S and D(param)" for plans S that
# exclude map-reduce (reindex=True under cohorts / blockwise).  _choose_method never sees that parameter, so the caller must keep the
# automatic choice away from S whenever D may hold: the guard that lets find_group_cohorts propose a plan has, in every disjunct for
# `method is None`, a leaf over the same parameter with the opposite polarity; with preferred_method pinned to "map-reduce" no auto path of
# _choose_method may return a plan in S (order-statistics paths, on which map-reduce is refused too, are outside the clause).
def _flat(test: ast.AST, op) -> list:
    return list(test.values) if isinstance(test, ast.BoolOp) and isinstance(test.op, op) else [test]


def _plan_refusals(f, mparam: str):
    """(if-statement, refused plans S, data leaves) for every `if` of f that directly raises and constrains the plan parameter"""
    par = parents_map(f.node)
    out = []
    for st in walk_own(f.node):
        if not (isinstance(st, ast.If) and any(isinstance(b, ast.Raise) for b in st.body)):
            continue
        leaves = _flat(st.test, ast.And)
        cur = st
        for a in ancestors(st, par):
            if isinstance(a, ast.If) and any(cur is b for b in a.body):
                leaves = _flat(a.test, ast.And) + leaves
            if isinstance(a, (ast.If, ast.For, ast.While, ast.With, ast.Try)):
                cur = a
            if a is f.node:
                break
        S, data = None, []
        for lf in leaves:
            mc = _method_constraint(lf, mparam)
            if mc is None and isinstance(lf, ast.BoolOp) and isinstance(lf.op, ast.Or):
                parts = [[_method_constraint(x, mparam) for x in _flat(d, ast.And)] for d in lf.values]
                if all(any(c is not None for c in ps) for ps in parts):
                    mc = set()
                    for ps in parts:
                        one = None
                        for c in ps:
                            if c is not None:
                                one = c if one is None else (one & c)
                        mc |= one
            if mc is not None:
                S = mc if S is None else (S & mc)
            else:
                data.append(lf)
        if S and "map-reduce" not in S:
            out.append((st, S, data))
    return out


def rule_autoparam(ctx) -> RuleResult:
    res = RuleResult("R-AUTOPARAM", "plan-specific refusals keyed on a user parameter are anticipated by the automatic plan choice", min_instances=2)
    from ..cfg import CFG
    from ..dataflow import forward, atom_of
    gr = ctx.prog.func("core.groupby_reduce")
    cm = ctx.prog.func("core._choose_method")
    call = None
    for n in walk_own(gr.node):
        if isinstance(n, ast.Assign) and isinstance(n.value, ast.Call) and norm(n.value.func) == "_choose_method":
            call = n
    if call is None or len(call.value.args) < 2:
        raise AnalysisError("groupby_reduce no longer calls _choose_method(method, preferred_method, ...) (anchor)")
    mvar = norm(call.value.args[0])
    pref = norm(call.value.args[1])
    # callees that refuse plans after the choice, with the binding of their parameters to the caller's expressions
    partials = {}
    for n in walk_own(gr.node):
        if isinstance(n, ast.Assign) and isinstance(n.value, ast.Call) and norm(n.value.func) in ("partial", "functools.partial") and n.value.args \
                and isinstance(n.targets[0], ast.Name):
            partials[n.targets[0].id] = norm(n.value.args[0])
    sources = []
    for n in walk_own(gr.node):
        if not (isinstance(n, ast.Call) and getattr(n, "lineno", 0) > call.lineno):
            continue
        name = partials.get(norm(n.func), norm(n.func))
        if name not in ("dask_groupby_agg", "_validate_reindex"):
            continue
        f = ctx.prog.func(f"core.{name}")
        bind = {p: a for p, a in zip(f.params, n.args)}
        bind.update({k.arg: k.value for k in n.keywords if k.arg})
        mparam = next((p for p, a in bind.items() if norm(a) == mvar), None)
        if mparam is None:
            continue
        sources.append((f, bind, mparam))
    if not any(f.qualname.endswith("dask_groupby_agg") for f, _, _ in sources):
        raise AnalysisError("groupby_reduce no longer hands the chosen method to dask_groupby_agg (anchor)")
    # options, not data: the keyword-only parameters of the entry point (the array and the labels are not something the chooser could 'consult')
    user_params = {a.arg for a in gr.node.args.kwonlyargs} or set(gr.params[1:])
    # the statement that decides whether find_group_cohorts may propose a plan
    chooser = None
    for st in walk_own(gr.node):
        if isinstance(st, ast.If) and st.lineno < call.lineno and st.orelse:
            def assigned(block):
                vals = []
                for b in block:
                    for x in ast.walk(b):
                        if isinstance(x, ast.Assign):
                            for t in x.targets:
                                tl = t.elts if isinstance(t, ast.Tuple) else [t]
                                for i, e in enumerate(tl):
                                    if isinstance(e, ast.Name) and e.id == pref:
                                        vals.append(x.value)
                return vals
            b, o = assigned(st.body), assigned(st.orelse)
            if b and o and all(isinstance(v, ast.Constant) and v.value == "map-reduce" for v in o) and not any(isinstance(v, ast.Constant) for v in b):
                chooser = st
    if chooser is None:
        raise AnalysisError(f"groupby_reduce: no 'if …: {pref} = find_group_cohorts(…) else: {pref} = \"map-reduce\"' before _choose_method (anchor)")
    auto_disjuncts = [_flat(d, ast.And) for d in _flat(chooser.test, ast.Or)]
    auto_disjuncts = [d for d in auto_disjuncts if any(norm(x) == f"{mvar} is None" for x in d)]
    if not auto_disjuncts:
        raise AnalysisError("the preferred-plan guard has no 'method is None' disjunct (anchor)")
    anticipated_S = set()
    for f, bind, mparam in sources:
        for st, S, data in _plan_refusals(f, mparam):
            for lf in data:
                # locals that normalise a parameter (reindex_ = reindex if isinstance(...) else Strategy(blockwise=reindex)) count as that parameter
                roots = {norm(bind[x]).split(".")[0].split("[")[0] for x in (names_in(lf) | (_dep_names(f, lf) & set(f.params))) if x in bind}
                roots = {r for r in roots if r in user_params and r != mvar}
                if not roots:
                    continue
                _, dpol = atom_of(lf)
                ok = True
                for d in auto_disjuncts:
                    if not any((names_in(x) & roots) and atom_of(x)[1] != dpol for x in d):
                        ok = False
                res.inst(f"{f.qualname}: refusal '{norm(st.test)[:60]}' (plans {sorted(S)}) on user parameter {sorted(roots)} via '{norm(lf)}': "
                         f"anticipated by the preferred-plan guard: {ok}", f"{f.qualname}|{sorted(S)}|{norm(lf)}")
                if ok:
                    anticipated_S |= S
                else:
                    res.report(f"core.groupby_reduce|auto-plan-ignores-user-param|{'+'.join(sorted(roots))}|{'+'.join(sorted(S))}", gr.where(chooser), gr.qualname,
                               f"with method=None the plan proposed by find_group_cohorts can be {sorted(S)}, which {f.name} refuses when '{norm(lf)}' holds "
                               f"('{norm(st.test)[:70]}'); that condition is the user's `{'/'.join(sorted(roots))}` and neither _choose_method nor the guard "
                               f"'{norm(chooser.test)[:70]}' consults it, although method='map-reduce' accepts the same request")
    if anticipated_S:
        # with the proposal pinned to map-reduce, no automatic path of _choose_method may still return a refusable plan
        prm = cm.params[1]
        seed = frozenset({(f"{prm} == 'map-reduce'", True)} | {(f"{prm} == '{m}'", False) for m in _METHODS - {"map-reduce"}})
        cfg = CFG(cm)
        order_stat_atoms = {"agg.chunk == (None,)", "agg.chunk[0] is None"}

        def edge(n, lab, stt):
            if n.kind == "test" and lab in ("T", "F") and n.ast is not None:
                at, pol = atom_of(n.ast)
                if at in order_stat_atoms or at.startswith(f"{prm} == '"):
                    truth = pol if lab == "T" else not pol
                    out = set()
                    for fs in stt:
                        d = dict(fs)
                        if at in d and d[at] != truth:
                            continue
                        d[at] = truth
                        out.add(frozenset(d.items()))
                    return frozenset(out) if out else None
            return stt

        ins, _ = forward(cfg, frozenset({seed}), lambda n, stt: stt, edge=edge, join=lambda x, y: x | y)
        for n in cfg.nodes:
            if n.kind != "return" or n.ast is None or n.ast.value is None:
                continue
            v = n.ast.value
            if isinstance(v, ast.Name) and v.id == cm.params[0]:
                continue
            bad = []
            for fs in ins.get(n.id, frozenset()):
                facts = dict(fs)
                if any(facts.get(a) is True for a in order_stat_atoms):
                    continue
                if isinstance(v, ast.Constant):
                    vals = {v.value}
                elif isinstance(v, ast.Name) and v.id == prm:
                    vals = {"map-reduce"}
                else:
                    vals = set(_METHODS)
                if vals & anticipated_S:
                    bad.append(facts)
            res.inst(f"_choose_method: 'return {norm(v)}' with the proposal pinned to 'map-reduce': feasible path classes returning a plan in {sorted(anticipated_S)}: {len(bad)}",
                     f"pinned|{norm(v)}")
            if bad:
                res.report(f"core._choose_method|pinned-proposal-overridden|{norm(v)}", cm.where(n.ast), cm.qualname,
                           f"'return {norm(v)}' is reachable with {prm}='map-reduce' (facts {sorted(bad[0].items())[:3]}): the automatic choice can still be a plan in "
                           f"{sorted(anticipated_S)} that is refused for an explicit reindex=True")
    return res


# ---------------------------------------------------------------------------------------------
# R-EMPTYCOHORTS (C19, C09): the planner never proposes a plan that needs cohorts together with an empty cohort map.
# Stated belief: dask_groupby_agg refuses `method == "cohorts"` when `not chunks_cohorts`; _choose_method turns a proposed "blockwise" into
# "cohorts" for arg reductions without looking at the map.  So every `return <plan other than "map-reduce">, <map>` of find_group_cohorts
# whose map is computed (not a non-empty literal) must be dominated by an absence guard: an `if` that tests emptiness of something the map
# is computed from (`not M.any()`, `len(M) == 0`, `M.size == 0`, `not M`) and leaves with the "map-reduce" proposal.
def _dep_names(f, e: ast.AST) -> set[str]:
    """names e is computed from, transitively and flow-insensitively: assignments, item stores (X[k] = v), in-place updates (X.update(v)) and loop targets"""
    deps: dict[str, set[str]] = {}
    for a in walk_own(f.node):
        if isinstance(a, (ast.Assign, ast.AugAssign, ast.AnnAssign)) and a.value is not None:
            for t in (a.targets if isinstance(a, ast.Assign) else [a.target]):
                for x in ([t] if not isinstance(t, (ast.Tuple, ast.List)) else t.elts):
                    if isinstance(x, ast.Name):
                        deps.setdefault(x.id, set()).update(names_in(a.value))
                    elif isinstance(x, ast.Subscript) and isinstance(x.value, ast.Name):
                        deps.setdefault(x.value.id, set()).update(names_in(a.value) | names_in(x.slice))
        elif isinstance(a, ast.For):
            for x in ast.walk(a.target):
                if isinstance(x, ast.Name):
                    deps.setdefault(x.id, set()).update(names_in(a.iter))
        elif isinstance(a, ast.Call) and isinstance(a.func, ast.Attribute) and isinstance(a.func.value, ast.Name) and a.func.attr in ("update", "append", "extend", "add"):
            for arg in a.args:
                deps.setdefault(a.func.value.id, set()).update(names_in(arg))
    out, work = set(), list(names_in(e))
    while work:
        nm = work.pop()
        if nm in out:
            continue
        out.add(nm)
        work.extend(deps.get(nm, ()))
    return out


def rule_emptycohorts(ctx) -> RuleResult:
    res = RuleResult("R-EMPTYCOHORTS", "the planner proposes blockwise/cohorts only with a non-empty cohort map", min_instances=2)
    from ..cfg import CFG
    dg = ctx.prog.func("core.dask_groupby_agg")
    belief = None
    for st in walk_own(dg.node):
        if isinstance(st, ast.If) and any(isinstance(b, ast.Raise) for b in st.body) and isinstance(st.test, ast.UnaryOp) and isinstance(st.test.op, ast.Not) \
                and isinstance(st.test.operand, ast.Name) and "cohort" in st.test.operand.id:
            belief = st
    if belief is None:
        res.notes.append("dask_groupby_agg no longer refuses an empty cohort map: nothing to anticipate")
        res.min_instances = 0
        return res
    f = ctx.prog.func("core.find_group_cohorts")
    cfg = CFG(f)
    dom = cfg.dominators()
    rets = [n for n in cfg.nodes if n.kind == "return" and n.ast is not None and isinstance(n.ast.value, ast.Tuple) and len(n.ast.value.elts) == 2]
    if len(rets) < 3:
        raise AnalysisError("find_group_cohorts no longer returns (plan, cohorts) pairs (anchor)")

    def empties(test: ast.AST) -> set[str]:
        """names whose emptiness makes the test true"""
        out = set()
        t = test
        if isinstance(t, ast.UnaryOp) and isinstance(t.op, ast.Not):
            o = t.operand
            if isinstance(o, ast.Call) and isinstance(o.func, ast.Attribute) and o.func.attr in ("any", "sum") and not o.args:
                out |= names_in(o.func.value)
            elif isinstance(o, (ast.Name, ast.Attribute)) or (isinstance(o, ast.Call) and norm(o.func) == "len"):
                out |= names_in(o)
        if isinstance(t, ast.Compare) and len(t.ops) == 1 and isinstance(t.ops[0], ast.Eq) and isinstance(t.comparators[0], ast.Constant) and t.comparators[0].value == 0:
            l = t.left
            if (isinstance(l, ast.Call) and norm(l.func) == "len") or (isinstance(l, ast.Attribute) and l.attr in ("size", "nnz")) \
                    or (isinstance(l, ast.Call) and isinstance(l.func, ast.Attribute) and l.func.attr == "sum"):
                out |= names_in(l)
        return out - {"len"}

    guards = []
    for st in walk_own(f.node):
        if isinstance(st, ast.If) and st.body and isinstance(st.body[-1], ast.Return) and isinstance(st.body[-1].value, ast.Tuple) \
                and isinstance(st.body[-1].value.elts[0], ast.Constant) and st.body[-1].value.elts[0].value == "map-reduce":
            em = empties(st.test)
            if em:
                inner = {id(x) for x in ast.walk(st.test)}
                tn = next((n for n in cfg.nodes if n.kind == "test" and n.ast is not None and id(n.ast) in inner), None)
                if tn is not None:
                    guards.append((tn, em, st))
    for r in rets:
        plan, cmap = r.ast.value.elts
        if isinstance(plan, ast.Constant) and plan.value == "map-reduce":
            continue
        if isinstance(cmap, ast.Dict) and cmap.keys:
            res.inst(f"find_group_cohorts: 'return {norm(plan)}, {norm(cmap)[:30]}': literal non-empty map", f"ret|{norm(plan)}|literal")
            continue
        clo_names = _dep_names(f, cmap)
        ok = [norm(st.test) for tn, em, st in guards if tn.id in dom.get(r.id, ()) and (em & clo_names)]
        res.inst(f"find_group_cohorts: 'return {norm(plan)}, {norm(cmap)[:30]}': dominated by an absence guard: {ok[:1] or False}", f"ret|{norm(plan)}|{norm(cmap)[:30]}")
        if not ok:
            res.report(f"core.find_group_cohorts|plan-with-empty-cohorts|{norm(plan)}", f.where(r.ast), f.qualname,
                       f"'return {norm(plan)}, {norm(cmap)[:40]}' can hand out an empty cohort map (no requested label present in `by`): no dominating `if <nothing present>: "
                       f"return \"map-reduce\", …` tests what the map is computed from; _choose_method then turns the proposal into 'cohorts' for arg reductions and "
                       f"dask_groupby_agg refuses it ('{norm(belief.test)}'), although method='map-reduce' returns the all-fill result")
    return res


# ---------------------------------------------------------------------------------------------
# R-AXISORDER (C08, C02, C19): the user's axis tuple is put in ascending order before the stages that address it by position.
# The combine stages and the cohorts layer use `axis[:-1]`, `axis[-1]`, `axis[0]` ("the last entry is the last reduced axis; the others come
# before the dummy axis").  With `axis=None` groupby_reduce builds the tuple ascending; the explicit branch takes the user's order from
# normalize_axis_tuple.  Sibling agreement: both branches must hand out an ascending tuple, i.e. the explicit one passes through
# sorted / np.sort / np.unique (an axis tuple is a set of axes for every NumPy reduction).
def rule_axisorder(ctx) -> RuleResult:
    res = RuleResult("R-AXISORDER", "an explicit axis tuple is sorted before stages that address the reduced axes by position", min_instances=2)
    from .codes import _local_closure
    prog = ctx.prog
    positional = []
    for q, f in sorted(prog.funcs.items()):
        if isinstance(f.node, ast.Lambda) or not q.startswith("core."):
            continue
        for s_ in walk_own(f.node):
            if isinstance(s_, ast.Subscript) and isinstance(s_.value, ast.Name) and s_.value.id in ("axis", "axis_") and s_.value.id in f.params + ["axis_"] \
                    and (isinstance(s_.slice, ast.Slice) or isinstance(s_.slice, (ast.Constant, ast.UnaryOp))):
                positional.append((q, f, s_))
    for q, f, s_ in positional:
        res.inst(f"{q}: positional use {norm(s_)}", f"pos|{q}|{norm(s_)}")
    if not positional:
        res.notes.append("no stage addresses the axis tuple by position: rule not applicable")
        res.min_instances = 0
        return res
    for q in ("core.groupby_reduce",):
        f = prog.func(q)
        srcs = [a for a in walk_own(f.node) if isinstance(a, ast.Assign) and len(a.targets) == 1 and isinstance(a.targets[0], ast.Name)
                and any(isinstance(c, ast.Call) and norm(c.func).endswith("normalize_axis_tuple") for c in ast.walk(a.value))]
        if not srcs:
            raise AnalysisError(f"{q}: the explicit axis is no longer normalised with normalize_axis_tuple (anchor)")
        for a in srcs:
            var = a.targets[0].id
            # later re-bindings of the same variable from itself count (axis_ = tuple(sorted(axis_)))
            chain = [a.value] + [b.value for b in walk_own(f.node) if isinstance(b, ast.Assign) and len(b.targets) == 1 and norm(b.targets[0]) == var
                                 and b is not a and var in names_in(b.value) and b.lineno > a.lineno and b.lineno < a.lineno + 8]
            ordered = any(isinstance(c, ast.Call) and norm(c.func) in ("sorted", "np.sort", "numpy.sort", "np.unique", "numpy.unique") for v in chain for c in ast.walk(v))
            res.inst(f"{q}: '{var} = {norm(a.value)[:60]}': put in ascending order: {ordered}", f"src|{q}|{var}")
            if not ordered:
                res.report(f"{q}|axis-tuple-unsorted", f.where(a), q,
                           f"'{var} = {norm(a.value)[:60]}' keeps the user's order, but {len(positional)} stage(s) address the tuple by position "
                           f"(e.g. {positional[0][0]}: '{norm(positional[0][2])}'): axis=(1, 0) on a dask array fails inside the combine with \"duplicate value in 'axis'\" "
                           "(or 'adjust_chunks' for cohorts) although the eager call and axis=(0, 1) work")
    return res


# ---------------------------------------------------------------------------------------------
# R-NORMFORM (C19): refusals test the normalised form of an option that has two spellings.
# `reindex` may be a bool or a ReindexStrategy; _validate_reindex normalises it (`N = P if isinstance(P, C) else C(field=P)`).  A refusal whose
# guard looks at the raw parameter (`P is True`) only sees one spelling: the other passes validation and fails later with an internal error.
# Every refusal of a function that contains such a normalisation must be keyed on the normalised local, not on the raw parameter.
def rule_normform(ctx) -> RuleResult:
    res = RuleResult("R-NORMFORM", "refusals keyed on an option with two spellings test its normalised form", min_instances=1)
    prog = ctx.prog
    found = 0
    for q, f in sorted(prog.funcs.items()):
        if isinstance(f.node, ast.Lambda) or f.is_overload:
            continue
        norms = []     # (param, normalised local, class)
        for st in walk_own(f.node):
            t = None
            if isinstance(st, ast.If) and isinstance(st.test, ast.Call) and norm(st.test.func) == "isinstance" and len(st.test.args) == 2 \
                    and isinstance(st.test.args[0], ast.Name) and st.test.args[0].id in f.params and st.orelse:
                P, C = st.test.args[0].id, norm(st.test.args[1])
                b = [a for a in st.body if isinstance(a, ast.Assign) and len(a.targets) == 1 and isinstance(a.targets[0], ast.Name) and norm(a.value) == P]
                o = [a for a in st.orelse if isinstance(a, ast.Assign) and len(a.targets) == 1 and isinstance(a.targets[0], ast.Name)
                     and isinstance(a.value, ast.Call) and norm(a.value.func) == C and P in names_in(a.value)]
                if b and o and b[0].targets[0].id == o[0].targets[0].id:
                    t = (P, b[0].targets[0].id, C, st)
            if isinstance(st, ast.Assign) and isinstance(st.value, ast.IfExp) and len(st.targets) == 1 and isinstance(st.targets[0], ast.Name):
                ie = st.value
                if isinstance(ie.test, ast.Call) and norm(ie.test.func) == "isinstance" and len(ie.test.args) == 2 and isinstance(ie.test.args[0], ast.Name) \
                        and ie.test.args[0].id in f.params and norm(ie.body) == ie.test.args[0].id and isinstance(ie.orelse, ast.Call) and norm(ie.orelse.func) == norm(ie.test.args[1]):
                    t = (ie.test.args[0].id, st.targets[0].id, norm(ie.test.args[1]), st)
            if t:
                norms.append(t)
        if not norms:
            continue
        found += 1
        for P, N, C, where in norms:
            par = parents_map(f.node)
            for st in walk_own(f.node):
                if not (isinstance(st, ast.If) and any(isinstance(b, ast.Raise) for b in st.body)):
                    continue
                leaves = _flat(st.test, ast.And)
                cur = st
                for a in ancestors(st, par):
                    if isinstance(a, ast.If) and any(cur is b for b in a.body):
                        leaves = _flat(a.test, ast.And) + leaves
                    if isinstance(a, (ast.If, ast.For, ast.While, ast.With, ast.Try)):
                        cur = a
                    if a is f.node:
                        break
                # a leaf may test a local flag (wants = N.field is True): follow locals back to the raw parameter / the normalised local
                def deps(lf):
                    return names_in(lf) | _dep_names(f, lf)
                normed = [lf for lf in leaves if N in deps(lf)]
                raw = [lf for lf in leaves if P in deps(lf) and N not in deps(lf) and not (isinstance(lf, ast.Call) and norm(lf.func) == "isinstance")]
                if not raw and not normed:
                    continue
                res.inst(f"{q}: refusal '{norm(st.test)[:50]}' keyed on the normalised '{N}': {bool(normed) and not raw}", f"{q}|{st.lineno}")
                # laziness clause: the function is told about laziness through several flags (is_dask_array, any_by_dask); the chunked pipeline runs
                # when ANY of them is set, so a refusal of an unsupported strategy must depend on all of them (as the sibling default-strategy branch does)
                lazy_params = [p_ for p_ in f.params if "dask" in p_ or "chunked" in p_ or "lazy" in p_]
                if len(lazy_params) > 1 and normed:
                    # direct names plus one level of local flags (all_eager = not is_dask_array and not any_by_dask); the normalised local itself is
                    # not expanded (its other assignments mention the flags for unrelated reasons)
                    local_defs = {a.targets[0].id: a.value for a in walk_own(f.node)
                                  if isinstance(a, ast.Assign) and len(a.targets) == 1 and isinstance(a.targets[0], ast.Name) and a.targets[0].id != N}
                    alld = set()
                    for lf in leaves:
                        for nm in names_in(lf):
                            alld.add(nm)
                            if nm in local_defs:
                                alld |= names_in(local_defs[nm])
                    missing = [p_ for p_ in lazy_params if p_ not in alld]
                    if any(p_ in alld for p_ in lazy_params):
                        res.inst(f"{q}: refusal at line {st.lineno} depends on every laziness flag {lazy_params}: {not missing}", f"{q}|lazy|{st.lineno}")
                        if missing:
                            res.report(f"{q}|refusal-ignores-laziness-flag|{'+'.join(missing)}", f.where(st), q,
                                       f"the refusal '{norm(st.test)[:60]}' is taken only for some lazy inputs: it does not depend on {missing}, although the chunked "
                                       "pipeline also runs when only the labels are lazy (numpy values + dask labels): the unsupported request then runs and fails inside "
                                       "the graph (AssertionError) or returns a wrong answer")
                if raw:
                    res.report(f"{q}|refusal-on-raw-spelling|{P}|{norm(raw[0])[:30]}", f.where(st), q,
                               f"the refusal '{norm(st.test)[:60]}' is guarded by '{norm(raw[0])}', a test of the raw parameter `{P}`, although the function normalises "
                               f"`{P}` to a {C} ('{N}'): the other spelling ({C}(…) instead of the plain value) passes validation and the unsupported request "
                               "fails later with an internal error instead of this refusal")
    if not found:
        res.notes.append("no option is normalised from two spellings in the package: rule not applicable")
        res.min_instances = 0
    return res


# ---------------------------------------------------------------------------------------------
# R-BLOCKBCAST (C07, C19): a blockwise plan on a dask array sees labels of the array's full trailing shape.
# _unify_chunks keeps a size-1 dimension of numpy labels as ONE chunk of size 1 (the kernels broadcast it block by block), which is fine for the
# tree plans.  The blockwise plan lists the labels of every *block* eagerly, and rechunk_for_blockwise indexes the labels by array position:
# both need one label per array element.  Path-sensitive: on every path of groupby_reduce from the plan choice to (a) rechunk_for_blockwise
# and (b) the graph constructor on which `method == "blockwise"` may hold with in-memory labels, either the labels were re-bound to
# np.broadcast_to(labels, array.shape[-labels.ndim:]) or the path knows that the shapes already agree.
def rule_blockbcast(ctx) -> RuleResult:
    res = RuleResult("R-BLOCKBCAST", "a blockwise plan on a dask array receives labels broadcast to the array's trailing shape", min_instances=2)
    from ..cfg import CFG, node_defs, node_exprs
    from ..dataflow import forward, atom_of
    uc = ctx.prog.funcs.get("core._unify_chunks")
    keeps_size1 = uc is not None and any(isinstance(n, ast.IfExp) and ".shape[" in norm(n.test) and "1" in norm(n.test) for n in ast.walk(uc.node))
    if not keeps_size1:
        res.notes.append("_unify_chunks no longer keeps size-1 label dimensions as a single chunk: labels reach the graph in full shape, rule not applicable")
        res.min_instances = 0
        return res
    gr = ctx.prog.func("core.groupby_reduce")
    call = None
    for n in walk_own(gr.node):
        if isinstance(n, ast.Assign) and isinstance(n.value, ast.Call) and norm(n.value.func) == "_choose_method":
            call = n
    if call is None:
        raise AnalysisError("groupby_reduce no longer calls _choose_method (anchor)")
    mvar = norm(call.targets[0])
    partials = {n.targets[0].id: norm(n.value.args[0]) for n in walk_own(gr.node)
                if isinstance(n, ast.Assign) and isinstance(n.value, ast.Call) and norm(n.value.func) in ("partial", "functools.partial")
                and n.value.args and isinstance(n.targets[0], ast.Name)}
    # sinks: (call, labels expression)
    sinks = []
    for n in walk_own(gr.node):
        if isinstance(n, ast.Call) and getattr(n, "lineno", 0) > call.lineno:
            name = partials.get(norm(n.func), norm(n.func))
            if name == "rechunk_for_blockwise":
                lab = kwarg(n, "labels") or (n.args[2] if len(n.args) > 2 else None)
                sinks.append((n, lab, name))
            elif name == "dask_groupby_agg":
                lab = kwarg(n, "by") or (n.args[1] if len(n.args) > 1 else None)
                sinks.append((n, lab, name))
    if not any(nm == "dask_groupby_agg" for _, _, nm in sinks):
        raise AnalysisError("groupby_reduce: the call of the dask graph constructor was not found after _choose_method (anchor)")
    labs = {norm(l) for _, l, _ in sinks if isinstance(l, ast.Name)}
    if len(labs) != 1:
        raise AnalysisError(f"groupby_reduce: the blockwise sinks do not share one labels variable ({sorted(labs)})")
    lv = labs.pop()
    arr = next((norm(kwarg(n, "array") or n.args[0]) for n, _, nm in sinks if nm == "dask_groupby_agg" and (kwarg(n, "array") is not None or n.args)), "array")
    A_BLOCK = f"{mvar} == 'blockwise'"
    A_DASK = "any_by_dask"

    def is_shape_atom(at: str) -> bool:
        return at.startswith(f"{lv}.shape == {arr}.shape[") or at.startswith(f"{arr}.shape[") and at.endswith(f"== {lv}.shape")

    def is_bcast(v) -> bool:
        return isinstance(v, ast.Call) and norm(v.func) in ("np.broadcast_to", "numpy.broadcast_to") and len(v.args) >= 2 \
            and norm(v.args[0]) == lv and norm(v.args[1]).startswith(f"{arr}.shape[")

    cfg = CFG(gr)

    def transfer(n, stt):
        ds = node_defs(n)
        if not ds & {lv, mvar, A_DASK}:
            return stt
        out = set()
        for fs in stt:
            d = dict(fs)
            if mvar in ds:
                d.pop(A_BLOCK, None)
            if A_DASK in ds:
                d.pop(A_DASK, None)
            if lv in ds:
                for k in [k for k in d if is_shape_atom(k)]:
                    del d[k]
                a = n.ast
                d["<bcast>"] = bool(n.kind == "stmt" and isinstance(a, ast.Assign) and is_bcast(a.value))
            out.add(frozenset(d.items()))
        return frozenset(out)

    def edge(n, lab, stt):
        if n.kind == "test" and lab in ("T", "F") and n.ast is not None:
            at, pol = atom_of(n.ast)
            if at in (A_BLOCK, A_DASK) or is_shape_atom(at):
                truth = pol if lab == "T" else not pol
                out = set()
                for fs in stt:
                    d = dict(fs)
                    if at in d and d[at] != truth:
                        continue
                    d[at] = truth
                    out.add(frozenset(d.items()))
                return frozenset(out) if out else None
        return stt

    ins, _ = forward(cfg, frozenset({frozenset()}), transfer, edge=edge, join=lambda x, y: x | y)
    from ..dataflow import node_containing
    for c, lab, name in sinks:
        node = node_containing(cfg, c)
        if node is None:
            continue
        bad = []
        for fs in ins.get(node.id, frozenset()):
            d = dict(fs)
            if d.get(A_BLOCK) is False or d.get(A_DASK) is True or d.get("<bcast>") is True:
                continue
            if any(is_shape_atom(k) and v is True for k, v in d.items()):
                continue
            bad.append(d)
        res.inst(f"groupby_reduce: {name}(…, labels={lv}) -- path classes on which a blockwise plan may see un-broadcast labels: {len(bad)} of {len(ins.get(node.id, ()))}",
                 f"sink|{name}")
        if bad:
            res.report(f"core.groupby_reduce|blockwise-sees-unbroadcast-labels|{name}", gr.where(c), gr.qualname,
                       f"'{name}' can be reached with {mvar} == 'blockwise' and in-memory labels '{lv}' whose size-1 dimensions were never broadcast to "
                       f"{arr}.shape[-{lv}.ndim:] (path facts {sorted(bad[0].items())[:4]}): the plan lists labels per block / indexes them by array position, so "
                       "labels of shape (1,) against several blocks give IndexError or a result whose length contradicts its declared shape")
    return res


# ---------------------------------------------------------------------------------------------
# R-BLOCKLABELS (C16): the labels announced for a block are listed in the order in which the block's reduction yields them.
# With method='blockwise' (no re-indexing) dask_groupby_agg computes the labels of every block eagerly and concatenates them; the values of
# the block come from chunk_reduce, which orders its groups by `sort` (sorted, or first appearance).  The eager label list must follow the
# same flag: a helper that always sorts pairs values with the wrong labels when sort=False and a block's labels are not ascending
# (the missing-label code -1 sorts first but can appear anywhere).
def rule_blocklabels(ctx) -> RuleResult:
    res = RuleResult("R-BLOCKLABELS", "per-block label lists follow the same sort flag as the blocks' reductions", min_instances=1)
    f = ctx.prog.func("core.dask_groupby_agg")
    if "sort" not in f.params:
        raise AnalysisError("dask_groupby_agg lost its sort parameter (anchor)")
    from .codes import _local_closure
    conc = _per_block_concats(f)
    if not conc:
        res.notes.append("blockwise labels are no longer a concatenation of per-block label lists: rule not applicable")
        res.min_instances = 0
        return res
    for c in conc:
        src = c.args[0].id
        clo = _local_closure(f, c.args[0])
        uses_sort = any("sort" in names_in(e) for e in clo)
        always_sorted = any((isinstance(x, ast.Call) and norm(x.func) in ("_unique", "np.unique", "np.sort", "sorted"))
                            or (isinstance(x, (ast.Name, ast.Attribute)) and norm(x) in ("_unique", "np.unique", "np.sort", "sorted"))
                            for e in clo for x in ast.walk(e))
        res.inst(f"dask_groupby_agg: per-block labels '{src}' = {norm(clo[1])[:60] if len(clo) > 1 else '?'}: depends on sort: {uses_sort}; uses a sorting helper: {always_sorted}",
                 f"labels|{src}")
        if always_sorted and not uses_sort:
            res.report("core.dask_groupby_agg|block-labels-ignore-sort", f.where(c), f.qualname,
                       f"the labels announced for each block ('{src}') are always sorted, but the block's values are ordered by chunk_reduce according to `sort`: "
                       "with sort=False (first-appearance order) a block whose labels do not first appear in ascending order -- e.g. a missing label, coded -1, "
                       "that is not the block's first element -- has its values paired with the wrong labels (method='blockwise')")
    # block-order clause: the concatenated label lists are laid next to the blocks' results in BLOCK order, so every definition of the per-block
    # sequence walks the blocks (their slices) -- never the values of a mapping that happens to have one entry per block (the cohort map is ordered
    # by each cohort's smallest label)
    for c in conc:
        src = c.args[0].id
        defs = [a for a in walk_own(f.node) if isinstance(a, ast.Assign) and any(isinstance(t, ast.Name) and t.id == src for t in a.targets)]
        for a in defs:
            comps = [x for x in ast.walk(a.value) if isinstance(x, (ast.GeneratorExp, ast.ListComp))]
            for comp in comps[:1]:
                it = comp.generators[0].iter
                mapping_view = isinstance(it, ast.Call) and isinstance(it.func, ast.Attribute) and it.func.attr in ("values", "items", "keys")
                res.inst(f"dask_groupby_agg: '{src}' built by walking '{norm(it)[:40]}': a view of a mapping: {mapping_view}", f"order|{src}|{norm(it)[:30]}")
                if mapping_view:
                    res.report(f"core.dask_groupby_agg|block-labels-from-a-mapping|{norm(it)[:30]}", f.where(a), f.qualname,
                               f"'{norm(a)[:70]}' takes the per-block label lists from '{norm(it)[:40]}': a mapping's order is its insertion / sort order (the cohort map is "
                               "ordered by each cohort's smallest label), not the order of the blocks, whose results are concatenated next to these labels -- blocks that hold "
                               "their labels in non-ascending order get their values announced under other labels")
    # the same obligation for the label entry of every result dictionary in the combine step: values come out of chunk_reduce(sort=sort),
    # so the "groups" stored next to them may not come from an always-sorting helper that ignores `sort`
    SORTERS = ("_unique", "_find_unique_groups", "np.unique", "np.sort", "sorted")
    for q in ("core._grouped_combine", "core._simple_combine"):
        g = ctx.prog.funcs.get(q)
        if g is None or "sort" not in g.params:
            continue
        for st in walk_own(g.node):
            vals = []
            if isinstance(st, ast.Assign):
                for t in st.targets:
                    if isinstance(t, ast.Subscript) and isinstance(t.slice, ast.Constant) and t.slice.value == "groups":
                        vals.append(st.value)
                if isinstance(st.value, ast.Dict):
                    for k, v in zip(st.value.keys, st.value.values):
                        if isinstance(k, ast.Constant) and k.value == "groups":
                            vals.append(v)
            for v in vals:
                if isinstance(v, ast.Constant) and v.value is None:
                    continue
                # locals bound directly to the result of an always-sorting helper, used as *data* (not only for .dtype/.shape) in the stored value
                helper_vars = {}
                for a in walk_own(g.node):
                    if isinstance(a, ast.Assign) and len(a.targets) == 1 and isinstance(a.targets[0], ast.Name) and isinstance(a.value, ast.Call) \
                            and norm(a.value.func) in SORTERS:
                        helper_vars[a.targets[0].id] = norm(a.value.func)
                meta_nodes = {id(x.value) for x in ast.walk(v) if isinstance(x, ast.Attribute) and x.attr in ("dtype", "shape", "ndim", "size")
                              and isinstance(x.value, ast.Name)}
                data_names = {x.id for x in ast.walk(v) if isinstance(x, ast.Name) and id(x) not in meta_nodes}
                always = sorted({helper_vars[nm] for nm in data_names if nm in helper_vars}
                                | {norm(x.func) for x in ast.walk(v) if isinstance(x, ast.Call) and norm(x.func) in SORTERS})
                uses_sort = "sort" in names_in(v)
                res.inst(f"{q}: result labels '{norm(v)[:50]}': from an always-sorting helper: {always or False}; depends on sort: {uses_sort}", f"{q}|{st.lineno}")
                if always and not uses_sort:
                    res.report(f"{q}|result-labels-ignore-sort", g.where(st), q,
                               f"the labels stored with the combined values ('{norm(v)[:60]}') come from {always[0]}, which always sorts, while the values are "
                               "produced by chunk_reduce(..., sort=sort): with sort=False every label carries another label's value")
    return res


# ---------------------------------------------------------------------------------------------
# R-AXISRANGE (C19, C08): groupby_reduce only reduces along axes that the labels cover.
# The labels are aligned with the *trailing* dimensions of the array.  An `axis` outside them cannot be honoured without broadcasting the
# labels; the kernels simply collapse the last len(axis) dimensions, so axis=0 with 1-D labels silently reduces along the label axis instead.
# A refusal relating the axis entries to array.ndim - <labels>.ndim must dominate every kernel / graph entry.
def rule_axisrange(ctx) -> RuleResult:
    res = RuleResult("R-AXISRANGE", "an axis outside the dimensions covered by the labels is refused before any kernel runs", min_instances=1)
    from ..cfg import CFG, node_exprs
    f = ctx.prog.func("core.groupby_reduce")
    arr = f.params[0]
    cfg = CFG(f)
    dom = cfg.dominators()
    guards = {}
    for st in walk_own(f.node):
        if not (isinstance(st, ast.If) and any(isinstance(r, ast.Raise) and r.exc is not None
                                                and norm(r.exc.func if isinstance(r.exc, ast.Call) else r.exc) in ("ValueError", "NotImplementedError")
                                                for b in st.body for r in ast.walk(b))):
            continue
        t = norm(st.test)
        ndims = [x for x in ast.walk(st.test) if isinstance(x, ast.Attribute) and x.attr == "ndim"]
        bases = {norm(x.value) for x in ndims}
        has_lower_bound = any(isinstance(c, ast.Compare) and any(isinstance(o, (ast.Lt, ast.LtE, ast.Gt, ast.GtE)) for o in c.ops) for c in ast.walk(st.test))
        if arr in bases and len(bases) >= 2 and "ax" in t and has_lower_bound and any(isinstance(x, (ast.GeneratorExp, ast.ListComp)) for x in ast.walk(st.test)):
            for n in cfg.nodes:
                if n.kind == "test" and n.ast is not None and any(x is n.ast for x in ast.walk(st.test)):
                    guards[n.id] = t[:70]
    sinks = []
    for n in cfg.nodes:
        for e in node_exprs(n):
            for c in ast.walk(e):
                if isinstance(c, ast.Call) and norm(c.func) in _KERNEL_ENTRIES:
                    sinks.append((n, c))
    if not sinks:
        raise AnalysisError("core.groupby_reduce: no kernel / graph entry call found (anchor)")
    for n, c in sinks:
        # the refusal sits on the `axis is not None` arm: it dominates modulo that test; accept a guard whose enclosing if-arm is the
        # else-arm of a test on the axis parameter, or a plain dominator
        ok = [g for d, g in guards.items() if d in dom.get(n.id, ())]
        if not ok and guards:
            pm = parents_map(f.node)
            for st in walk_own(f.node):
                if isinstance(st, ast.If) and "axis is None" in norm(st.test):
                    inner = [x for b in st.orelse for x in ast.walk(b) if isinstance(x, ast.If) and norm(x.test)[:70] in guards.values()]
                    if inner and any(cfg.nodes[d].kind == "test" and cfg.nodes[d].ast is not None and any(x is cfg.nodes[d].ast for x in ast.walk(st.test))
                                     for d in dom.get(n.id, ())):
                        ok = [norm(inner[0].test)[:70] + "  [on the 'axis is not None' arm; axis=None means all label axes]"]
        res.inst(f"groupby_reduce: {norm(c.func)}(...) preceded by an axis-range refusal: {ok[:1] or False}", f"sink|{norm(c.func)}")
        if not ok:
            res.report(f"core.groupby_reduce|axis-outside-labels|{norm(c.func)}", f.where(c), f.qualname,
                       f"'{norm(c.func)}(…)' is reached without a refusal of axes that the labels do not cover (ax < {arr}.ndim - <labels>.ndim): "
                       "groupby_reduce(array(3, 4), labels(4,), axis=0) silently reduces along the label axis, the same answer as axis=-1")
    return res


# ---------------------------------------------------------------------------------------------
# R-QRANGE (C18, C19): quantile levels outside [0, 1] are refused before any kernel sees them.
# The flox quantile kernel turns q into partition indices *relative to the start of each group*: a negative q reads the members of the
# neighbouring group and returns a plausible-looking number (NumPy raises ValueError).  groupby_reduce already refuses a missing q in
# the block that handles quantile / nanquantile; the same block must bound q on both sides.
def rule_qrange(ctx) -> RuleResult:
    res = RuleResult("R-QRANGE", "quantile levels are bounded to [0, 1] on both sides before the kernels run", min_instances=1)
    from .codes import _local_closure
    f = ctx.prog.func("core.groupby_reduce")
    blocks = [st for st in walk_own(f.node) if isinstance(st, ast.If) and "quantile" in norm(st.test) and "func" in names_in(st.test)]
    if not blocks:
        raise AnalysisError("groupby_reduce: the block handling func in ['quantile', 'nanquantile'] is gone (anchor)")
    for b in blocks:
        lower = upper = False
        for st in ast.walk(b):
            if isinstance(st, ast.If) and any(isinstance(r, ast.Raise) for r in ast.walk(st)):
                for e in _local_closure(f, st.test):
                    for c in ast.walk(e):
                        if isinstance(c, ast.Compare) and len(c.ops) == 1 and isinstance(c.comparators[0], ast.Constant):
                            ltxt = " ".join(norm(x) for x in _local_closure(f, c.left))
                            if "len(" in ltxt or not ("'q'" in ltxt or "q" in names_in(c.left)):
                                continue        # a test on the *number* of levels, or on something else
                            k, op = c.comparators[0].value, c.ops[0]
                            if k == 0 and isinstance(op, (ast.GtE, ast.Lt, ast.Gt, ast.LtE)):
                                lower = True
                            if k == 1 and isinstance(op, (ast.LtE, ast.Gt, ast.Lt, ast.GtE)):
                                upper = True
        res.inst(f"groupby_reduce: quantile block bounds q below by 0: {lower}; above by 1: {upper}", f"q|{b.lineno}")
        if not (lower and upper):
            side = "on either side" if not (lower or upper) else ("below (q < 0)" if not lower else "above (q > 1)")
            res.report("core.groupby_reduce|quantile-level-unbounded", f.where(b), f.qualname,
                       f"the quantile levels are not bounded {side} before the reduction runs: with engine='flox' a negative q indexes into the neighbouring "
                       "group and a plausible number comes back (quantile of [1, 5 | 2, 9 | 4, 7] at q=-0.5 gives [4.0, 3.5, 6.5]); NumPy raises ValueError")
    return res


# ---------------------------------------------------------------------------------------------
# R-DTYPENORM (C19, C11): a user-supplied dtype is normalised with np.dtype before anything asks for its .kind.
# `dtype` may be a string ('float32'), a scalar type (np.float32) or an np.dtype.  groupby_reduce hands it to _initialize_aggregation, which
# normalises it; the sibling entry point groupby_scan must do the same before the value (or a blueprint slot holding it) reaches code that
# reads dtype.kind / itemsize (xrdtypes._get_fill_value): otherwise 'str' object has no attribute 'kind'.
def rule_dtypenorm(ctx) -> RuleResult:
    res = RuleResult("R-DTYPENORM", "every API entry point normalises the user's dtype with np.dtype before it is inspected", min_instances=2)
    prog = ctx.prog
    for q in ("core.groupby_reduce", "core.groupby_scan"):
        f = prog.func(q)
        if "dtype" not in f.params:
            res.inst(f"{q}: no dtype parameter", q)
            continue
        own = [c for c in calls_in(f.node) if norm(c.func) in ("np.dtype", "numpy.dtype") and c.args and "dtype" in names_in(c.args[0])]
        via = []
        for c in calls_in(f.node):
            g = prog.funcs.get(f"aggregations.{norm(c.func)}") or prog.funcs.get(f"core.{norm(c.func)}")
            if g is None or "dtype" not in g.params:
                continue
            passes = any(isinstance(a, ast.Name) and a.id == "dtype" for a in c.args) or any(k.arg == "dtype" and isinstance(k.value, ast.Name) and k.value.id == "dtype" for k in c.keywords)
            if passes and any(norm(x.func) in ("np.dtype", "numpy.dtype") and x.args and "dtype" in names_in(x.args[0]) for x in calls_in(g.node)):
                via.append(g.qualname)
        # does this function (not a callee that normalises) inspect the dtype or store it into a blueprint slot that is inspected?
        stores = [a for a in walk_own(f.node) if isinstance(a, ast.Assign) and any(isinstance(t, ast.Attribute) and t.attr == "dtype" for t in a.targets)
                  and "dtype" in names_in(a.value)]
        ok = bool(own) or (bool(via) and not stores)
        res.inst(f"{q}: np.dtype(dtype) here: {bool(own)}; in a callee that receives it: {sorted(set(via)) or False}; stored raw into a blueprint slot here: {bool(stores)}", q)
        if not ok:
            res.report(f"{q}|dtype-not-normalised", f.where(stores[0]) if stores else f.where(), q,
                       "the user's `dtype` is stored / inspected without np.dtype(...): a string or scalar-type dtype ('float32', np.float32) reaches code that "
                       "reads dtype.kind (xrdtypes._get_fill_value) and fails with AttributeError; the sibling entry point normalises it")
    return res


# ---------------------------------------------------------------------------------------------
# R-ABSENTMASK (C05, C07, C02): the count mask that delivers the user's fill is switched on for every source of absent output slots.
# An output slot can exist without any member for three reasons (confirmed by reading groupby_reduce): the reduction keeps some label axes
# (every kept slice has the full label set), the caller requested labels (expected_groups), or several groupers span the PRODUCT of their
# labels (combinations that never occur).  With a user fill the implicit min_count must become 1 in all three cases, otherwise the slot shows
# the reduction's identity (eager NaN, chunked 0 / -inf) and the fill is ignored.  The guard of the `min_count_ = 1` default is checked for
# one leaf per reason.
_ABSENT_REASONS = {
    "partial-axis reduction": lambda t: "nax" in t and "ndim" in t,
    "requested labels": lambda t: "provided_expected" in t or "expected_groups is not None" in t,
    "several groupers (product grid)": lambda t: "nby" in t or "len(bys)" in t or "len(by)" in t or "factorize_early" in t,
}


def rule_absentmask(ctx) -> RuleResult:
    res = RuleResult("R-ABSENTMASK", "the implicit count mask covers every source of absent output slots", min_instances=3)
    f = ctx.prog.func("core.groupby_reduce")
    site = None
    for st in walk_own(f.node):
        if isinstance(st, ast.If) and any(isinstance(a, (ast.Assign, ast.AnnAssign)) and "min_count" in norm(a.targets[0] if isinstance(a, ast.Assign) else a.target)
                                          and isinstance(a.value, ast.Constant) and a.value.value == 1 for a in st.body):
            site = st
    if site is None:
        raise AnalysisError("groupby_reduce: the default 'min_count_ = 1' branch was not found (anchor)")
    multi = any(isinstance(c, ast.Call) and norm(c.func) == "_factorize_multiple" for c in ast.walk(f.node))
    # a leaf that names a local flag (bound once, to a boolean expression) stands for that expression
    flags = {}
    for a in walk_own(f.node):
        if isinstance(a, ast.Assign) and len(a.targets) == 1 and isinstance(a.targets[0], ast.Name) and isinstance(a.value, (ast.BoolOp, ast.Compare)) and a.lineno < site.lineno:
            flags.setdefault(a.targets[0].id, []).append(a.value)
    leaves = []
    work = [site.test]
    seen = set()
    while work:
        e = work.pop()
        if isinstance(e, ast.BoolOp):
            work.extend(e.values)
        elif isinstance(e, ast.Name) and len(flags.get(e.id, ())) == 1 and e.id not in seen:
            seen.add(e.id)
            work.append(flags[e.id][0])
        else:
            leaves.append(norm(e))
    for reason, pred in _ABSENT_REASONS.items():
        if reason.startswith("several") and not multi:
            continue
        ok = any(pred(t) for t in leaves)
        res.inst(f"groupby_reduce: default min_count guard '{norm(site.test)[:70]}' covers '{reason}': {ok}", f"reason|{reason}")
        if not ok:
            res.report(f"core.groupby_reduce|absent-slots-unmasked|{reason.split()[0]}", f.where(site), f.qualname,
                       f"the guard '{norm(site.test)[:80]}' that turns the count mask on does not consider {reason}: such slots have no member, "
                       "so without the mask they show the reduction's identity (eager NaN, chunked 0 or -inf for max) and the user's fill_value is ignored")
    return res


# ---------------------------------------------------------------------------------------------
# R-PASSTHROUGH[options] (C05, C16, C02): the xarray entry point hands the user's options to groupby_reduce unchanged.
# xarray_reduce collects the options in a dict and its per-variable wrapper forwards them with **kwargs.  The wrapper may rename `func` (the
# skipna convention) but may not rewrite any option on the way: a store `kwargs[<name>] = ...` (or a pop / del / update) inside the wrapper
# silently changes min_count / fill_value / sort / ... for one entry point only -- xarray_reduce and groupby_reduce then disagree on the same
# request.
def rule_passthrough_options(ctx) -> RuleResult:
    res = RuleResult("R-PASSTHROUGH[options]", "the xarray wrapper forwards the options it was given to groupby_reduce unchanged", min_instances=1)
    cands = [f for q, f in ctx.prog.funcs.items() if q.startswith("xarray.xarray_reduce.") and any(isinstance(c, ast.Call) and norm(c.func) == "groupby_reduce" for c in ast.walk(f.node))]
    if not cands:
        raise AnalysisError("xarray.xarray_reduce: the nested wrapper that calls groupby_reduce was not found (anchor)")
    for f in cands:
        node = f.node
        kwname = node.args.kwarg.arg if getattr(node.args, "kwarg", None) else None
        call = next(c for c in ast.walk(node) if isinstance(c, ast.Call) and norm(c.func) == "groupby_reduce")
        forwards = kwname is not None and any(k.arg is None and norm(k.value) == kwname for k in call.keywords)
        res.inst(f"{f.qualname}: groupby_reduce(…, **{kwname}) forwards the collected options: {forwards}", f"{f.qualname}|forward")
        if not forwards:
            res.report(f"{f.qualname}|options-not-forwarded", f.where(call), f.qualname, "the wrapper no longer forwards the collected options with **kwargs")
            continue
        writes = []
        for x in walk_own(node):
            if isinstance(x, (ast.Assign, ast.AugAssign)):
                for t in (x.targets if isinstance(x, ast.Assign) else [x.target]):
                    if isinstance(t, ast.Subscript) and isinstance(t.value, ast.Name) and t.value.id == kwname:
                        writes.append((x, norm(t.slice)))
                    if isinstance(t, ast.Name) and t.id == kwname:
                        writes.append((x, "<rebound>"))
            if isinstance(x, ast.Delete) and any(isinstance(t, ast.Subscript) and norm(t.value) == kwname for t in x.targets):
                writes.append((x, "<del>"))
            if isinstance(x, ast.Call) and isinstance(x.func, ast.Attribute) and isinstance(x.func.value, ast.Name) and x.func.value.id == kwname \
                    and x.func.attr in ("pop", "update", "setdefault", "clear", "popitem"):
                writes.append((x, f".{x.func.attr}(…)"))
        res.inst(f"{f.qualname}: stores into the options dict before the call: {len(writes)}", f"{f.qualname}|writes")
        for x, key in writes:
            res.report(f"{f.qualname}|option-rewritten|{key}", f.where(x), f.qualname,
                       f"'{norm(x)[:60]}' rewrites the option {key} inside the per-variable wrapper: xarray_reduce then runs groupby_reduce with another value than the caller "
                       "gave (min_count dropped for non-skipping reductions, say), so the two entry points answer the same request differently")
    return res


# ---------------------------------------------------------------------------------------------
# R-KWPASS (C18): the finalizer's keyword arguments reach it with the content the caller gave.
# `finalize_kwargs` carries the requested quantile levels `q`; the kernel, the new leading dimension and NumPy's oracle all answer one row per
# *given* level, in the given order, repeated levels included.  The blueprint's copy must therefore be a whole-value copy, and any later
# store into a key of that dict must be an elementwise conversion (a comprehension without filter, np.asarray/tuple/list of the old value):
# a store computed through a de-duplicating or reordering constructor (set, dict.fromkeys, np.unique, sorted, np.sort) or a filtered
# comprehension changes the number or order of the rows.
_RESHAPING = {"set", "frozenset", "dict.fromkeys", "np.unique", "pd.unique", "sorted", "np.sort", "np.argsort", "np.clip", "np.round", "round", "np.around"}


def rule_kwpass(ctx) -> RuleResult:
    res = RuleResult("R-KWPASS", "finalize_kwargs reach the finalizer with the caller's content: whole-value copy, no reshaping rewrite of a key", min_instances=1)
    prog = ctx.prog
    init = prog.func("aggregations._initialize_aggregation")
    copies = [a for a in walk_own(init.node) if isinstance(a, ast.Assign) and len(a.targets) == 1 and norm(a.targets[0]).endswith(".finalize_kwargs")]
    if not copies:
        raise AnalysisError("_initialize_aggregation no longer binds <blueprint>.finalize_kwargs (anchor)")
    for a in copies:
        v = a.value
        whole = (isinstance(v, ast.Name) and v.id == "finalize_kwargs") or \
                (isinstance(v, ast.Call) and norm(v.func) in ("copy.deepcopy", "deepcopy", "copy.copy", "dict") and len(v.args) == 1 and norm(v.args[0]) == "finalize_kwargs" and not v.keywords) or \
                (isinstance(v, ast.Dict) and len(v.keys) == 1 and v.keys[0] is None and norm(v.values[0]) == "finalize_kwargs")
        res.inst(f"_initialize_aggregation: '{norm(a)[:70]}' is a whole-value copy of the caller's dict: {whole}", f"copy|{norm(v)[:40]}")
        if not whole:
            res.report("aggregations._initialize_aggregation|finalize-kwargs-not-copied-whole", init.where(a), init.qualname,
                       f"'{norm(a)[:80]}' does not bind the caller's finalize_kwargs as a whole: the finalizer runs with other arguments than were given")
    for q, f in sorted(prog.funcs.items()):
        if isinstance(f.node, ast.Lambda):
            continue
        for x in walk_own(f.node):
            tgt = val = None
            if isinstance(x, ast.Assign) and len(x.targets) == 1 and isinstance(x.targets[0], ast.Subscript) and "finalize_kwargs" in norm(x.targets[0].value):
                tgt, val = x.targets[0], x.value
            elif isinstance(x, ast.Call) and isinstance(x.func, ast.Attribute) and x.func.attr in ("update", "pop", "setdefault", "clear", "popitem") \
                    and norm(x.func.value).endswith("finalize_kwargs") and not q.startswith("xarray."):
                tgt, val = x.func, x
            if tgt is None:
                continue
            calls = {norm(c.func) for c in ast.walk(val) if isinstance(c, ast.Call)}
            filtered = any(isinstance(c, (ast.GeneratorExp, ast.ListComp, ast.SetComp)) and (isinstance(c, ast.SetComp) or any(g.ifs for g in c.generators)) for c in ast.walk(val))
            method_sort = any(isinstance(c, ast.Call) and isinstance(c.func, ast.Attribute) and c.func.attr in ("sort", "unique", "drop_duplicates", "clip", "round") for c in ast.walk(val))
            reshaping = sorted(calls & _RESHAPING) + (["filtered comprehension"] if filtered else []) + (["sort/unique method"] if method_sort else [])
            key = norm(tgt.slice) if isinstance(tgt, ast.Subscript) else f".{tgt.attr}()"
            res.inst(f"{q}: store into finalize_kwargs[{key}]: reshaping constructors: {reshaping or 'none'}", f"{q}|store|{key}")
            if reshaping or not isinstance(tgt, ast.Subscript):
                res.report(f"{q}|finalize-kwargs-rewritten|{key}", f.where(x), q,
                           f"'{norm(x)[:90]}' rewrites the caller's finalizer argument {key} through {reshaping or 'a dict mutation'}: the number / order of the requested "
                           "levels changes (quantile with q=[0.25, 0.75, 0.25] returns 2 rows where np.quantile returns 3)")
            else:
                res.notes.append(f"{q}: store into finalize_kwargs[{key}] is taken as an elementwise conversion ('{norm(val)[:60]}')")
    return res


# ---------------------------------------------------------------------------------------------
# R-SLOTFILL (C06, C04): the padding sentinel of every intermediate is resolved against THAT intermediate's dtype.
# A blueprint has one dtype and one fill sentinel (INF / NINF / NA / a number) per intermediate.  For the position reductions the slots differ
# from the final dtype: the block extreme is floating (NINF -> -inf), the position is np.intp (the final dtype).  Resolving the extreme's
# sentinel against the final dtype gives iinfo(intp).min -- a *finite* padding that a real member below it loses against -- so the resolution
# must take its dtype from the parallel tuple agg.dtype["intermediate"], slot by slot (zip / a shared index).
def rule_slotfill(ctx) -> RuleResult:
    res = RuleResult("R-SLOTFILL", "each intermediate's fill sentinel is resolved against that intermediate's own dtype (slot-aligned)", min_instances=1)
    f = ctx.prog.func("aggregations._initialize_aggregation")
    stores = [a for a in walk_own(f.node) if isinstance(a, ast.Assign) and len(a.targets) == 1
              and norm(a.targets[0]).replace('"', "'").endswith(".fill_value['intermediate']")]
    if not stores:
        raise AnalysisError("_initialize_aggregation no longer resolves <blueprint>.fill_value['intermediate'] (anchor)")
    IDT = ".dtype['intermediate']"
    for a in stores:
        calls = [c for c in ast.walk(a.value) if isinstance(c, ast.Call) and norm(c.func).split(".")[-1] == "_get_fill_value" and c.args]
        if not calls:
            res.inst(f"'{norm(a)[:60]}': no sentinel resolution in this store", f"store|{a.lineno}")
            continue
        # comprehension targets -> what they iterate over (zip positions resolved)
        origin: dict[str, str] = {}
        for comp in ast.walk(a.value):
            if isinstance(comp, (ast.GeneratorExp, ast.ListComp)):
                for g in comp.generators:
                    it = g.iter
                    if isinstance(it, ast.Call) and norm(it.func) == "zip" and isinstance(g.target, ast.Tuple) and len(g.target.elts) == len(it.args):
                        for t, src in zip(g.target.elts, it.args):
                            if isinstance(t, ast.Name):
                                origin[t.id] = norm(src).replace('"', "'")
                    elif isinstance(g.target, ast.Name):
                        origin[g.target.id] = norm(it).replace('"', "'")
        for c in calls:
            d = c.args[0]
            src = origin.get(d.id) if isinstance(d, ast.Name) else norm(d).replace('"', "'")
            ok = src is not None and (src.endswith(IDT) or (IDT + "[") in src)
            res.inst(f"_initialize_aggregation: '{norm(c)[:60]}' takes its dtype from {src or norm(d)}: slot-aligned with the intermediates: {ok}", f"resolve|{norm(c)[:40]}")
            if not ok:
                res.report("aggregations._initialize_aggregation|intermediate-sentinel-resolved-against-other-dtype", f.where(c), f.qualname,
                           f"'{norm(c)[:70]}' resolves the padding sentinel of an intermediate against '{src or norm(d)}', not against that intermediate's dtype "
                           "(agg.dtype['intermediate'][i]): for argmax the block extreme is float64 but the final dtype is intp, so NINF becomes -9.2e18 instead of -inf and "
                           "the padding of a block without the group beats real members below it (nanargmax([nan, nan | -1e19, -3e19]) returns the padded block's position)")
    return res


# ---------------------------------------------------------------------------------------------
# R-FINALIZERUN (C04): a blueprint's finalizer runs whenever it has one.
# The tree plans merge the intermediates and then `_finalize_results` applies `agg.finalize`.  The only legitimate way round it is the
# blueprint having no finalizer (`agg.finalize is None`: the built-in single-intermediate reductions, and the blockwise path, which computes
# the final value directly and clears the slot).  A user-supplied Aggregation may have ONE intermediate and a finalizer (a Euclidean norm:
# chunk sum_of_squares, combine sum, finalize sqrt), so the number of intermediates says nothing: every store of a raw intermediate as the
# result must be implied by `agg.finalize is None`.
def rule_finalizerun(ctx) -> RuleResult:
    res = RuleResult("R-FINALIZERUN", "the merged intermediates go through the blueprint's finalizer unless it has none", min_instances=2)
    f = ctx.prog.func("core._finalize_results")
    aggp = next((p for p in f.params if p == "agg"), None)
    if aggp is None:
        raise AnalysisError("_finalize_results lost its `agg` parameter (anchor)")
    pm = parents_map(f.node)
    n_run = 0
    for a in walk_own(f.node):
        if not (isinstance(a, ast.Assign) and len(a.targets) == 1 and isinstance(a.targets[0], ast.Subscript) and norm(a.targets[0].value) == "finalized"
                and norm(a.targets[0].slice) == "agg.name"):
            continue
        runs = any(isinstance(c, ast.Call) and norm(c.func) == "agg.finalize" for c in ast.walk(a.value))
        if any(isinstance(x, ast.Subscript) and norm(x) == "finalized[agg.name]" for x in ast.walk(a.value)):
            continue      # a later cast / mask / reindex of the value already stored
        facts = guard_facts(a, pm)
        if runs:
            n_run += 1
            res.inst(f"_finalize_results: '{norm(a)[:70]}' applies the finalizer", f"run|{a.lineno}")
            continue
        implied = ("agg.finalize is None", True) in facts or ("agg.finalize is not None", False) in facts or ("agg.finalize", False) in facts
        res.inst(f"_finalize_results: '{norm(a)[:70]}' hands a raw intermediate on; implied by 'agg.finalize is None': {implied} (facts: {sorted(map(str, facts))[:3]})",
                 f"raw|{norm(a.value)[:40]}")
        if not implied:
            res.report("core._finalize_results|finalizer-skipped", f.where(a), f.qualname,
                       f"'{norm(a)[:70]}' returns a merged intermediate as the result on a path where the blueprint may have a finalizer (the enclosing tests do not imply "
                       "'agg.finalize is None'): a user Aggregation(chunk='sum_of_squares', combine='sum', finalize=np.sqrt) returns the sum of squares on chunked input, "
                       "the norm on in-memory input")
    if n_run == 0:
        raise AnalysisError("_finalize_results no longer calls agg.finalize (anchor)")
    return res


# ---------------------------------------------------------------------------------------------
# R-SEMNEUTRAL (C12, C05): what is asked of the blueprint does not depend on where the data live.
# groupby_reduce turns the user's request into the arguments of `_initialize_aggregation` (func, dtype, fill_value, the implicit min_count,
# finalize_kwargs); everything after that is plan-specific execution.  "Eager and chunked give the same mapping" therefore needs those
# arguments to be decided without consulting chunkedness or the plan: no assignment that reaches them -- value or enclosing test, through
# locals -- reads any_by_dask / has_dask / has_cubed / is_duck_dask_array(...) / method / reindex.
_CHUNKY = {"any_by_dask", "by_is_dask", "has_dask", "has_cubed", "is_duck_dask_array", "is_duck_cubed_array", "is_chunked_array", "method", "reindex", "preferred_method"}


def rule_semneutral(ctx) -> RuleResult:
    res = RuleResult("R-SEMNEUTRAL", "the request handed to the blueprint (func, dtype, fill_value, implicit min_count) is decided without consulting chunkedness or the plan", min_instances=3)
    f = ctx.prog.func("core.groupby_reduce")
    init = next((c for c in calls_in(f.node) if norm(c.func).split(".")[-1] == "_initialize_aggregation"), None)
    if init is None:
        raise AnalysisError("groupby_reduce no longer calls _initialize_aggregation (anchor)")
    pm = parents_map(f.node)
    # flag closure: names, followed through locals that hold a *flag* (bound to a boolean expression / predicate call) -- not through arrays,
    # whose flow-insensitive history (by_ is re-bound in plan-specific branches further down) says nothing about this decision
    flagdefs: dict[str, list] = {}
    for a in walk_own(f.node):
        if isinstance(a, (ast.Assign, ast.AnnAssign)) and a.value is not None:
            for t in (a.targets if isinstance(a, ast.Assign) else [a.target]):
                if isinstance(t, ast.Name) and (isinstance(a.value, (ast.BoolOp, ast.Compare)) or (isinstance(a.value, ast.UnaryOp) and isinstance(a.value.op, ast.Not))
                                                or (isinstance(a.value, ast.Call) and norm(a.value.func).split(".")[-1] in ("any", "all", "bool", "is_duck_dask_array", "is_duck_cubed_array", "is_chunked_array"))):
                    flagdefs.setdefault(t.id, []).append(a.value)

    def flag_closure(e) -> set[str]:
        out, work = set(), list(names_in(e))
        while work:
            nm = work.pop()
            if nm in out:
                continue
            out.add(nm)
            for v in flagdefs.get(nm, ()):
                work.extend(names_in(v))
        return out

    requested = [a.id for a in init.args if isinstance(a, ast.Name)] + [k.value.id for k in init.keywords if isinstance(k.value, ast.Name)]
    for name in requested:
        stores = [a for a in walk_own(f.node) if isinstance(a, (ast.Assign, ast.AnnAssign)) and a.value is not None
                  and any(isinstance(t, ast.Name) and t.id == name for t in (a.targets if isinstance(a, ast.Assign) else [a.target])) and a.lineno < init.lineno]
        if not stores:
            res.inst(f"groupby_reduce: `{name}` reaches the blueprint as given", f"{name}|param")
            continue
        for a in stores:
            deps = flag_closure(a.value) - {name}
            tests = []
            cur, child = pm.get(id(a)), a
            while cur is not None and cur is not f.node:
                if isinstance(cur, (ast.If, ast.While)):
                    tests.append(cur.test)
                elif isinstance(cur, ast.IfExp):
                    tests.append(cur.test)
                child, cur = cur, pm.get(id(cur))
            for t in tests:
                deps |= flag_closure(t)
            hit = sorted(deps & _CHUNKY)
            res.inst(f"groupby_reduce: '{norm(a)[:50]}' (line of `{name}`) depends on chunkedness / plan names: {hit or 'none'}", f"{name}|{norm(a)[:40]}")
            if hit:
                res.report(f"core.groupby_reduce|request-depends-on-chunkedness|{name}|{'+'.join(hit)}", f.where(a), f.qualname,
                           f"'{norm(a)[:60]}' decides `{name}` -- an argument of _initialize_aggregation -- from {hit}: the same call then asks a different reduction of a "
                           "chunked input than of an in-memory one (an all-NaN group gets fill_value from dask labels and the reduction's own value eagerly)")
    return res


# ---------------------------------------------------------------------------------------------
# R-PREDFAMILY (C11, C19): the `_is_*_reduction(func: T_Agg)` predicates treat both spellings of a reduction alike.
# `func` may be a name or an Aggregation object (flox.aggregations.max_ is a legal argument).  Every predicate of the family either turns the
# object into its name (`if isinstance(func, Aggregation): func = func.name`) or tests the object explicitly; one that only recognises strings
# answers False for the object spelling, and groupby_reduce then treats `func=max_` differently from `func="max"` (bool data come back int64).
def rule_predfamily(ctx) -> RuleResult:
    res = RuleResult("R-PREDFAMILY", "the _is_*_reduction predicates handle the name and the Aggregation spelling alike", min_instances=4)
    import re
    for q, f in sorted(ctx.prog.funcs.items()):
        if not re.fullmatch(r"core\._is_\w+_reduction", q) or len(f.params) != 1:
            continue
        p = f.params[0]
        handles_obj = any(isinstance(c, ast.Call) and norm(c.func) == "isinstance" and len(c.args) == 2 and norm(c.args[0]) == p and "Aggregation" in norm(c.args[1])
                          for c in ast.walk(f.node))
        # delegation alone (e.g. `not _is_arg_reduction(func) and isinstance(func, str) ...`) does not count: the string test after it still rejects the object
        string_only = any(isinstance(c, ast.Call) and norm(c.func) == "isinstance" and len(c.args) == 2 and norm(c.args[0]) == p and norm(c.args[1]) == "str"
                          for c in ast.walk(f.node)) and not handles_obj
        res.inst(f"{q}: handles an Aggregation object itself: {handles_obj}", q)
        if not handles_obj:
            res.report(f"{q}|string-spelling-only", f.where(), q,
                       f"{q} never looks at an Aggregation object" + (" (it requires isinstance(func, str))" if string_only else "") + ", unlike its siblings, which turn the "
                       "object into its name: for func=flox.aggregations.max_ it answers False, so e.g. bool data reduced with the object come back int64 where "
                       "func='max' returns bool")
    return res


# ---------------------------------------------------------------------------------------------
# R-SCANMISSING (C10, C19): the scan entry point refuses missing labels for the kernels that have no slot for them.
# Missing labels are coded -1.  The fill kernels keep -1 as a group of its own; the cumulative-sum kernel (numpy_groupies) rejects negative
# codes -- in memory with its own "negative indices not supported", on a chunked array with an IndexError from the carried state of a block
# that holds only missing labels.  groupby_scan must therefore refuse them itself: an `if … (codes == -1) …: raise ValueError/NotImplementedError`
# that names the cumulative kernels and dominates both the eager kernel call and the graph constructor.
def rule_scanmissing(ctx) -> RuleResult:
    res = RuleResult("R-SCANMISSING", "missing labels are refused up front for scans whose kernel has no slot for the -1 code", min_instances=1)
    from ..cfg import CFG, node_exprs
    f = ctx.prog.func("core.groupby_scan")
    cfg = CFG(f)
    dom = cfg.dominators()
    guards = []
    for st in walk_own(f.node):
        if isinstance(st, ast.If) and any(isinstance(b, ast.Raise) for b in st.body):
            t = norm(st.test)
            if "== -1" in t and ("cumsum" in t):
                tn = next((n for n in cfg.nodes if n.kind == "test" and n.ast is not None and any(n.ast is x for x in ast.walk(st.test))), None)
                if tn is not None:
                    guards.append((tn, st))
    sinks = []
    for n in cfg.nodes:
        for e in node_exprs(n):
            for c in ast.walk(e):
                if isinstance(c, ast.Call) and norm(c.func) in ("chunk_scan", "dask_groupby_scan"):
                    sinks.append((n, c))
    if not sinks:
        raise AnalysisError("groupby_scan: neither chunk_scan nor dask_groupby_scan is called (anchor)")
    for n, c in sinks:
        ok = [norm(st.test)[:60] for tn, st in guards if tn.id in dom.get(n.id, ())]
        res.inst(f"groupby_scan: {norm(c.func)}(…) dominated by a refusal of -1 codes for the cumulative kernels: {ok[:1] or False}", f"sink|{norm(c.func)}")
        if not ok:
            res.report(f"core.groupby_scan|missing-labels-reach-cumsum|{norm(c.func)}", f.where(c), f.qualname,
                       f"'{norm(c.func)}(…)' is reached with labels that may contain the missing code -1 for func='nancumsum': numpy_groupies rejects negative codes "
                       "(its own ValueError in memory, an IndexError from the carried state of an all-missing block on a chunked array) instead of a refusal by flox")
    return res


# ---------------------------------------------------------------------------------------------
# R-PARTIALUNKNOWN (C08, C12): labels found at compute time are refused for EVERY partial-axis reduction, not for one reduced axis only.
# With unknown labels each block of the kept dimensions discovers its own label set; the combine along the reduced axes never sees the other
# kept blocks, and the per-block columns are concatenated as if they meant the same labels (silently wrong values under a truncated label
# list).  The refusal in groupby_reduce states exactly this belief in its comment; its test must compare the number of reduced axes with the
# labels' dimensions (nax < by_.ndim / nax != by_.ndim), not with a constant.
def rule_partialunknown(ctx) -> RuleResult:
    res = RuleResult("R-PARTIALUNKNOWN", "unknown labels are refused for every reduction over a subset of the label axes", min_instances=1)
    f = ctx.prog.func("core.groupby_reduce")
    sites = []
    for st in walk_own(f.node):
        if isinstance(st, ast.If) and any(isinstance(b, ast.Raise) for b in st.body):
            leaves = st.test.values if isinstance(st.test, ast.BoolOp) and isinstance(st.test.op, ast.And) else [st.test]
            txt = [norm(l) for l in leaves]
            if any(t.startswith("expected") and t.endswith("is None") for t in txt) and any("nax" in t for t in txt):
                sites.append((st, leaves))
    if not sites:
        res.inst("groupby_reduce: no refusal ties unknown labels (expected groups None) to the number of reduced axes", "refusal")
        res.report("core.groupby_reduce|partial-reduction-with-unknown-labels-not-refused", f.where(), f.qualname,
                   "groupby_reduce no longer refuses a partial-axis reduction whose labels are only found at compute time: each kept block discovers its own label "
                   "set and the columns of different blocks are concatenated as if they were the same labels")
        return res
    for st, leaves in sites:
        nax_leaves = [l for l in leaves if "nax" in names_in(l)]
        general = any(isinstance(l, ast.Compare) and len(l.ops) == 1 and isinstance(l.ops[0], (ast.Lt, ast.NotEq, ast.LtE)) and "ndim" in norm(l) for l in nax_leaves)
        res.inst(f"groupby_reduce: refusal '{norm(st.test)[:70]}' covers every nax < ndim: {general}", f"refusal|{st.lineno}")
        if not general:
            res.report("core.groupby_reduce|unknown-labels-refused-for-one-axis-only", f.where(st), f.qualname,
                       f"the refusal '{norm(st.test)[:70]}' fires for a fixed number of reduced axes only; reducing two of three label axes with labels found at compute "
                       "time and a chunked kept dimension returns the values of different label sets side by side ([[2, 2], [4, 4]] under labels [0, 1] "
                       "where the answer is [[2, 2, 0], [0, 0, 4]] under [0, 1, 2])")
    return res


# ---------------------------------------------------------------------------------------------
# R-ZEROBLOCK (C19, C11): a blockwise plan never announces a block without labels.
# The blockwise plan lists the labels of every block; a zero-length block (legal in dask, common after slicing) contributes an empty list, i.e. a
# zero-size chunk of the lazy result, and dask's `take` in the final re-index cannot index such a chunk ("range() arg 3 must not be zero") --
# the automatic plan fails where method="map-reduce" works.  Between the plan choice and the graph constructor, groupby_reduce must drop
# zero-length blocks for the blockwise plan: a re-bind of the array to `.rechunk(...)` whose chunk lists are filtered for `> 0`, under a
# `method == "blockwise"` test.  (An explicit method="blockwise" with numpy labels already goes through rechunk_for_blockwise, which merges them.)
def rule_zeroblock(ctx) -> RuleResult:
    res = RuleResult("R-ZEROBLOCK", "zero-length blocks are dropped before a blockwise plan lists the labels of every block", min_instances=1)
    from ..astutil import guard_facts
    gr = ctx.prog.func("core.groupby_reduce")
    call = None
    for n in walk_own(gr.node):
        if isinstance(n, ast.Assign) and isinstance(n.value, ast.Call) and norm(n.value.func) == "_choose_method":
            call = n
    if call is None:
        raise AnalysisError("groupby_reduce no longer calls _choose_method (anchor)")
    dg = ctx.prog.func("core.dask_groupby_agg")
    if not _per_block_concats(dg):
        res.notes.append("the blockwise plan no longer lists labels per block: rule not applicable")
        res.min_instances = 0
        return res
    pm = parents_map(gr.node)
    arr = gr.params[0]
    found = []
    for a in walk_own(gr.node):
        if isinstance(a, ast.Assign) and len(a.targets) == 1 and norm(a.targets[0]) == arr and a.lineno > call.lineno and isinstance(a.value, ast.Call) \
                and isinstance(a.value.func, ast.Attribute) and a.value.func.attr == "rechunk":
            filt = any(isinstance(c, ast.Compare) and isinstance(c.ops[0], (ast.Gt, ast.NotEq, ast.GtE)) and any(isinstance(k, ast.Constant) and k.value in (0, 1) for k in c.comparators)
                       for c in ast.walk(a.value))
            blockwise = any(at.replace('"', "'") == "method == 'blockwise'" and pol for at, pol in guard_facts(a, pm))
            if filt and blockwise:
                found.append(a)
    res.inst(f"groupby_reduce: zero-length blocks dropped for the blockwise plan after the plan choice: {bool(found)}", "drop")
    if not found:
        res.report("core.groupby_reduce|blockwise-lists-labels-of-empty-blocks", gr.where(call), gr.qualname,
                   "after the plan choice nothing removes zero-length blocks for method == 'blockwise': the per-block label list of such a block is empty, the lazy result "
                   "gets a zero-size chunk, and the final re-index fails inside dask ('range() arg 3 must not be zero') for the automatically chosen plan while "
                   "method='map-reduce' succeeds")
    return res
