"""R-PICKLE, R-NONDET (C13); R-FILLFLOW (C05)."""
from __future__ import annotations

import ast
import symtable

from ..astutil import calls_in, kwarg, names_in, access_path, returned_name, blueprint_vars
from ..model import AnalysisError, norm, walk_own
from ..report import RuleResult
from .token import Closure

UNPICKLABLE_CALLS = {"open", "threading.Lock", "threading.RLock", "Lock", "RLock", "ThreadPoolExecutor", "ProcessPoolExecutor",
                     "iter", "map", "filter", "zip", "socket.socket", "sqlite3.connect", "tempfile.TemporaryFile"}
_LOCAL_RESOURCES = {"threading.Condition", "threading.Semaphore", "threading.BoundedSemaphore", "threading.Event", "threading.local", "threading.Barrier",
                    "multiprocessing.Lock", "weakref.ref", "weakref.WeakValueDictionary", "queue.Queue", "asyncio.Lock", "mmap.mmap"}
NONDET_PREFIXES = ("random.", "numpy.random.", "time.", "uuid.", "secrets.", "datetime.datetime.now", "datetime.datetime.today")
NONDET_EXACT = {"os.urandom", "builtins.id", "builtins.hash", "os.getpid", "threading.get_ident"}


def rule_pickle(ctx) -> RuleResult:
    res = RuleResult("R-PICKLE", "no task-reachable identity test against a by-value-pickled sentinel; nothing unpicklable is embedded in a graph",
                     min_instances=40)
    prog, cg, rs = ctx.prog, ctx.callgraph, ctx.resolver
    tr = cg.task_reachable()
    if len(tr) < 40:
        raise AnalysisError(f"only {len(tr)} task-reachable functions")
    # module-level instances of flox classes (pickled by value: a copy arrives in the worker)
    sentinels = set()
    for u in prog.units.values():
        for name, vals in u.bindings.items():
            for v in vals:
                if isinstance(v, ast.Call):
                    ts = rs.resolve(v.func, None, u)
                    if any(t.kind == "class" for t in ts):
                        sentinels.add(f"{u.name}.{name}")
    res.notes.append(f"module-level instances pickled by value: {sorted(sentinels)}")
    n_is = 0
    for q in sorted(tr):
        f = prog.funcs[q]
        cnt = 0
        for n in walk_own(f.node):
            if isinstance(n, ast.Compare) and any(isinstance(o, (ast.Is, ast.IsNot)) for o in n.ops):
                cnt += 1
                n_is += 1
                for operand in [n.left] + list(n.comparators):
                    if isinstance(operand, ast.Constant):
                        continue
                    ts = rs.resolve(operand, f, f.unit)
                    if any(t.kind == "instance" for t in ts):
                        res.report(f"{q}|is-sentinel|{norm(n)[:50]}", f.where(n), q,
                                   f"{norm(n)}: identity test against a module-level instance that cloudpickle ships by value; inside a task "
                                   "running in another process the comparison is False for the very same sentinel (compare with == instead)")
        res.inst(f"{q}: {cnt} identity comparisons scanned", q if cnt else None)
    # embedded objects
    for (f, desc, e, ts) in cg.embedded:
        cl = Closure(ctx, f)
        exprs = [e]
        for t in ts:
            if t.kind == "partial":
                pc = rs.partial_nodes.get(t.node_id)
                if pc is not None:
                    exprs += [k.value for k in pc.keywords] + list(pc.args[1:])
        bad = []
        for x in exprs:
            for sub in ast.walk(x):
                if isinstance(sub, ast.GeneratorExp):
                    bad.append(f"generator {norm(sub)[:40]}")
                if isinstance(sub, ast.Call) and norm(sub.func) in UNPICKLABLE_CALLS:
                    bad.append(f"{norm(sub)[:40]}")
            # one level of def-use for names
            for nm in names_in(x):
                for kind, node in cl.scope.bind.get(nm, []):
                    if kind == "assign" and (isinstance(node, ast.GeneratorExp) or (isinstance(node, ast.Call) and norm(node.func) in UNPICKLABLE_CALLS)):
                        bad.append(f"{nm} = {norm(node)[:40]}")
        res.inst(f"{f.qualname}: {desc}: {norm(e)[:50]} embeds {'nothing unpicklable' if not bad else bad}", f"{f.qualname}|{desc}|{norm(e)[:30]}")
        for b in bad:
            res.report(f"{f.qualname}|unpicklable|{b[:40]}", f.where(e), f.qualname, f"{desc}: {b} is embedded in the task graph but cannot be pickled")
    # nested functions embedded in graphs must not capture unpicklable free variables
    for r in sorted(cg.task_roots):
        f = prog.funcs.get(r)
        if f is None or f.parent is None:
            continue
        free = _free_vars(f)
        res.inst(f"{r}: nested function embedded in a graph, free variables {sorted(free)}", r)
        sc = rs.scope(f.parent)
        for v in free:
            for kind, node in sc.bind.get(v, []):
                if kind == "assign" and (isinstance(node, ast.GeneratorExp) or (isinstance(node, ast.Call) and norm(node.func) in UNPICKLABLE_CALLS)):
                    res.report(f"{r}|free-unpicklable|{v}", f.where(), r, f"captures {v} = {norm(node)[:40]}, which cannot be pickled")
    # attribute clause: the blueprint (Aggregation / Scan, bound into every chunk / combine / finalize task) and every other flox class instance
    # travel by value; a process-local resource stored in one of their attributes -- anywhere in the package -- makes the task unpicklable
    n_attr = 0
    for q, f in sorted(prog.funcs.items()):
        if isinstance(f.node, ast.Lambda):
            continue
        holders = blueprint_vars(f) | ({"self"} if f.params[:1] == ["self"] else set()) | ({"agg"} if not isinstance(f.node, ast.Lambda) else set())
        if not holders:
            continue
        for a in walk_own(f.node):
            if not isinstance(a, (ast.Assign, ast.AnnAssign)) or a.value is None:
                continue
            for t in (a.targets if isinstance(a, ast.Assign) else [a.target]):
                if isinstance(t, ast.Attribute) and isinstance(t.value, ast.Name) and t.value.id in holders:
                    n_attr += 1
                    lazies = {"iter", "map", "filter", "zip"}       # unpicklable only when the iterator itself is what is stored
                    bad = [norm(c)[:40] for c in ast.walk(a.value) if isinstance(c, ast.Call)
                           and ((norm(c.func) in UNPICKLABLE_CALLS - lazies) or norm(c.func) in _LOCAL_RESOURCES or (norm(c.func) in lazies and c is a.value))]
                    bad += [f"generator {norm(g)[:30]}" for g in ast.walk(a.value) if isinstance(g, ast.GeneratorExp) and not isinstance(getattr(g, "_parent", None), ast.Call)
                            and a.value is g]
                    if bad:
                        res.report(f"{q}|unpicklable-attribute|{t.attr}", f.where(a), q,
                                   f"'{norm(a)[:70]}' stores {bad[0]} in an attribute of an object that is bound into tasks: cloudpickle raises "
                                   "\"cannot pickle '_thread.lock' object\" (or its like) for every task of the graph that carries it")
    res.inst(f"attribute stores on blueprints / flox class instances scanned for process-local resources: {n_attr}", "attr-stores")
    if n_attr < 12:
        raise AnalysisError(f"only {n_attr} attribute stores on blueprints found (hand-confirmed on the pinned tree: 18)")
    return res


def _free_vars(f) -> set[str]:
    bound = set(f.params)
    for n in walk_own(f.node):
        if isinstance(n, ast.Name) and isinstance(n.ctx, ast.Store):
            bound.add(n.id)
    used = {n.id for n in walk_own(f.node) if isinstance(n, ast.Name) and isinstance(n.ctx, ast.Load)}
    parent_locals = set(f.parent.params) | {n.id for n in walk_own(f.parent.node) if isinstance(n, ast.Name) and isinstance(n.ctx, ast.Store)}
    return (used - bound) & parent_locals


def rule_nondet(ctx) -> RuleResult:
    res = RuleResult("R-NONDET", "no task-reachable function calls a nondeterminism source or iterates a set into an ordered result",
                     min_instances=40)
    prog, cg, rs = ctx.prog, ctx.callgraph, ctx.resolver
    tr = cg.task_reachable()
    for q in sorted(tr):
        f = prog.funcs[q]
        ncalls = 0
        for c in calls_in(f.node):
            ncalls += 1
            for t in cg._expand(rs.resolve(c.func, f, f.unit)):
                if t.kind == "ext" and (t.name in NONDET_EXACT or t.name.startswith(NONDET_PREFIXES)):
                    res.report(f"{q}|nondet|{t.name}", f.where(c), q, f"{norm(c)[:60]} ({t.name}): a task must return an equal value when executed again")
        for n in walk_own(f.node):
            it = None
            if isinstance(n, ast.For):
                it = n.iter
            elif isinstance(n, ast.comprehension):
                it = n.iter
            if it is not None and (isinstance(it, (ast.Set, ast.SetComp)) or (isinstance(it, ast.Call) and norm(it.func) in ("set", "frozenset"))):
                res.report(f"{q}|set-iteration|{norm(it)[:40]}", f.where(it), q, f"iterates {norm(it)[:50]}: set order is not reproducible across processes for str keys (hash randomisation)")
        res.inst(f"{q}: {ncalls} calls scanned", q)
    return res


def rule_fillflow(ctx) -> RuleResult:
    res = RuleResult("R-FILLFLOW", "the user's fill_value is the value written into absent / under-min_count slots at every final sink",
                     min_instances=4)
    prog = ctx.prog
    # (a) the per-call blueprint records the user's fill verbatim
    ia = prog.func("aggregations._initialize_aggregation")
    av = returned_name(ia) or "agg"
    stores = [n for n in walk_own(ia.node) if isinstance(n, ast.Assign) and any(access_path(t) == f"{av}.fill_value['user']" for t in n.targets)]
    if not stores:
        raise AnalysisError("_initialize_aggregation: no store into agg.fill_value['user'] (anchor vanished)")
    for st in stores:
        txt = norm(st.value)
        ok = txt == "fill_value" or txt == f"{av}.fill_value[{av}.name]"
        res.inst(f"_initialize_aggregation: agg.fill_value['user'] = {txt}", f"store|{txt}")
        if not ok:
            res.report(f"aggregations._initialize_aggregation|user-fill|{txt[:40]}", ia.where(st), ia.qualname,
                       f"agg.fill_value['user'] = {txt}: the user's fill_value must be recorded verbatim (only the None -> blueprint default "
                       "replacement for nanmin/nanmax is accepted)")
    first = stores[0]
    if norm(first.value) != "fill_value":
        res.report("aggregations._initialize_aggregation|user-fill-first", ia.where(first), ia.qualname, "the first store into agg.fill_value['user'] is not the fill_value parameter")
    # (b) the finalizer masks and re-indexes with that slot
    fr = prog.func("core._finalize_results")
    cl = Closure(ctx, fr)
    sinks = []
    for c in calls_in(fr.node):
        fn = norm(c.func)
        if fn in ("np.where", "numpy.where") and len(c.args) == 3:
            sinks.append((c, c.args[1], "np.where(count_mask, <fill>, ...)"))
        if fn == "reindex_" and kwarg(c, "fill_value") is not None:
            sinks.append((c, kwarg(c, "fill_value"), "reindex_(..., fill_value=<fill>)"))
    if len(sinks) < 2:
        raise AnalysisError(f"_finalize_results: {len(sinks)} fill sinks found (hand-confirmed: 2)")
    bv = sorted(blueprint_vars(fr) or {"agg"})[0]
    for c, fexpr, what in sinks:
        ok = _derives_from(cl, fexpr, f"{bv}.fill_value['user']", allow_calls=("xrdtypes.maybe_promote", "maybe_promote"))
        res.inst(f"_finalize_results: {what} with {norm(fexpr)}: derives only from agg.fill_value['user']: {ok}", f"sink|{what}")
        if not ok:
            res.report(f"core._finalize_results|fill-source|{what[:30]}", fr.where(c), fr.qualname,
                       f"{what} uses {norm(fexpr)}, which is not (only) the user's fill value agg.fill_value['user']: absent or under-min_count "
                       "slots receive something other than what the user asked for")
    # (c) the final reindex in groupby_reduce uses the fill_value parameter (or the NaN it is replaced by for nansum/nanprod)
    gr = prog.func("core.groupby_reduce")
    clg = Closure(ctx, gr)
    final = [c for c in calls_in(gr.node) if norm(c.func) == "reindex_" and kwarg(c, "fill_value") is not None]
    if not final:
        raise AnalysisError("groupby_reduce: final reindex_(..., fill_value=...) vanished")
    for c in final:
        fexpr = kwarg(c, "fill_value")
        cc = clg.of(fexpr)
        ok = "fill_value" in cc["params"] and cc["names"] <= {"fill_value", "np"}
        res.inst(f"groupby_reduce: final reindex_ fill_value={norm(fexpr)} derives from the fill_value parameter: {ok}", "final-reindex")
        if not ok:
            res.report("core.groupby_reduce|final-reindex-fill", gr.where(c), gr.qualname,
                       f"the final reindex fills absent labels with {norm(fexpr)}, not with the user's fill_value")
    return res


def _derives_from(cl: Closure, e: ast.AST, path: str, allow_calls=()) -> bool:
    """every leaf of the def-use closure of e is the given access path (or a constant); calls only from allow_calls"""
    seen: set[str] = set()
    ok = True

    def walk(x: ast.AST, depth=0):
        nonlocal ok
        if depth > 6:
            ok = False
            return
        if access_path(x) == path:
            return
        if isinstance(x, ast.Constant):
            return
        if isinstance(x, ast.Name):
            if x.id in seen:
                return
            seen.add(x.id)
            binds = cl.scope.bind.get(x.id)
            if not binds:
                ok = False
                return
            for kind, node in binds:
                if kind == "assign":
                    walk(node, depth + 1)
                elif kind == "unpack":
                    walk(node.elts[0], depth + 1)
                else:
                    ok = False
            return
        if isinstance(x, ast.Call):
            if norm(x.func) not in allow_calls:
                ok = False
            return
        if isinstance(x, (ast.Tuple,)):
            for el in x.elts:
                walk(el, depth + 1)
            return
        ok = False

    walk(e)
    return ok
