"""R-ALGEBRA, R-PARALLEL: blueprints are rows of the monoid table (C04, C06; read by C02, C03)."""
from __future__ import annotations

import ast

from ..astutil import access_path, parents_map, ancestors, returned_name
from ..model import AnalysisError, norm, walk_own
from ..registry import Sym
from ..report import RuleResult
from .. import tables as T


def _nanname(k) -> bool:
    return isinstance(k, str) and k.startswith("nan")


def rule_algebra(ctx) -> RuleResult:
    reg = ctx.registry
    res = RuleResult("R-ALGEBRA", "every blueprint position (kernel, combine, fill, dtype) is a row of the monoid table",
                     min_instances=30)
    where = lambda rec: f"flox/aggregations.py:{rec.lineno}"
    ndecomp = 0
    for key, rec in reg.agg_items():
        fn = f"blueprint {rec.var} (AGGREGATIONS[{key!r}])"
        for e in rec.errors:
            res.report(f"{rec.var}|ctor|{e[:40]}", where(rec), fn, e)
        if rec.errors:
            continue
        if key != rec.name:
            res.report(f"{rec.var}|name", where(rec), fn, f"registered under {key!r} but named {rec.name!r}: "
                       "fill_value[name], finalized[name] and the user-visible key disagree")
        # half-declared decomposition
        if (rec.chunk == (None,)) != (rec.combine == (None,)):
            res.report(f"{rec.var}|half", where(rec), fn, f"chunk={rec.chunk} but combine={rec.combine}: half-declared decomposition")
            continue
        if len(rec.chunk) != len(rec.combine):
            res.report(f"{rec.var}|arity", where(rec), fn, f"{len(rec.chunk)} block kernels but {len(rec.combine)} combine operators")
            continue
        if not rec.decomposable:
            res.inst(f"{rec.var}: no block/combine decomposition declared")
            continue
        ndecomp += 1
        rt = rec.args.get("reduction_type")
        fin = rec.args.get("finalize")
        is_arg = rt == "argreduce" or any(isinstance(k, str) and "arg" in k for k in rec.chunk)
        if is_arg:
            _check_arg(res, rec, fn, where(rec))
        else:
            _check_positions(res, rec, fn, where(rec))
        # NaN discipline of the blueprint as a whole
        kernels = [k for k in rec.chunk if isinstance(k, str) and k not in ("nanlen", "len")]
        if kernels:
            disc = {_nanname(k) for k in kernels}
            if len(disc) > 1:
                res.report(f"{rec.var}|mixed-nan", where(rec), fn, f"block kernels mix NaN disciplines: {rec.chunk}")
            elif disc != {_nanname(rec.name)} and rec.name != "count":
                res.report(f"{rec.var}|nan-discipline", where(rec), fn,
                           f"blueprint {rec.name!r} uses block kernels {rec.chunk} of the other NaN discipline")
        eager = rec.numpy[0]
        if isinstance(eager, str) and eager not in ("nanlen", "len") and rec.name != "count":
            if _nanname(eager) != _nanname(rec.name):
                res.report(f"{rec.var}|eager-nan", where(rec), fn, f"eager kernel {eager!r} has the other NaN discipline than {rec.name!r}")
        res.inst(f"{rec.var}: NaN discipline name={rec.name} kernels={rec.chunk} eager={eager}", f"{rec.var}|disc")
        # finalizer
        _check_finalizer(ctx, res, rec, fn, where(rec), fin)
    if ndecomp < 20:
        raise AnalysisError(f"R-ALGEBRA: only {ndecomp} decomposable blueprints evaluated (hand-confirmed: 23)")
    _check_simple_combine(ctx, res)
    return res


def _check_positions(res, rec, fn, where):
    for i, (k, c, fv, dt) in enumerate(zip(rec.chunk, rec.combine, rec.fill_intermediate, rec.dtypes_intermediate)):
        desc = f"{rec.var}[{i}]: kernel={k!r} combine={c!r} fill={fv!r} dtype={dt!r}"
        if not isinstance(k, str) or k not in T.KERNELS:
            res.notes.append(f"UNDECIDED {desc}: block kernel not in the monoid table (no oracle; nothing claimed)")
            res.inst(desc)
            continue
        cls, combines, fill, dtype, why = T.KERNELS[k]
        res.inst(desc, f"{rec.var}[{i}]")
        if c not in combines:
            res.report(f"{rec.var}[{i}]|combine", where, fn,
                       f"position {i}: block kernel {k!r} merged with {c!r}; admissible: {sorted(combines)} ({why})")
        if fv != fill or type(fv) is not type(fill):
            res.report(f"{rec.var}[{i}]|fill", where, fn,
                       f"position {i}: intermediate fill {fv!r} is not the identity {fill!r} of the merge for kernel {k!r} ({why})")
        if dt != dtype:
            res.report(f"{rec.var}[{i}]|dtype", where, fn,
                       f"position {i}: intermediate dtype {dt!r}, convention for kernel {k!r} is {dtype!r}")


def _check_arg(res, rec, fn, where):
    a = rec.args
    desc = f"{rec.var}: arg blueprint chunk={rec.chunk} combine={rec.combine} fill={rec.fill_intermediate} dtypes={rec.dtypes_intermediate}"
    res.inst(desc, f"{rec.var}|arg")
    if len(rec.chunk) != 2:
        res.report(f"{rec.var}|arg-arity", where, fn, f"arg blueprint needs exactly (value kernel, index kernel), got {rec.chunk}")
        return
    pair = (rec.chunk[0], rec.chunk[1])
    if pair not in T.ARG_PAIRS:
        res.report(f"{rec.var}|arg-pair", where, fn, f"(value, index) kernels {pair} are not a matching pair "
                   f"(value first, same polarity, same NaN discipline); known pairs: {sorted(T.ARG_PAIRS)}")
        return
    vset, iset, fills, dts = T.ARG_PAIRS[pair]
    vc, ic = rec.combine
    if vc not in vset or ic not in iset or (vc, ic) not in T.ARG_COMBINE_PAIRING:
        res.report(f"{rec.var}|arg-combine", where, fn, f"combine {rec.combine} does not match kernels {pair}: value combine in {sorted(vset)}, "
                   f"index combine the matching arg-function of the same polarity and NaN discipline")
    if tuple(rec.fill_intermediate) != fills:
        res.report(f"{rec.var}|arg-fill", where, fn, f"intermediate fills {rec.fill_intermediate} != {fills}: an absent block must lose against every value")
    if tuple(rec.dtypes_intermediate) != dts:
        res.report(f"{rec.var}|arg-dtypes", where, fn, f"intermediate dtypes {rec.dtypes_intermediate} != {dts}")
    exp = {"reduction_type": "argreduce", "finalize": Sym("func:aggregations._pick_second"),
           "preprocess": Sym("func:aggregations.argreduce_preprocess"), "final_fill_value": -1, "final_dtype": T.INTP}
    for k, v in exp.items():
        if a.get(k) != v:
            res.report(f"{rec.var}|arg-{k}", where, fn, f"{k}={a.get(k)!r}, arg-reductions need {v!r}")
    # name polarity
    if ("max" in rec.name) != ("max" in pair[0]) or _nanname(rec.name) != _nanname(pair[0]):
        res.report(f"{rec.var}|arg-name", where, fn, f"blueprint {rec.name!r} wired to kernels {pair}")


def _check_finalizer(ctx, res, rec, fn, where, fin):
    if fin is None:
        if len(rec.chunk) > 1:
            res.report(f"{rec.var}|no-finalizer", where, fn, f"{len(rec.chunk)} intermediates but no finalizer: all but the first are dropped")
        return
    if not (isinstance(fin, Sym) and fin.name.startswith("func:")):
        res.notes.append(f"UNDECIDED {rec.var}: finalizer {fin!r} is not a flox function")
        return
    qn = fin.name[5:]
    f = ctx.prog.funcs.get(qn)
    if f is None:
        raise AnalysisError(f"finalizer {qn} of {rec.var} not found")
    pos = f.positional_params
    ndef = len(f.node.args.defaults)
    required = pos[: len(pos) - ndef] if ndef else pos
    if f.vararg:
        res.inst(f"{rec.var}: finalizer {qn}(*{f.vararg}) accepts any arity", f"{rec.var}|fin")
        return
    res.inst(f"{rec.var}: finalizer {qn}({', '.join(pos)}) fed with {rec.chunk}", f"{rec.var}|fin")
    if len(required) != len(rec.chunk):
        res.report(f"{rec.var}|fin-arity", where, fn, f"finalizer {qn} takes {len(required)} positional intermediates {required}, blueprint provides {len(rec.chunk)}")
        return
    for p, k in zip(required, rec.chunk):
        want = T.FINALIZER_PARAM_CLASS.get(p)
        have = T.KERNELS.get(k, (None,))[0] if isinstance(k, str) else None
        if want is None or have is None:
            res.notes.append(f"UNDECIDED {rec.var}: finalizer parameter {p!r} / kernel {k!r} not classifiable")
            continue
        if want != have:
            res.report(f"{rec.var}|fin-order", where, fn,
                       f"finalizer {qn} parameter {p!r} (needs a {want}) receives the {have} intermediate {k!r}: positional order of chunk is wrong")


def _check_simple_combine(ctx, res):
    """agg.simple_combine is derived from agg.combine by name only, in one place."""
    prog = ctx.prog
    writers = []
    for f in prog.all_funcs():
        for n in walk_own(f.node):
            tgts = []
            if isinstance(n, ast.Assign):
                tgts = n.targets
            elif isinstance(n, (ast.AugAssign, ast.AnnAssign)):
                tgts = [n.target]
            for t in tgts:
                if isinstance(t, ast.Attribute) and t.attr == "simple_combine":
                    writers.append((f, n))
    ext = [(f, n) for f, n in writers if f.qualname != "aggregations.Aggregation.__init__"]
    if not ext:
        raise AnalysisError("no writer of Aggregation.simple_combine found (anchor vanished)")
    for f, n in ext:
        res.inst(f"writer of simple_combine: {f.qualname}: {norm(n)}", f"sc|{f.qualname}")
        if f.qualname != "aggregations._initialize_aggregation":
            res.report(f"simple_combine-writer|{f.qualname}", f.where(n), f.qualname,
                       "simple_combine written outside _initialize_aggregation: the two combine algorithms may now apply different operators")
    f = prog.func("aggregations._initialize_aggregation")
    av = returned_name(f) or "agg"
    # the loop 'for X in agg.combine' must be the only source of appended values
    loops = [n for n in walk_own(f.node) if isinstance(n, ast.For) and access_path(n.iter) == f"{av}.combine"]
    if len(loops) != 1:
        raise AnalysisError("_initialize_aggregation: expected exactly one loop over agg.combine deriving simple_combine")
    loop = loops[0]
    var = loop.target.id if isinstance(loop.target, ast.Name) else None
    appended = []
    for n in ast.walk(loop):
        if isinstance(n, ast.Call) and isinstance(n.func, ast.Attribute) and n.func.attr == "append":
            appended.append(n)
    if not appended:
        raise AnalysisError("_initialize_aggregation: loop over agg.combine appends nothing")
    pm = parents_map(loop)
    xr_names: set[str] = set()
    for call in appended:
        arg = call.args[0]
        ok = False
        if isinstance(arg, ast.Name) and arg.id == var:
            ok = True
        elif isinstance(arg, ast.Call) and norm(arg.func) == "getattr" and len(arg.args) == 2 \
                and isinstance(arg.args[1], ast.Name) and arg.args[1].id == var:
            mod = norm(arg.args[0])
            ok = mod in ("np", "numpy", "xrutils")
            if mod == "xrutils":
                # the guard listing which names go to xrutils
                for anc in ancestors(call, pm):
                    if isinstance(anc, ast.If) and isinstance(anc.test, ast.Compare) and isinstance(anc.test.ops[0], ast.In):
                        lst = anc.test.comparators[0]
                        if isinstance(lst, (ast.List, ast.Tuple, ast.Set)):
                            xr_names |= {e.value for e in lst.elts if isinstance(e, ast.Constant)}
        res.inst(f"simple_combine element: {norm(arg)}", f"sc-elt|{norm(arg)}")
        if not ok:
            res.report(f"simple_combine-elt|{norm(arg)[:60]}", f.where(call), f.qualname,
                       f"simple_combine element {norm(arg)} is not obtained from the same-named entry of agg.combine")
    # every combine name must exist where it is looked up
    xru = prog.unit("xrutils")
    for key, rec in ctx.registry.agg_items():
        for c in rec.combine:
            if not isinstance(c, str) or "arg" in c:
                continue
            if c in xr_names:
                if c not in xru.funcs:
                    res.report(f"simple_combine-lookup|{c}", f.where(loop), f.qualname, f"combine {c!r} is looked up in xrutils, which does not define it")
            elif c not in T.NUMPY_REDUCERS:
                res.report(f"simple_combine-lookup|{c}", f.where(loop), f.qualname,
                           f"combine {c!r} (blueprint {rec.var}) is looked up with getattr(np, ...) but NumPy has no reduction of that name")


SLOTS_REQUIRED = {
    "AGG.numpy": ("nanlen",), "AGG.fill_value['numpy']": (0,), "AGG.dtype['numpy']": (T.INTP,),
    "AGG.fill_value['intermediate']": (0,), "AGG.dtype['intermediate']": (T.INTP,),
    "AGG.chunk": ("nanlen",), "AGG.combine": ("sum",),
}


def rule_parallel(ctx) -> RuleResult:
    res = RuleResult("R-PARALLEL", "the min_count counter extends every parallel tuple with a table row", min_instances=7)
    f = ctx.prog.func("aggregations._initialize_aggregation")
    av = returned_name(f) or "agg"
    pm = parents_map(f.node)
    ev = ctx.registry.ev
    found: dict[str, list] = {}
    for n in walk_own(f.node):
        if isinstance(n, ast.AugAssign) and isinstance(n.op, ast.Add):
            p = access_path(n.target)
            if p and p.startswith(av + "."):
                found.setdefault("AGG" + p[len(av):], []).append(n)
    if "AGG.chunk" not in found:
        raise AnalysisError("_initialize_aggregation: no 'agg.chunk += ...' found (the counter wiring vanished)")
    # the branch: outermost If ancestor of the agg.chunk augmentation whose test mentions min_count
    branch = None
    for anc in ancestors(found["AGG.chunk"][0], pm):
        if isinstance(anc, ast.If) and "min_count" in norm(anc.test):
            branch = anc
    if branch is None:
        raise AnalysisError("_initialize_aggregation: counter wiring is not under a min_count guard")
    for slot, want in SLOTS_REQUIRED.items():
        nodes = [n for n in found.get(slot, []) if any(a is branch for a in ancestors(n, pm))]
        if not nodes:
            res.report(f"parallel|{slot}|missing", f.where(branch), f.qualname,
                       f"min_count branch extends agg.chunk but not {slot.replace('AGG', 'agg')}: the parallel tuples go out of step")
            res.inst(f"{slot}: MISSING")
            continue
        for n in nodes:
            val = ev.ev(n.value)
            res.inst(f"{slot.replace('AGG', 'agg')} += {val!r}", f"parallel|{slot}")
            if val != want:
                res.report(f"parallel|{slot}|value", f.where(n), f.qualname,
                           f"{slot.replace('AGG', 'agg')} += {val!r}; the validity counter is the table row (nanlen, sum, fill 0, np.intp): expected {want!r}")
        if len(nodes) > 1:
            res.report(f"parallel|{slot}|twice", f.where(nodes[1]), f.qualname, f"{slot.replace('AGG', 'agg')} extended {len(nodes)} times in the min_count branch")
    # chunk/combine must be guarded by chunk != (None,) (blockwise-only blueprints have no decomposition)
    for slot in ("AGG.chunk", "AGG.combine"):
        for n in found.get(slot, []):
            guarded = any(isinstance(a, ast.If) and f"{av}.chunk" in norm(a.test) and "None" in norm(a.test) for a in ancestors(n, pm))
            if not guarded:
                res.report(f"parallel|{slot}|unguarded", f.where(n), f.qualname, f"{slot.replace('AGG', 'agg')} extended also for blueprints without decomposition (chunk == (None,))")
    # any other augmented slot in the branch must be one we know
    for slot, nodes in found.items():
        if slot not in SLOTS_REQUIRED and any(any(a is branch for a in ancestors(n, pm)) for n in nodes):
            res.notes.append(f"UNDECIDED extra slot {slot} extended in the min_count branch")
    # the counter is consumed at the end: agg.min_count assigned in both arms
    return res
