"""R-CODEWIDTH, R-IDENTITYCODES (C05, C07, C08, C19): the integer group codes.

Every later stage treats the per-element group codes as platform integers: `_ravel_factorized` multiplies them by the number of
groups of the other groupers, `offset_labels` adds slice_index * ngroups, `factorize_` stores the sentinel `ngroups` (or `size`)
into them, and -1 marks a dropped element.  None of that fits a code array that inherited a narrow / unsigned / floating dtype
from the user's labels.  The *value* of a code is a runtime quantity; where its *dtype* comes from is visible in the code:

  R-CODEWIDTH      every definition of the code array returned by `_factorize_single` is an intp producer (np.digitize,
                   np.searchsorted, pd.factorize, an index taken from np.argsort, an explicit astype(np.intp), an array created
                   with dtype=np.intp, or arithmetic / views of those); and the consumers of the codes never cast them to a
                   narrower integer.
  R-IDENTITYCODES  a branch that takes the labels *as* their own codes (labels -> codes through dtype/shape operations only) is
                   guarded by: the requested index starts at 0, has step 1, the labels are integers; and it masks both sides
                   (below 0, beyond the last requested label) to -1.
"""
from __future__ import annotations

import ast

from ..astutil import guard_facts, kwarg, names_in, parents_map, calls_in
from ..model import AnalysisError, norm, walk_own
from ..report import RuleResult

WIDE = {"np.intp", "numpy.intp", "np.int64", "numpy.int64", "np.int_", "numpy.int_", "int", "'int64'", "'intp'", "'i8'", "np.dtype('int64')",
        "np.dtype(np.intp)", "np.dtype('intp')", "np.dtype(np.int64)"}
# calls whose result is an intp (index) array whatever the inputs
INTP_CALLS = {"np.digitize", "np.searchsorted", "np.argsort", "np.ravel_multi_index", "np.arange", "np.flatnonzero", "np.argmax", "np.argmin",
              "np.lexsort", "np.argpartition"}
INTP_METHODS = {"argsort", "searchsorted", "argmax", "argmin", "get_indexer", "get_indexer_for"}
# (call, position of the intp element in the returned tuple)
INTP_TUPLE_CALLS = {"pd.factorize": 0, "pandas.factorize": 0, "np.unique": 1, "numpy.unique": 1}    # np.unique(x, return_inverse=True)[1]
PRESERVING_METHODS = {"reshape", "copy", "ravel", "squeeze", "flatten", "transpose", "swapaxes", "view"}
PRESERVING_CALLS = {"np.broadcast_to", "np.reshape", "np.ravel", "np.squeeze", "np.ascontiguousarray", "np.copy", "np.atleast_1d", "cast", "np.asarray",
                    "np.array", "np.where"}
CREATORS = {"np.zeros", "np.ones", "np.empty", "np.full"}
CREATORS_LIKE = {"np.zeros_like", "np.ones_like", "np.empty_like", "np.full_like"}

INTP, PYINT, LABEL, OTHER = "intp", "pyint", "label-dtype", "unknown"


class Width:
    """flow-insensitive dtype-origin classification of expressions in one function"""

    def __init__(self, f, label_params: set[str], int_params: set[str] = frozenset()):
        self.f = f
        self.label_params = set(label_params)
        self.int_params = set(int_params)
        self.defs: dict[str, list] = {}
        for n in walk_own(f.node):
            if isinstance(n, ast.Assign):
                for t in n.targets:
                    self._bind(t, n.value)
            elif isinstance(n, ast.AnnAssign) and n.value is not None:
                self._bind(n.target, n.value)
        self._memo: dict[str, str] = {}
        self._active: set[str] = set()

    def _bind(self, t, value):
        if isinstance(t, ast.Name):
            self.defs.setdefault(t.id, []).append(("expr", value))
        elif isinstance(t, (ast.Tuple, ast.List)):
            for i, e in enumerate(t.elts):
                if isinstance(e, ast.Name):
                    self.defs.setdefault(e.id, []).append(("elt", (i, value)))
                elif isinstance(e, ast.Starred) and isinstance(e.value, ast.Name):
                    self.defs.setdefault(e.value.id, []).append(("expr", value))

    # ------------------------------------------------------------------
    def name(self, nm: str) -> str:
        if nm in self._memo:
            return self._memo[nm]
        if nm in self._active:
            return INTP          # optimistic on cycles (idx = sorter[(idx,)]): the other definitions decide
        if nm not in self.defs:
            if nm in self.label_params:
                return LABEL
            if nm in self.int_params:
                return PYINT
            return OTHER
        self._active.add(nm)
        ws = [self.def_width(d) for d in self.defs[nm]]
        self._active.discard(nm)
        w = _meet(ws)
        self._memo[nm] = w
        return w

    def def_width(self, d) -> str:
        kind, payload = d
        if kind == "expr":
            return self.expr(payload)
        i, value = payload
        if isinstance(value, ast.Call) and norm(value.func) in INTP_TUPLE_CALLS:
            return INTP if INTP_TUPLE_CALLS[norm(value.func)] == i else OTHER
        if isinstance(value, (ast.Tuple, ast.List)) and i < len(value.elts):
            return self.expr(value.elts[i])
        return OTHER

    def _dtype_arg(self, call: ast.Call, pos: int | None = None):
        d = kwarg(call, "dtype")
        if d is None and pos is not None and len(call.args) > pos:
            d = call.args[pos]
        return d

    def expr(self, e: ast.AST) -> str:
        if isinstance(e, ast.Constant):
            return PYINT if isinstance(e.value, int) and not isinstance(e.value, bool) else OTHER
        if isinstance(e, ast.UnaryOp) and isinstance(e.op, (ast.USub, ast.UAdd)):
            return self.expr(e.operand)
        if isinstance(e, ast.Name):
            return self.name(e.id)
        if isinstance(e, ast.Subscript):
            return self.expr(e.value)
        if isinstance(e, ast.Starred):
            return self.expr(e.value)
        if isinstance(e, ast.IfExp):
            return _meet([self.expr(e.body), self.expr(e.orelse)])
        if isinstance(e, ast.BinOp):
            l, r = self.expr(e.left), self.expr(e.right)
            if isinstance(e.op, (ast.Div, ast.Pow)):
                return OTHER
            if INTP in (l, r) and {l, r} <= {INTP, PYINT}:
                return INTP      # NumPy promotion: intp array (op) intp array / python int -> intp
            if l == r == PYINT:
                return PYINT
            if LABEL in (l, r) and {l, r} <= {LABEL, PYINT}:
                return LABEL     # python ints are weak scalars: the label dtype survives
            return OTHER
        if isinstance(e, ast.Call):
            fn = norm(e.func)
            if fn in INTP_CALLS:
                return INTP
            if fn in ("len", "math.prod", "int"):
                return PYINT
            if isinstance(e.func, ast.Attribute):
                m = e.func.attr
                if m == "astype":
                    d = e.args[0] if e.args else kwarg(e, "dtype")
                    return INTP if d is not None and norm(d) in WIDE else (f"astype({norm(d) if d is not None else '?'})")
                if m in INTP_METHODS and not _on_module(e.func):
                    return INTP
                if m in PRESERVING_METHODS and not _on_module(e.func):
                    if m == "view" and e.args:
                        return f"view({norm(e.args[0])})"
                    return self.expr(e.func.value)
            if fn in CREATORS or fn in CREATORS_LIKE:
                d = self._dtype_arg(e, 1 if fn in ("np.zeros", "np.ones", "np.empty") else (2 if fn in ("np.full", "np.full_like") else 1))
                if d is not None:
                    return INTP if norm(d) in WIDE else f"dtype={norm(d)}"
                if fn in CREATORS_LIKE and e.args:
                    return self.expr(e.args[0])
                return OTHER
            if fn in PRESERVING_CALLS and e.args:
                d = kwarg(e, "dtype")
                if d is not None:
                    return INTP if norm(d) in WIDE else f"dtype={norm(d)}"
                if fn == "np.where" and len(e.args) == 3:
                    return _meet([w for w in (self.expr(e.args[1]), self.expr(e.args[2])) if w != PYINT] or [PYINT])
                if fn == "cast":
                    return self.expr(e.args[-1])
                return self.expr(e.args[0])
            return OTHER
        return OTHER


def _on_module(attr: ast.Attribute) -> bool:
    return isinstance(attr.value, ast.Name) and attr.value.id in ("np", "numpy", "pd", "pandas")


def _meet(ws: list[str]) -> str:
    ws = [w for w in ws]
    if not ws:
        return OTHER
    for bad in ws:
        if bad not in (INTP, PYINT):
            return bad
    return INTP if INTP in ws else PYINT


def _code_names(f) -> set[str]:
    """names in the second element of the returned (groups, codes) pair"""
    out = set()
    for n in walk_own(f.node):
        if isinstance(n, ast.Return) and isinstance(n.value, ast.Tuple) and len(n.value.elts) == 2:
            out |= {x for x in names_in(n.value.elts[1])}
    return out


def _producer(ctx):
    f = ctx.prog.func("core._factorize_single")
    labels = f.params[0]
    codes = _code_names(f) - {labels}
    if not codes:
        raise AnalysisError("core._factorize_single: cannot identify the returned code array")
    return f, labels, codes


def rule_codewidth(ctx) -> RuleResult:
    res = RuleResult("R-CODEWIDTH", "group codes are platform integers wherever they are produced, and are never narrowed afterwards", min_instances=6)
    f, labels, codes = _producer(ctx)
    # locals derived from the labels by shape-only operations inherit the label dtype
    w = Width(f, {labels})
    for code in sorted(codes):
        for d in w.defs.get(code, []):
            kind, payload = d
            node = payload if kind == "expr" else payload[1]
            got = w.def_width(d)
            key = f"{f.qualname}|{code}|{norm(node)[:80]}"
            res.inst(f"{f.qualname}: {code} = {norm(node)[:70]} -> {got}", key)
            if got not in (INTP,):
                why = {LABEL: "inherits the dtype of the user's label array",
                       OTHER: "has a dtype this analysis cannot establish to be intp",
                       PYINT: "is a Python scalar, not a code array"}.get(got, f"is cast to a dtype other than intp ({got})")
                res.report(f"{f.qualname}|code-dtype|{code}", f"flox/core.py:{node.lineno}", f.qualname,
                           f"the code array '{code} = {norm(node)[:80]}' {why}: the sentinels written later (-1, ngroups), the products of "
                           "np.ravel_multi_index-style code arithmetic and the per-slice offsets do not fit int8/uint8/float codes "
                           "(OverflowError / TypeError inside flox, or silently wrapped group numbers)")
    # consumers: codes stay wide
    for qn, code_params in (("core._ravel_factorized", None), ("core.offset_labels", 0), ("core.factorize_", None)):
        g = ctx.prog.func(qn)
        n_casts = 0
        for c in walk_own(g.node):
            if not isinstance(c, ast.Call):
                continue
            d = None
            if isinstance(c.func, ast.Attribute) and c.func.attr in ("astype", "view") and not _on_module(c.func):
                d = c.args[0] if c.args else kwarg(c, "dtype")
                if c.func.attr == "view" and d is None:
                    continue
            elif norm(c.func) in CREATORS | CREATORS_LIKE | {"np.asarray", "np.array", "np.arange"}:
                d = kwarg(c, "dtype")
            if d is None:
                continue
            n_casts += 1
            txt = norm(d)
            ok = txt in WIDE or txt in ("bool", "np.bool_")
            res.inst(f"{qn}: cast/creation with dtype {txt} ({'wide' if ok else 'NOT intp'})", f"{qn}|{norm(c)[:60]}")
            if not ok:
                res.report(f"{qn}|narrowing|{txt}", f"flox/core.py:{c.lineno}", qn,
                           f"'{norm(c)[:90]}' gives a code array of dtype {txt}: group numbers reach ngroups * nslices and must stay intp")
        # in-place arithmetic keeps the dtype of its target: the target must be a wide array
        wg = Width(g, set(), set())
        for st in walk_own(g.node):
            if isinstance(st, ast.AugAssign) and isinstance(st.op, (ast.Add, ast.Mult, ast.Sub)) and isinstance(st.target, ast.Name):
                tw = wg.name(st.target.id)
                res.inst(f"{qn}: in-place {norm(st)[:60]} on {tw}", f"{qn}|aug|{st.target.id}")
        res.inst(f"{qn}: {n_casts} dtype-changing operation(s) on codes examined", f"{qn}|consumer")
    return res


# ---------------------------------------------------------------------------------------------
def _identity_defs(f, labels: str, codes: set[str]):
    """definitions `code = <labels through copy/astype/reshape/view only>`"""
    shape_only: set[str] = {labels}
    changed = True
    assigns = [n for n in walk_own(f.node) if isinstance(n, ast.Assign) and len(n.targets) == 1 and isinstance(n.targets[0], ast.Name)]

    def passthrough(e) -> str | None:
        while True:
            if isinstance(e, ast.Call) and isinstance(e.func, ast.Attribute) and e.func.attr in PRESERVING_METHODS | {"astype"} \
                    and not _on_module(e.func):
                e = e.func.value
            elif isinstance(e, ast.Call) and norm(e.func) in ("np.asarray", "np.array", "np.ravel", "np.reshape", "np.copy", "np.ascontiguousarray", "cast") and e.args:
                e = e.args[-1] if norm(e.func) == "cast" else e.args[0]
            else:
                break
        return e.id if isinstance(e, ast.Name) else None

    while changed:
        changed = False
        for a in assigns:
            src = passthrough(a.value)
            if src in shape_only and a.targets[0].id not in shape_only and a.targets[0].id not in codes:
                shape_only.add(a.targets[0].id)
                changed = True
    return [a for a in assigns if a.targets[0].id in codes and passthrough(a.value) in shape_only], shape_only


def _expand_flags(f, facts):
    """a true fact on a local flag assigned once from a conjunction contributes its conjuncts"""
    from ..dataflow import atom_of
    out = set(facts)
    assigns: dict[str, list] = {}
    for n in walk_own(f.node):
        if isinstance(n, ast.Assign) and len(n.targets) == 1 and isinstance(n.targets[0], ast.Name):
            assigns.setdefault(n.targets[0].id, []).append(n.value)
    work = list(facts)
    while work:
        a, pol = work.pop()
        if pol and a in assigns and len(assigns[a]) == 1:
            v = assigns[a][0]
            conj = v.values if isinstance(v, ast.BoolOp) and isinstance(v.op, ast.And) else [v]
            for c in conj:
                fa = atom_of(c)
                if fa not in out:
                    out.add(fa)
                    work.append(fa)
    return out


def rule_identitycodes(ctx) -> RuleResult:
    res = RuleResult("R-IDENTITYCODES", "labels are used as their own codes only for integer labels and the index 0..n-1, with both ends masked", min_instances=1)
    f, labels, codes = _producer(ctx)
    expect = f.params[1]
    pm = parents_map(f.node)
    idefs, shape_only = _identity_defs(f, labels, codes)
    res.inst(f"{f.qualname}: {len(idefs)} identity-coded definition(s): {[norm(a)[:60] for a in idefs]}", "identity-defs")
    for a in idefs:
        facts = _expand_flags(f, guard_facts(a, pm))
        true_atoms = [t for t, pol in facts if pol]
        need = {
            "start-is-0": lambda t: ("== 0" in t and (f"{expect}.start" in t or f"{expect}[0]" in t or f"{expect}.min()" in t)) or ".equals(" in t,
            "step-is-1": lambda t: ("== 1" in t and f"{expect}.step" in t) or ".equals(" in t,
            "integer-labels": lambda t: any(s in shape_only for s in names_in(ast.parse(t, mode="eval"))) and "dtype" in t
                                         and ("kind" in t or "integer" in t),
        }
        code = a.targets[0].id
        for what, pred in need.items():
            ok = any(_safe(pred, t) for t in true_atoms)
            res.inst(f"{f.qualname}: '{norm(a)[:50]}' guarded by {what}: {ok}", f"identity|{what}")
            if not ok:
                msg = {
                    "start-is-0": f"nothing establishes that the requested index starts at 0: with {expect} = RangeIndex(1, 5) label 1 is reduced into slot 1 (label 2)",
                    "step-is-1": f"nothing establishes that the requested index has step 1: with {expect} = RangeIndex(0, 6, 2) label 2 lands in slot 2 (label 4)",
                    "integer-labels": "nothing establishes that the labels are integers: floating labels (NaN for missing) become float codes "
                                      "(TypeError in the kernels) or are truncated by the cast (1.5 -> 1)",
                }[what]
                res.report(f"{f.qualname}|identity|{what}", f"flox/core.py:{a.lineno}", f.qualname,
                           f"'{norm(a)[:70]}' takes the labels as their own codes, but {msg}")
        # both ends masked to -1 in the same branch
        branch = _enclosing_block(a, pm)
        lo = hi = False
        for st in branch:
            for n in ast.walk(st):
                if isinstance(n, ast.Assign) and len(n.targets) == 1 and isinstance(n.targets[0], ast.Subscript) \
                        and isinstance(n.targets[0].value, ast.Name) and n.targets[0].value.id == code and norm(n.value) == "-1":
                    for c in ast.walk(n.targets[0].slice):
                        if isinstance(c, ast.Compare) and len(c.ops) == 1 and names_in(c.left) & {code}:
                            op = c.ops[0]
                            if isinstance(op, (ast.Gt, ast.GtE)) and names_in(c.comparators[0]) & {expect}:
                                hi = True
                            if isinstance(op, ast.Lt) and norm(c.comparators[0]) in ("0", f"{expect}[0]", f"{expect}.start"):
                                lo = True
        res.inst(f"{f.qualname}: identity branch masks codes beyond the last label: {hi}; below the first: {lo}", "identity|mask")
        if not hi:
            res.report(f"{f.qualname}|identity|upper-mask", f"flox/core.py:{a.lineno}", f.qualname,
                       f"labels beyond the last requested one are not recoded to -1 on the identity branch: they index past the result (or into the sentinel slot)")
        if not lo:
            res.report(f"{f.qualname}|identity|lower-mask", f"flox/core.py:{a.lineno}", f.qualname,
                       "one-sided range check: labels above the range are masked to -1 but negative labels other than -1 are kept as codes "
                       "(negative group numbers reach the kernels)")
    if not idefs:
        res.notes.append("no identity-coded branch on this tree: nothing to guard")
    return res


def _safe(pred, t):
    try:
        return bool(pred(t))
    except SyntaxError:
        return False


def _enclosing_block(node, pm):
    cur = node
    while True:
        par = pm.get(id(cur))
        if par is None:
            return [node]
        for fld in ("body", "orelse", "finalbody"):
            blk = getattr(par, fld, None)
            if isinstance(blk, list) and any(cur is s for s in blk):
                return blk
        cur = par


# ---------------------------------------------------------------------------------------------
# R-LABELVALUE (C05, C07): labels are only ever *compared* with the requested labels / bin edges.
# Which slot an element goes to is decided by np.searchsorted / np.isin / np.digitize / pd.factorize / Index.get_indexer on the label
# values.  The values handed to those primitives must be the user's labels themselves (reshaped / viewed at most): a converted copy
# (astype, rounding, np.where substitution, arithmetic) can make distinct labels collide (1.5 -> 1) or a missing label match.
MATCHERS = {  # primitive -> position of the label operand (None: receiver/first arg of a method)
    "np.searchsorted": 1, "np.isin": 0, "np.in1d": 0, "np.digitize": 0, "pd.factorize": 0, "pd.cut": 0, "np.unique": 0, "pd.unique": 0,
}
MATCHER_METHODS = {"get_indexer": 0, "get_indexer_for": 0, "searchsorted": 0, "isin": None}


def rule_labelvalue(ctx) -> RuleResult:
    res = RuleResult("R-LABELVALUE", "label values reach the lookup primitives unconverted (reshaped or viewed at most)", min_instances=4)
    f, labels, codes = _producer(ctx)
    _idefs, shape_only = _identity_defs(f, labels, set())
    # _identity_defs treats astype as pass-through for *codes*; for the values being matched a cast is a conversion
    derived = _label_derived(f, labels)
    from ..cfg import CFG
    from ..dataflow import node_containing, reaching_defs
    cfg = CFG(f)
    rd = reaching_defs(cfg)
    for c in walk_own(f.node):
        if not isinstance(c, ast.Call):
            continue
        fn = norm(c.func)
        operand = None
        if fn in MATCHERS:
            pos = MATCHERS[fn]
            operand = c.args[pos] if len(c.args) > pos else (kwarg(c, "x") or kwarg(c, "v") or kwarg(c, "element") or kwarg(c, "values"))
        elif isinstance(c.func, ast.Attribute) and c.func.attr in MATCHER_METHODS and not _on_module(c.func):
            pos = MATCHER_METHODS[c.func.attr]
            operand = c.func.value if pos is None else (c.args[pos] if len(c.args) > pos else None)
        if operand is None:
            continue
        roots = names_in(operand) & derived
        if not roots:
            continue            # the operand is not the labels (e.g. expect.searchsorted(...) on the requested labels)
        at = node_containing(cfg, c)
        how = _conversion(f, operand, labels, None, cfg, rd, at.id if at is not None else None)
        res.inst(f"{f.qualname}: {norm(c)[:60]}: label operand '{norm(operand)[:30]}' {'unconverted' if how is None else 'CONVERTED: ' + how}",
                 f"{f.qualname}|{fn}|{norm(operand)[:30]}")
        if how is not None:
            res.report(f"{f.qualname}|label-converted|{fn}", f"flox/core.py:{c.lineno}", f.qualname,
                       f"'{norm(c)[:80]}' looks up converted label values ({how}) instead of the labels themselves: distinct labels can collide "
                       "(1.5 -> 1 after a cast to the requested labels' dtype) or a substituted value can match a requested label")
    return res


def _label_derived(f, labels: str) -> set[str]:
    """locals whose value is computed from the labels (any operation)"""
    out = {labels}
    changed = True
    while changed:
        changed = False
        for a in walk_own(f.node):
            if isinstance(a, ast.Assign) and len(a.targets) == 1 and isinstance(a.targets[0], ast.Name) and a.targets[0].id not in out:
                if names_in(a.value) & out and not _is_lookup(a.value):
                    out.add(a.targets[0].id)
                    changed = True
    return out


def _is_lookup(e) -> bool:
    """results of lookups / predicates are codes or masks, not label values"""
    if isinstance(e, ast.Call):
        fn = norm(e.func)
        if fn in MATCHERS or fn in ("isnull", "np.isnan", "pd.isnull", "np.argsort", "np.zeros_like", "np.ones_like", "len"):
            return True
        if isinstance(e.func, ast.Attribute) and e.func.attr in MATCHER_METHODS and not _on_module(e.func):
            return True
    if isinstance(e, (ast.Compare, ast.BoolOp)):
        return True
    if isinstance(e, ast.BinOp) and isinstance(e.op, (ast.BitOr, ast.BitAnd)):
        return True
    if isinstance(e, ast.UnaryOp) and isinstance(e.op, (ast.Invert, ast.Not)):
        return True
    return False


_VALUE_PRESERVING_METHODS = {"reshape", "ravel", "squeeze", "flatten", "copy", "view", "transpose"}
_VALUE_PRESERVING_CALLS = {"np.asarray", "np.ravel", "np.reshape", "np.ascontiguousarray", "np.broadcast_to", "cast", "np.squeeze", "np.copy"}


def _conversion(f, e: ast.AST, labels: str, seen=None, cfg=None, rd=None, at=None) -> str | None:
    """None if e is the labels up to reshaping/viewing; else a description of the first converting operation.
    With (cfg, rd, at) the definitions consulted for a name are those reaching node `at` (flow-sensitive)."""
    seen = seen if seen is not None else set()
    while True:
        if isinstance(e, ast.Name):
            if rd is not None and at is not None:
                dnodes = [d for (v, d) in rd.get(at, ()) if v == e.id]
                if not dnodes:
                    return None if e.id == labels else None
                for d in dnodes:
                    if (e.id, d) in seen:
                        continue
                    seen.add((e.id, d))
                    a = cfg.nodes[d].ast
                    if isinstance(a, ast.Assign) and len(a.targets) == 1 and isinstance(a.targets[0], ast.Name):
                        how = _conversion(f, a.value, labels, seen, cfg, rd, d)
                    elif isinstance(a, ast.AugAssign):
                        how = f"'{norm(a)[:60]}'"
                    else:
                        how = None      # subscript stores, loop targets ...: not a rebinding of the whole array we can read
                    if how is not None:
                        return how
                return None
            if e.id == labels:
                return None
            if e.id in seen:
                return None
            seen.add(e.id)
            defs = [a.value for a in walk_own(f.node)
                    if isinstance(a, ast.Assign) and len(a.targets) == 1 and isinstance(a.targets[0], ast.Name) and a.targets[0].id == e.id]
            for d in defs:
                how = _conversion(f, d, labels, seen)
                if how is not None:
                    return how
            return None
        if isinstance(e, ast.Call) and isinstance(e.func, ast.Attribute) and e.func.attr in _VALUE_PRESERVING_METHODS and not _on_module(e.func):
            e = e.func.value
            continue
        if isinstance(e, ast.Call) and norm(e.func) in _VALUE_PRESERVING_CALLS and e.args and kwarg(e, "dtype") is None:
            e = e.args[-1] if norm(e.func) == "cast" else e.args[0]
            continue
        if isinstance(e, ast.Subscript):
            e = e.value
            continue
        if isinstance(e, ast.IfExp):
            return _conversion(f, e.body, labels, seen, cfg, rd, at) or _conversion(f, e.orelse, labels, seen, cfg, rd, at)
        return f"'{norm(e)[:60]}'"


# ---------------------------------------------------------------------------------------------
# R-CLOSEDSIDE (C07): binning respects which side of the intervals is closed, at *both* places that decide it.
# np.digitize(right=...) decides the interior edges; the out-of-range mask decides the outer edge: with right-closed bins a label equal
# to the last edge belongs to the last bin (mask must use <=), with left-closed bins it is outside (mask must use <).  Both decisions
# must therefore depend on the index's closed side; an outer-edge mask that ignores it is wrong for one of the two kinds of index.
_CLOSED_ATTRS = {"closed", "closed_right", "closed_left"}


def _local_closure(f, e: ast.AST, limit=6) -> list[ast.AST]:
    """e plus the values of the locals it mentions, transitively (flow-insensitive)"""
    assigns: dict[str, list] = {}
    for a in walk_own(f.node):
        if isinstance(a, ast.Assign) and len(a.targets) == 1 and isinstance(a.targets[0], ast.Name):
            assigns.setdefault(a.targets[0].id, []).append(a.value)
        elif isinstance(a, ast.Assign) and len(a.targets) == 1 and isinstance(a.targets[0], (ast.Tuple, ast.List)):
            # (x,) = value / a, b = value: every name depends on the whole value
            for t in a.targets[0].elts:
                if isinstance(t, ast.Name):
                    assigns.setdefault(t.id, []).append(a.value)
    out, seen, work = [e], set(), [(e, 0)]
    while work:
        cur, d = work.pop()
        if d >= limit:
            continue
        for nm in names_in(cur):
            if nm in seen:
                continue
            seen.add(nm)
            for v in assigns.get(nm, []):
                out.append(v)
                work.append((v, d + 1))
    return out


def _mentions_closed_side(exprs) -> bool:
    return any(isinstance(n, ast.Attribute) and n.attr in _CLOSED_ATTRS for e in exprs for n in ast.walk(e))


def rule_closedside(ctx) -> RuleResult:
    res = RuleResult("R-CLOSEDSIDE", "both the interior edges (np.digitize) and the outer-edge mask follow the closed side of the bins", min_instances=2)
    f, labels, codes = _producer(ctx)
    dig = [c for c in walk_own(f.node) if isinstance(c, ast.Call) and norm(c.func) in ("np.digitize", "numpy.digitize")]
    if not dig:
        res.notes.append("no np.digitize in _factorize_single: binning is implemented differently; rule not applicable")
        res.min_instances = 0
        return res
    edge_vars: set[str] = set()
    for c in dig:
        r = kwarg(c, "right") or (c.args[2] if len(c.args) > 2 else None)
        b = kwarg(c, "bins") or (c.args[1] if len(c.args) > 1 else None)
        if b is not None:
            edge_vars |= names_in(b)
        ok = r is not None and _mentions_closed_side(_local_closure(f, r))
        res.inst(f"{f.qualname}: np.digitize(right={norm(r) if r is not None else '<default False>'}) follows the closed side: {ok}", "digitize")
        if not ok:
            res.report(f"{f.qualname}|digitize-side", f"flox/core.py:{c.lineno}", f.qualname,
                       f"np.digitize is called with right={norm(r) if r is not None else 'False (default)'}, which does not depend on the closed side "
                       "of the requested IntervalIndex: labels on an interior edge go to the wrong bin for one kind of index (pandas.cut disagrees)")
    # outer-edge masks: stores of -1 under a mask comparing label values with the edges
    derived = _label_derived(f, labels)
    n_masks = 0
    for a in walk_own(f.node):
        if not (isinstance(a, ast.Assign) and len(a.targets) == 1 and isinstance(a.targets[0], ast.Subscript) and norm(a.value) == "-1"):
            continue
        tgt = a.targets[0]
        if not (isinstance(tgt.value, ast.Name) and tgt.value.id in codes):
            continue
        clo = _local_closure(f, tgt.slice)
        edge_cmp = [c for e in clo for c in ast.walk(e)
                    if isinstance(c, ast.Compare) and len(c.ops) == 1 and isinstance(c.ops[0], (ast.Lt, ast.LtE, ast.Gt, ast.GtE))
                    and (names_in(c) & edge_vars) and (names_in(c) & derived)]
        if not edge_cmp:
            continue
        n_masks += 1
        ok = _mentions_closed_side(clo)
        res.inst(f"{f.qualname}: outer-edge mask '{norm(a)[:40]}' ({', '.join(norm(c)[:30] for c in edge_cmp[:2])}) follows the closed side: {ok}", "outer")
        if not ok:
            res.report(f"{f.qualname}|outer-edge-side", f"flox/core.py:{a.lineno}", f.qualname,
                       f"the out-of-range mask '{norm(a)[:60]}' compares labels with the outer bin edge ({norm(edge_cmp[0])[:40]}) without looking at "
                       "which side of the bins is closed: a label equal to the last edge is kept for left-closed bins (or dropped for right-closed ones)")
    if n_masks == 0:
        res.report(f"{f.qualname}|outer-edge-unmasked", f.where(), f.qualname,
                   "np.digitize codes are used without an out-of-range mask on the outer edge: labels beyond the last edge get the code len(bins)-1, "
                   "an index past the last bin")
    # alphabet clause: pandas intervals are closed 'left', 'right', 'both' or 'neither'.  closed_right is a boolean, so 'both' and 'neither'
    # fall into one of the two half-open treatments unless the branch names them (a refusal, or an extra mask for labels that sit on an edge)
    txt = " ".join(norm(x) for x in walk_own(f.node) if isinstance(x, (ast.Compare,)))
    for member in ("both", "neither"):
        named = f"'{member}'" in txt or f'"{member}"' in txt
        res.inst(f"{f.qualname}: the closed side {member!r} is named (refused or handled) in the binning branch: {named}", f"closed|{member}")
        if not named:
            side = "right" if member == "both" else "left"
            res.report(f"{f.qualname}|closed-{member}-not-handled", f"flox/core.py:{dig[0].lineno}", f.qualname,
                       f"an IntervalIndex closed on {member!r} is binned like a {side}-closed one (closed_right is {member == 'both'}): labels that sit on an edge are "
                       + ("kept in one bin only" if member == "both" else "counted although pandas.cut drops them")
                       + "; the branch neither refuses nor handles this member of pandas' closed alphabet")
    # contiguity clause: edges built as "all left edges + the last right edge" describe the intervals only if they are contiguous.  The branch
    # must look at every right edge somewhere (a comparison of the labels with rights[code], or a contiguity test / refusal): otherwise a label
    # in the gap after interval i is given to interval i, where pandas.cut gives it to none.
    left_last = [a for a in walk_own(f.node) if isinstance(a, ast.Assign) and ".left" in norm(a.value) and ".right" in norm(a.value)
                 and any(isinstance(x, ast.Subscript) and ".right" in norm(x.value) and "-1" in norm(x.slice) for x in ast.walk(a.value))]
    if left_last:
        whole_right = [x for x in walk_own(f.node) if isinstance(x, ast.Attribute) and x.attr == "right"
                       and not any(x is y for a in left_last for y in ast.walk(a.value))]
        res.inst(f"{f.qualname}: edges = left edges + last right edge; every right edge consulted elsewhere: {bool(whole_right)}", "contiguity")
        if not whole_right:
            res.report(f"{f.qualname}|non-contiguous-intervals-binned-as-contiguous", f"flox/core.py:{left_last[0].lineno}", f.qualname,
                       f"'{norm(left_last[0])[:70]}' keeps one right edge only: for an IntervalIndex with gaps (pd.IntervalIndex.from_tuples([(0, 1), (2, 3)])) a label in "
                       "a gap is counted into the interval on its left, where pandas.cut drops it")
    # representation clause: labels and edges reach np.digitize in the SAME representation.  If the edges are viewed / cast (datetime64 edges as
    # int64) the labels must be converted under the same test, to the same unit: integers of different units compare silently wrong, and a
    # datetime label against integer edges is a TypeError.
    for c in dig:
        b = kwarg(c, "bins") or (c.args[1] if len(c.args) > 1 else None)
        x = c.args[0] if c.args else kwarg(c, "x")
        def conv(e):
            return any(isinstance(y, ast.Call) and isinstance(y.func, ast.Attribute) and y.func.attr in ("view", "astype") for y in ast.walk(e)) if e is not None else False
        cb, cx = conv(b), conv(x)
        res.inst(f"{f.qualname}: np.digitize({norm(x)[:30]}, bins={norm(b)[:40]}): edges converted: {cb}; labels converted: {cx}", f"repr|{c.lineno}")
        if cb and not cx:
            res.report(f"{f.qualname}|digitize-mixed-representation", f"flox/core.py:{c.lineno}", f.qualname,
                       f"the edges are converted ('{norm(b)[:50]}') but the labels are handed over as they are ('{norm(x)[:30]}'): datetime64 labels against integer edges "
                       "raise TypeError for any unit but ns and for NaT, and labels of another unit than the edges are binned silently wrong")
    return res


# ---------------------------------------------------------------------------------------------
# R-MISSINGCODE (C01, C05, C07): a missing label (NaN / NaT) is coded -1 by every code producer.
# pd.factorize does that itself.  np.searchsorted / np.digitize / np.unique do not (NaN sorts last and gets an ordinary code): a code array
# taken from them must, in the same branch, receive -1 under a mask that is true for missing labels -- a mask mentioning isnull/isnan of the
# labels, or the negation of an ordering comparison of the labels (comparisons with NaN/NaT are False) -- unless the branch is guarded to label
# kinds that have no missing value (dtype.kind in a subset of "iub").
MISSING_AWARE = {"pd.factorize", "pandas.factorize"}
MISSING_UNAWARE = {"np.searchsorted": None, "np.digitize": None, "np.unique": 1, "numpy.unique": 1, "np.argsort": None}
_NULL_TESTS = ("isnull(", "np.isnan(", "pd.isna(", "pd.isnull(", "isna(", "np.isnat(", "notnull(")


def rule_missingcode(ctx) -> RuleResult:
    res = RuleResult("R-MISSINGCODE", "every producer of group codes sends missing labels (NaN / NaT) to -1", min_instances=4)
    f, labels, codes = _producer(ctx)
    pm = parents_map(f.node)
    derived = _label_derived(f, labels)
    n_defs = 0
    for a in walk_own(f.node):
        if not isinstance(a, ast.Assign) or len(a.targets) != 1:
            continue
        tgt, val = a.targets[0], a.value
        code = None
        if isinstance(tgt, ast.Name) and tgt.id in codes:
            code, pos = tgt.id, None
        elif isinstance(tgt, (ast.Tuple, ast.List)):
            for i, e in enumerate(tgt.elts):
                if isinstance(e, ast.Name) and e.id in codes:
                    code, pos = e.id, i
        if code is None or not isinstance(val, ast.Call):
            continue
        fn = norm(val.func)
        if fn in MISSING_AWARE:
            n_defs += 1
            res.inst(f"{f.qualname}: {code} <- {fn}: missing-aware producer", f"{fn}")
            continue
        if fn not in MISSING_UNAWARE or not (names_in(val) & derived):
            continue
        if MISSING_UNAWARE[fn] is not None and pos is not None and pos != MISSING_UNAWARE[fn]:
            continue
        n_defs += 1
        # (a) guard to kinds without a missing value
        facts = _expand_flags(f, guard_facts(a, pm))
        kinds_ok = False
        for at, pol in facts:
            if pol and ".dtype.kind in " in at:
                lit = at.split(" in ", 1)[1].strip().strip("'\"")
                base = at.split(".dtype.kind", 1)[0]
                if base in derived and lit and set(lit) <= set("iub"):
                    kinds_ok = True
        # (b) a -1 store under a null-true mask in the same branch
        blk = _enclosing_block(a, pm)
        masked = None
        for st in blk:
            for n in ast.walk(st):
                if isinstance(n, ast.Assign) and len(n.targets) == 1 and isinstance(n.targets[0], ast.Subscript) \
                        and isinstance(n.targets[0].value, ast.Name) and n.targets[0].value.id == code and norm(n.value) == "-1":
                    clo = _local_closure(f, n.targets[0].slice)
                    txt = " ".join(norm(e) for e in clo)
                    null_test = any(w in txt for w in _NULL_TESTS) and any(names_in(e) & derived for e in clo)
                    negated_cmp = False
                    sl = n.targets[0].slice
                    if isinstance(sl, ast.UnaryOp) and isinstance(sl.op, ast.Invert):
                        for e in _local_closure(f, sl.operand):
                            for c in ast.walk(e):
                                if isinstance(c, ast.Compare) and len(c.ops) == 1 and isinstance(c.ops[0], (ast.Lt, ast.LtE, ast.Gt, ast.GtE)) \
                                        and names_in(c) & derived:
                                    negated_cmp = True
                    # ~np.isin(labels, requested): a missing label is not among the requested ones
                    for e in clo:
                        for u in ast.walk(e):
                            if isinstance(u, ast.UnaryOp) and isinstance(u.op, ast.Invert) and isinstance(u.operand, ast.Call) \
                                    and norm(u.operand.func) in ("np.isin", "np.in1d") and u.operand.args and names_in(u.operand.args[0]) & derived:
                                negated_cmp = True
                    if null_test or negated_cmp:
                        masked = norm(n)[:50] + (" [isnull mask]" if null_test else " [negated comparison: False for NaN]")
        ok = kinds_ok or masked is not None
        res.inst(f"{f.qualname}: {code} <- {fn} (not missing-aware): "
                 f"{'label kinds without missing values' if kinds_ok else masked if masked else 'NO -1 for missing labels'}", f"{fn}|{a.lineno}")
        if not ok:
            res.report(f"{f.qualname}|missing-not-coded|{fn}", f"flox/core.py:{a.lineno}", f.qualname,
                       f"'{norm(a)[:80]}': {fn} gives a missing label (NaN / NaT) an ordinary code, and this branch neither restricts the labels to kinds "
                       "without a missing value nor writes -1 under a mask that is true for missing labels: elements with a missing label form a "
                       "group of their own instead of being dropped")
    res.inst(f"{n_defs} code definitions examined", "count")
    return res


# ---------------------------------------------------------------------------------------------
# R-COUNTWIDTH (C01, C20): counting kernels accumulate in a platform integer.
# aggregate_flox's kernels accumulate in the dtype of the array they are given unless a dtype is passed (_np_grouped_op: `if dtype is None:
# dtype = array.dtype`).  The count kernel sums a validity mask: the mask must be widened (astype(int)) before it is summed, or a wide dtype
# passed explicitly; a bool/uint8 view counts modulo 256 (mean of a group with 300 members divides by 44).
def rule_countwidth(ctx) -> RuleResult:
    res = RuleResult("R-COUNTWIDTH", "counting kernels sum a mask that was widened to a platform integer", min_instances=1)
    n = 0
    for q, f in sorted(ctx.prog.funcs.items()):
        if not q.startswith("aggregate_flox.") or isinstance(f.node, ast.Lambda) or not ("len" in f.name or "count" in f.name):
            continue
        w = Width(f, set(), set())
        for c in walk_own(f.node):
            if not (isinstance(c, ast.Call) and norm(c.func) in ("sum", "nansum", "_np_grouped_op") and len(c.args) >= 2):
                continue
            n += 1
            data = c.args[1]
            got = w.expr(data)
            dk = kwarg(c, "dtype")
            wide_kw = dk is not None and norm(dk) in WIDE
            res.inst(f"{q}: {norm(c.func)}(group_idx, {norm(data)[:50]}, ...): summed in {got}" + (f" with dtype={norm(dk)}" if dk is not None else ""), f"{q}|{c.lineno}")
            if got != INTP and not wide_kw:
                res.report(f"{q}|narrow-count|{norm(data)[:30]}", f"flox/aggregate_flox.py:{c.lineno}", q,
                           f"'{norm(data)[:60]}' is summed without being widened to a platform integer ({got}): the kernels accumulate in the dtype of their "
                           "input when no dtype is passed, so the count wraps at 256 (bool / uint8) -- mean / nanmean with engine='flox' divide by count % 256")
    if n == 0:
        raise AnalysisError("aggregate_flox: no counting kernel (nanlen) summing a mask found (anchor)")
    return res


# ---------------------------------------------------------------------------------------------
# R-INDEXER (C09, C05, C02): the -1 of pandas' get_indexer is consulted before the result is used as a position.
# `A.get_indexer(B)` answers -1 for every member of B that is not in A.  Used as an index, -1 silently selects the LAST entry: a label that is
# absent from a block would receive the intermediate of the block's last group.  Every function that subscripts with a get_indexer result
# (directly or through a local name) also compares that result with the sentinel (== -1, != -1, >= 0, < 0) -- the mask that drives the fill.
def rule_indexer(ctx) -> RuleResult:
    res = RuleResult("R-INDEXER", "get_indexer results are compared with the -1 sentinel before they are used as positions", min_instances=2)
    n_calls = 0
    for q, f in sorted(ctx.prog.funcs.items()):
        if isinstance(f.node, ast.Lambda):
            continue
        calls = [c for c in walk_own(f.node) if isinstance(c, ast.Call) and isinstance(c.func, ast.Attribute) and c.func.attr in ("get_indexer", "get_indexer_for")]
        if not calls:
            continue
        # names bound to a get_indexer result
        bound: dict[str, ast.Call] = {}
        for a in walk_own(f.node):
            if isinstance(a, ast.Assign) and len(a.targets) == 1 and isinstance(a.targets[0], ast.Name) and a.value in calls:
                bound[a.targets[0].id] = a.value

        def is_result(e) -> bool:
            return e in calls or (isinstance(e, ast.Name) and e.id in bound)

        def sentinel_checked(key: str) -> bool:
            for c in walk_own(f.node):
                if isinstance(c, ast.Compare) and len(c.ops) == 1:
                    l, r = c.left, c.comparators[0]
                    for x, y in ((l, r), (r, l)):
                        if (norm(x) == key) and ((isinstance(y, ast.UnaryOp) and isinstance(y.op, ast.USub) and isinstance(y.operand, ast.Constant) and y.operand.value == 1)
                                                 or (isinstance(y, ast.Constant) and y.value in (0, -1) and isinstance(c.ops[0], (ast.Lt, ast.GtE, ast.Eq, ast.NotEq)))):
                            return True
            return False

        for c in calls:
            n_calls += 1
            key = next((nm for nm, v in bound.items() if v is c), norm(c))
            # uses as a position: a subscript index (possibly inside a tuple index / list of indexers), or stored into an indexer list
            used = []
            for s in walk_own(f.node):
                if isinstance(s, ast.Subscript) and isinstance(s.ctx, ast.Load):
                    for x in ast.walk(s.slice):
                        if (x is c) or (isinstance(x, ast.Name) and bound.get(x.id) is c):
                            used.append(s)
                if isinstance(s, ast.Assign):
                    for t in s.targets:
                        if isinstance(t, ast.Subscript) and ((s.value is c) or (isinstance(s.value, ast.Name) and bound.get(s.value.id) is c)):
                            used.append(s)           # indexer[axis] = idx ; array[tuple(indexer)] follows
            chk = sentinel_checked(key)
            res.inst(f"{q}: {norm(c)[:50]} -> '{key[:30]}': used as a position {len(used)}x, compared with the sentinel: {chk}", f"{q}|{norm(c)[:50]}")
            if used and not chk:
                res.report(f"{q}|indexer-sentinel-unchecked|{norm(c)[:40]}", f.where(used[0]), q,
                           f"'{norm(c)[:60]}' answers -1 for members that are absent, and '{key[:30]}' is used as a position ('{norm(used[0])[:60]}') without any "
                           "comparison with -1 in this function: an absent label silently takes the LAST entry along the axis (members of one group are counted "
                           "into another) instead of the fill value")
    if n_calls == 0:
        res.notes.append("no get_indexer call in the package")
    return res


# ---------------------------------------------------------------------------------------------
# R-INDEXDIR (C16, C05): a re-indexer gathers with the positions of the TARGET labels in the SOURCE labels.
# reindex_*(array, from_, to, ...): `array`'s last axis is labelled by `from_`, the result by `to`.  Reading `array[..., idx]` needs
# idx[j] = position of to[j] in from_, i.e. from_.get_indexer(to).  The opposite call, to.get_indexer(from_), gives where each source entry
# *goes* -- right as scatter coordinates (the sparse re-indexer), wrong as a gather index: for a permutation it is the inverse permutation,
# so labels come back in the requested order with the values of other labels (self-inverse permutations -- swaps -- hide it).
def rule_indexdir(ctx) -> RuleResult:
    res = RuleResult("R-INDEXDIR", "re-indexers gather from the data with from_.get_indexer(to), never with the inverse lookup", min_instances=2)
    n = 0
    for q, f in sorted(ctx.prog.funcs.items()):
        if isinstance(f.node, ast.Lambda) or not {"from_", "to"} <= set(f.params):
            continue
        data = f.params[0]
        calls = [c for c in walk_own(f.node) if isinstance(c, ast.Call) and isinstance(c.func, ast.Attribute) and c.func.attr == "get_indexer"
                 and isinstance(c.func.value, ast.Name)]
        if not calls:
            continue
        bound: dict[str, list] = {}
        for a in walk_own(f.node):
            if isinstance(a, ast.Assign) and len(a.targets) == 1 and isinstance(a.targets[0], ast.Name) and a.value in calls:
                bound.setdefault(a.targets[0].id, []).append(a.value)
        # lists that carry an indexer: L[k] = name
        carriers: dict[str, set] = {}
        for a in walk_own(f.node):
            if isinstance(a, ast.Assign) and len(a.targets) == 1 and isinstance(a.targets[0], ast.Subscript) and isinstance(a.targets[0].value, ast.Name) \
                    and isinstance(a.value, ast.Name) and a.value.id in bound:
                carriers.setdefault(a.targets[0].value.id, set()).add(a.value.id)
        for c in calls:
            n += 1
            recv = c.func.value.id
            names = {nm for nm, vs in bound.items() if c in vs}
            gathers = []
            for s in walk_own(f.node):
                if isinstance(s, ast.Subscript) and isinstance(s.ctx, ast.Load) and isinstance(s.value, ast.Name) and s.value.id == data:
                    inside = {x.id for x in ast.walk(s.slice) if isinstance(x, ast.Name)}
                    if any(x is c for x in ast.walk(s.slice)) or (inside & names) or any(carriers.get(l, set()) & names for l in inside):
                        gathers.append(s)
            res.inst(f"{q}: {norm(c)} -> {sorted(names) or '(inline)'}: used to gather from '{data}' {len(gathers)}x; receiver is the source labels: {recv == 'from_'}",
                     f"{q}|{norm(c)}")
            if gathers and recv != "from_":
                res.report(f"{q}|gather-with-inverse-lookup|{norm(c)}", f.where(gathers[0]), q,
                           f"'{norm(gathers[0])[:50]}' reads the data at positions computed by '{norm(c)}' -- the position of each SOURCE label in the target, the inverse of "
                           "what a gather needs (from_.get_indexer(to)): when the labels are a permutation of the requested ones (cohorts / blockwise with sort=False) "
                           "every label comes back in the right slot with the value of another label, unless the permutation is its own inverse")
    if n == 0:
        res.notes.append("no get_indexer call in a (data, from_, to) re-indexer")
        res.min_instances = 0
    return res


# ---------------------------------------------------------------------------------------------
# R-PLACEHOLDER (C12, C19): the placeholder label of a block without any valid label has the labels' own dtype.
# chunk_reduce answers an all-missing block with one missing label that the combine steps drop again.  With labels found at compute time
# the block label arrays are concatenated: an untyped float NaN next to datetime64 labels is a DTypePromotionError inside a task, next to
# float32 labels it changes the dtype of the returned labels.  The sibling arm hands on `groups` (typed like the labels), so the placeholder
# arm must build its array from the labels' dtype (by.dtype / groups.dtype) wherever that dtype has a missing value.
def rule_placeholder(ctx) -> RuleResult:
    res = RuleResult("R-PLACEHOLDER", "the placeholder label of an all-missing block is typed like the labels", min_instances=1)
    f = ctx.prog.func("core.chunk_reduce")
    lab = f.params[1]
    n = 0
    for a in walk_own(f.node):
        if not (isinstance(a, ast.Assign) and len(a.targets) == 1 and norm(a.targets[0]).replace('"', "'") == "results['groups']"):
            continue
        has_nan = any(norm(x) in ("np.nan", "float('nan')", "np.datetime64('NaT')") for x in ast.walk(a.value))
        if not has_nan:
            continue
        n += 1
        typed = any(isinstance(x, ast.Attribute) and x.attr == "dtype" and isinstance(x.value, ast.Name) and x.value.id in (lab, "groups", "group_idx", "grps")
                    for x in ast.walk(a.value))
        res.inst(f"chunk_reduce: placeholder '{norm(a.value)[:60]}' refers to the labels' dtype: {typed}", f"placeholder|{a.lineno}")
        if not typed:
            res.report("core.chunk_reduce|untyped-placeholder-label", f.where(a), f.qualname,
                       f"'{norm(a)[:70]}' answers a block without valid labels with a float64 NaN whatever the labels are: with labels found at compute time the block "
                       "label arrays are concatenated, which raises DTypePromotionError for datetime64 / timedelta64 labels (a block of NaT) and turns float32 labels "
                       "into float64")
    if n == 0:
        res.notes.append("chunk_reduce no longer uses a missing-label placeholder: rule not applicable")
        res.min_instances = 0
    return res


# ---------------------------------------------------------------------------------------------
# R-INTINDEX (C19, C02): values handed to np.unravel_index are integer-typed on every plan.
# Arg reductions carry positions through the same `.astype(dtype)` pipeline as values.  The slot that holds the *index* of the block extreme
# is pinned to np.intp by every arg-reduction blueprint (registry: dtypes[1]); the slot of the eager path (`_reduce_blockwise`,
# intermediates[0]) is cast to the FINAL dtype, which _normalize_dtype widens to floating for a NaN / fractional fill_value (R-FILLWIDEN).
# np.unravel_index rejects floats ("only int indices permitted"), so a first argument must be either an explicit integer cast or a slot
# that the registry pins to an integer dtype.
def rule_intindex(ctx) -> RuleResult:
    res = RuleResult("R-INTINDEX", "np.unravel_index only receives integer-typed positions", min_instances=2)
    from .. import tables as T
    pinned = all(isinstance(rec.args.get("dtypes"), tuple) and len(rec.args["dtypes"]) > 1 and str(rec.args["dtypes"][1]) == str(T.INTP)
                 for _k, rec in ctx.registry.agg_items() if not rec.errors and rec.args.get("reduction_type") == "argreduce")
    n = 0
    for q, f in sorted(ctx.prog.funcs.items()):
        if isinstance(f.node, ast.Lambda):
            continue
        for c in walk_own(f.node):
            if not (isinstance(c, ast.Call) and norm(c.func) in ("np.unravel_index", "numpy.unravel_index") and c.args):
                continue
            n += 1
            x = c.args[0]
            cast = isinstance(x, ast.Call) and isinstance(x.func, ast.Attribute) and x.func.attr == "astype" and x.args \
                and norm(x.args[0]) in ("np.intp", "np.int64", "np.int_", "int", "'intp'", "'int64'")
            slot = None
            if isinstance(x, ast.Subscript) and isinstance(x.slice, ast.Constant) and isinstance(x.value, ast.Subscript) \
                    and isinstance(x.value.slice, ast.Constant) and x.value.slice.value == "intermediates":
                slot = x.slice.value
            plain_index = isinstance(x, ast.Name) or (isinstance(x, ast.Subscript) and slot is None)      # flat block numbers, loop indices: integers by construction
            ok = cast or (slot is not None and slot >= 1 and pinned) or plain_index
            why = "explicit integer cast" if cast else (f"slot {slot} pinned to intp by every arg-reduction blueprint" if (slot is not None and slot >= 1 and pinned)
                                                        else ("integer index by construction" if plain_index else f"slot {slot}: cast to the final dtype, which may be floating"))
            res.inst(f"{q}: np.unravel_index({norm(x)[:50]}, …): {why}", f"{q}|{norm(x)[:40]}")
            if not ok:
                res.report(f"{q}|unravel-of-final-dtype-slot", f.where(c), q,
                           f"'{norm(c)[:70]}' unravels a value that chunk_reduce has cast to the final dtype; with fill_value=np.nan (or any fractional fill) that dtype "
                           "is floating and NumPy raises TypeError 'only int indices permitted' for the in-memory call, while the chunked plans return the float result")
    if n == 0:
        res.notes.append("np.unravel_index is not used")
        res.min_instances = 0
    # kernel clause: numpy_groupies unravels the positions of an N-d arg reduction itself, in the dtype it is handed.  The eager dtype slot
    # (agg.dtype["numpy"]) defaults to the FINAL dtype -- floating for a NaN fill -- so the branch of _initialize_aggregation that pins the eager
    # fill of arg reductions (agg.fill_value["numpy"] = (0,), "this allows us to unravel_index easily") must pin the eager dtype to an integer too.
    ia = ctx.prog.func("aggregations._initialize_aggregation")
    arms = [st for st in walk_own(ia.node) if isinstance(st, ast.If) and "_is_arg_reduction" in norm(st.test)
            and any(isinstance(a, ast.Assign) and "fill_value['numpy']" in norm(a.targets[0]).replace('"', "'") for a in st.body)]
    if not arms:
        res.notes.append("UNDECIDED: _initialize_aggregation no longer pins the eager fill of arg reductions in an `if _is_arg_reduction(agg)` arm")
    for st in arms:
        pins = [a for a in st.body if isinstance(a, ast.Assign) and "dtype['numpy']" in norm(a.targets[0]).replace('"', "'")]
        ok = any(any(k in norm(a.value) for k in ("np.intp", "np.int64", "np.int_")) for a in pins)
        res.inst(f"_initialize_aggregation: the arg-reduction arm pins the eager kernel dtype to an integer: {ok}", "eager-dtype")
        if not ok:
            res.report("aggregations._initialize_aggregation|eager-argreduce-dtype-not-integer", ia.where(st), ia.qualname,
                       "the arm that pins the eager fill of arg reductions leaves agg.dtype['numpy'] at the final dtype: with fill_value=np.nan that is float64, and "
                       "numpy_groupies' own unravel of an N-d arg reduction raises TypeError 'only int indices permitted' (1-D input works, N-d does not)")
    return res


# ---------------------------------------------------------------------------------------------
# R-ONESIDED (C10, C01): "all codes are equal" is never concluded from one end of their range.
# Group codes carry the missing-label code -1 next to 0..n-1 (the scan kernels keep -1 as a group of its own, the reduction kernels drop it
# later).  `codes.max() == 0` -- or `codes.max() < 1` -- does not say that there is a single group: {-1, 0} satisfies it, and a kernel that
# then skips its sort / boundary search treats the unlabelled positions and group 0 as one sequence (values cross between groups).  A test on
# the maximum of a code array must be conjoined with one on its minimum (or be written as an all-equal / non-negativity test).
def rule_onesided(ctx) -> RuleResult:
    res = RuleResult("R-ONESIDED", "single-group shortcuts test both ends of the code range", min_instances=0)
    n = 0
    for q, f in sorted(ctx.prog.funcs.items()):
        if isinstance(f.node, ast.Lambda) or f.is_overload:
            continue
        code_names = {p for p in f.params if p in ("group_idx", "codes", "labels", "idx", "by")} | \
                     {a.targets[0].id for a in walk_own(f.node) if isinstance(a, ast.Assign) and len(a.targets) == 1 and isinstance(a.targets[0], ast.Name)
                      and a.targets[0].id in ("group_idx", "codes")}
        if not code_names:
            continue
        for st in walk_own(f.node):
            if not isinstance(st, (ast.If, ast.IfExp, ast.While)):
                continue
            leaves = st.test.values if isinstance(st.test, ast.BoolOp) and isinstance(st.test.op, ast.And) else [st.test]
            def is_end(e, which):
                return isinstance(e, ast.Compare) and len(e.ops) == 1 and isinstance(e.left, ast.Call) and isinstance(e.left.func, ast.Attribute) \
                    and e.left.func.attr == which and isinstance(e.left.func.value, ast.Name) and e.left.func.value.id in code_names \
                    and isinstance(e.comparators[0], ast.Constant) and isinstance(e.comparators[0].value, int)
            tops = [l for l in leaves if is_end(l, "max") and isinstance(l.ops[0], (ast.Eq, ast.LtE, ast.Lt))]
            for t in tops:
                n += 1
                v = t.left.func.value.id
                both = any(is_end(l, "min") and l.left.func.value.id == v for l in leaves) \
                    or any(isinstance(l, ast.Compare) and v in names_in(l) and isinstance(l.ops[0], (ast.GtE, ast.Gt)) for l in leaves if l is not t)
                res.inst(f"{q}: '{norm(st.test)[:60]}' bounds {v} from above; lower end tested too: {both}", f"{q}|{norm(t)[:40]}")
                if not both:
                    res.report(f"{q}|single-group-from-maximum|{norm(t)[:30]}", f.where(st), q,
                               f"'{norm(t)}' is taken for \"a single group\", but codes also carry -1 for missing labels: {{-1, 0}} passes the test, and the shortcut then "
                               "handles the unlabelled positions and the first group as one run (a forward fill crosses from one into the other)")
    if n == 0:
        res.notes.append("no shortcut on the maximum of a code array today (the self-test keeps a positive example)")
    return res


# ---------------------------------------------------------------------------------------------
# R-EDGEVALUE (C07, C05): requested labels and bin edges enter the index with the values the user gave.
# _convert_expected_groups_to_index wraps the user's expected_groups into pd.Index / pd.IntervalIndex objects; labels are later compared with
# them exactly (searchsorted / digitize).  A cast of the edges to floating point before the index is built rounds integers beyond 2**53 (epoch
# nanoseconds) to multiples of 256 -- and promotes the integer labels with them in every comparison -- so labels near an edge change bins
# where pandas.cut is exact.  No `.astype(<floating>)` (nor np.asarray(..., dtype=float)) in the def-use closure of what is handed to the
# index constructors.
def rule_edgevalue(ctx) -> RuleResult:
    res = RuleResult("R-EDGEVALUE", "the user's requested labels / bin edges are wrapped into indexes without a lossy cast", min_instances=2)
    f = ctx.prog.func("core._convert_expected_groups_to_index")
    n = 0
    for c in calls_in(f.node):
        fn = norm(c.func)
        if fn not in ("pd.IntervalIndex.from_breaks", "pd.Index", "pd.IntervalIndex", "pd.IntervalIndex.from_arrays", "pandas.Index") or not c.args:
            continue
        n += 1
        clo = _local_closure(f, c.args[0])
        lossy = []
        for e in clo:
            for x in ast.walk(e):
                if isinstance(x, ast.Call) and isinstance(x.func, ast.Attribute) and x.func.attr == "astype" and x.args and "float" in norm(x.args[0]):
                    lossy.append(x)
                if isinstance(x, ast.Call) and norm(x.func) in ("np.asarray", "np.array", "np.asanyarray") and kwarg(x, "dtype") is not None and "float" in norm(kwarg(x, "dtype")):
                    lossy.append(x)
        res.inst(f"_convert_expected_groups_to_index: {fn}({norm(c.args[0])[:30]}): lossy casts on the way: {[norm(x)[:40] for x in lossy] or '-'}", f"ctor|{c.lineno}")
        for x in lossy[:1]:
            res.report(f"core._convert_expected_groups_to_index|edges-cast-to-float|{fn}", f.where(x), f.qualname,
                       f"'{norm(x)[:50]}' converts the requested labels / edges to floating point before {fn}(…): integers beyond 2**53 are rounded (and integer labels are "
                       "promoted with them in every later comparison), so a label within 128 of an edge lands in another bin than pandas.cut puts it in")
    if n == 0:
        raise AnalysisError("_convert_expected_groups_to_index builds no pandas index (anchor)")
    return res
