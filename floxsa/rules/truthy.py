"""R-TRUTHY: a fill value (or the optional min_count) is never coerced to bool (C05)."""
from __future__ import annotations

import ast

from ..astutil import access_path
from ..model import Func, norm, walk_own
from ..report import RuleResult

BASE_NAMES = {"fill_value", "fv", "fill_values", "fillna", "final_fill_value", "default_fv", "int_fv",
              "user_fill_value", "fill", "min_count"}
FILL_FUNCS = ("_get_fill_value", "get_fill_value")


def _is_fill_expr(e: ast.AST, fam: set[str]) -> bool:
    if isinstance(e, ast.Name):
        return e.id in fam
    if isinstance(e, ast.Subscript):
        p = access_path(e.value) or ""
        last = p.split(".")[-1]
        if last in ("fill_value", "fill_values") or last in fam:
            return True
        if isinstance(e.slice, ast.Constant) and e.slice.value in ("fill_value", "min_count"):
            return True   # kwargs["fill_value"]
        return False
    if isinstance(e, ast.Attribute):
        return e.attr in ("identity",) and isinstance(e.value, ast.Name) and e.value.id in ("agg", "scan")
    if isinstance(e, ast.Call):
        fn = norm(e.func)
        return fn.split(".")[-1] in FILL_FUNCS
    if isinstance(e, ast.IfExp):
        return _is_fill_expr(e.body, fam) or _is_fill_expr(e.orelse, fam)
    if isinstance(e, ast.BoolOp):
        return any(_is_fill_expr(v, fam) for v in e.values)
    if isinstance(e, ast.NamedExpr):
        return _is_fill_expr(e.value, fam)
    return False


def family(f: Func) -> set[str]:
    fam = {n for n in BASE_NAMES}
    changed = True
    while changed:
        changed = False
        for n in walk_own(f.node):
            if isinstance(n, ast.Assign) and len(n.targets) == 1 and isinstance(n.targets[0], ast.Name):
                if n.targets[0].id not in fam and _is_fill_expr(n.value, fam):
                    fam.add(n.targets[0].id)
                    changed = True
            elif isinstance(n, (ast.For, ast.comprehension)):
                it, tgt = n.iter, n.target
                # for a, b in zip(X, FILLS): b is a fill
                if isinstance(it, ast.Call) and norm(it.func) == "zip" and isinstance(tgt, ast.Tuple):
                    for el, src in zip(tgt.elts, it.args):
                        if isinstance(el, ast.Name) and el.id not in fam and _container_of_fills(src, fam):
                            fam.add(el.id)
                            changed = True
                elif isinstance(tgt, ast.Name) and tgt.id not in fam and _container_of_fills(it, fam):
                    fam.add(tgt.id)
                    changed = True
    return fam


def _container_of_fills(e: ast.AST, fam) -> bool:
    if isinstance(e, ast.Name):
        return e.id in ("fill_values",) or (e.id in fam and e.id.endswith("s"))
    if isinstance(e, ast.Subscript):
        p = access_path(e.value) or ""
        return p.split(".")[-1] == "fill_value"
    return False


def _leaves(e: ast.AST, what: str):
    """leaves of a boolean expression: every one of them is coerced to bool"""
    if isinstance(e, ast.BoolOp):
        for v in e.values:
            yield from _leaves(v, what)
    elif isinstance(e, ast.UnaryOp) and isinstance(e.op, ast.Not):
        yield from _leaves(e.operand, "operand of 'not'")
    else:
        yield e, what


def _bool_contexts(f: Func):
    """yield (expr, description) for every expression evaluated for its truth value."""
    in_test: set[int] = set()
    nodes = list(walk_own(f.node))
    for n in nodes:
        tests = []
        if isinstance(n, (ast.If, ast.While)):
            tests.append((n.test, type(n).__name__.lower() + " test"))
        elif isinstance(n, ast.Assert):
            tests.append((n.test, "assert test"))
        elif isinstance(n, ast.IfExp):
            tests.append((n.test, "conditional-expression test"))
        elif isinstance(n, ast.Call) and norm(n.func) == "bool" and n.args:
            tests.append((n.args[0], "argument of bool()"))
        elif isinstance(n, ast.comprehension):
            tests += [(c, "comprehension filter") for c in n.ifs]
        for t, what in tests:
            for sub in ast.walk(t):
                in_test.add(id(sub))
            yield from _leaves(t, what)
    for n in nodes:
        if id(n) in in_test:
            continue
        if isinstance(n, ast.BoolOp):
            # value context: every operand but the last is coerced to bool
            opname = "and" if isinstance(n.op, ast.And) else "or"
            for v in n.values[:-1]:
                yield from _leaves(v, f"operand of '{opname}'")
            last = n.values[-1]
            if isinstance(last, (ast.BoolOp, ast.UnaryOp)):
                for sub in ast.walk(last):
                    pass
        elif isinstance(n, ast.UnaryOp) and isinstance(n.op, ast.Not):
            yield from _leaves(n.operand, "operand of 'not'")


def rule_truthy(ctx) -> RuleResult:
    res = RuleResult("R-TRUTHY", "no fill-value-typed expression (nor the optional min_count) is used in a boolean context",
                     min_instances=15)
    ncompare = 0
    for f in ctx.prog.all_funcs():
        fam = family(f)
        for e, what in _bool_contexts(f):
            mentions = any(_is_fill_expr(sub, fam) for sub in ast.walk(e) if isinstance(sub, (ast.Name, ast.Subscript, ast.Attribute)))
            if not mentions:
                continue
            if _is_fill_expr(e, fam):
                res.inst(f"{f.qualname}: {what}: {norm(e)} [TRUTHINESS]", f"{f.qualname}|{norm(e)}")
                res.report(f"{f.qualname}|{what.split()[0]}|{norm(e)[:80]}", f.where(e), f.qualname,
                           f"{norm(e)} used as {what}: a legitimate fill of 0, 0.0 or False (or min_count=0) is falsy and is silently replaced")
            else:
                ncompare += 1
                res.inst(f"{f.qualname}: {what}: {norm(e)} [comparison idiom]", f"{f.qualname}|{norm(e)}")
    res.notes.append(f"{ncompare} boolean contexts mention a fill value only through comparisons / predicate calls (accepted idiom)")
    return res
