"""R-PAIRS: small structural agreements between two sites that must move together (C01, C02, C07, C08, C11)."""
from __future__ import annotations

import ast

from ..astutil import calls_in, kwarg, names_in, parents_map, ancestors
from ..model import AnalysisError, norm, walk_own
from ..report import RuleResult


def _flatten_add(e: ast.AST) -> list[ast.AST]:
    if isinstance(e, ast.BinOp) and isinstance(e.op, ast.Add):
        return _flatten_add(e.left) + _flatten_add(e.right)
    return [e]


def rule_pairs_perm(ctx) -> RuleResult:
    res = RuleResult("R-PAIRS[perm]", "the flox engine permutes labels and values with one and the same permutation", min_instances=1)
    f = ctx.prog.func("aggregate_flox._prepare_for_flox")
    sorts = [c for c in calls_in(f.node) if isinstance(c.func, ast.Attribute) and c.func.attr == "argsort" or norm(c.func) in ("np.argsort", "numpy.argsort")]
    if not sorts:
        raise AnalysisError("_prepare_for_flox: argsort vanished")
    pm = parents_map(f.node)
    st = next(a for a in ancestors(sorts[0], pm) if isinstance(a, ast.Assign))
    perm = norm(st.targets[0])
    idxd = []
    for n in walk_own(f.node):
        if isinstance(n, ast.Assign) and isinstance(n.value, ast.Subscript):
            last = n.value.slice.elts[-1] if isinstance(n.value.slice, ast.Tuple) else n.value.slice
            if norm(last) == perm:
                idxd.append(norm(n.value.value))
    p = f.params
    ok = set(idxd) >= {p[0], p[1]}
    res.inst(f"_prepare_for_flox: permutation {perm} applied to {idxd}", "perm")
    if not ok:
        res.report("aggregate_flox._prepare_for_flox|perm-pair", f.where(st), f.qualname,
                   f"the stable permutation {perm} is applied to {idxd}; both the labels ({p[0]}) and the values ({p[1]}) must be permuted by it")
    # the returned triple carries that same permutation for ffill to invert
    rets = [n for n in walk_own(f.node) if isinstance(n, ast.Return) and isinstance(n.value, ast.Tuple)]
    if rets and perm not in [norm(e) for e in rets[-1].value.elts]:
        res.report("aggregate_flox._prepare_for_flox|perm-returned", f.where(rets[-1]), f.qualname, f"the permutation {perm} is not returned (ffill inverts it)")
    return res


def rule_pairs_collapse(ctx) -> RuleResult:
    res = RuleResult("R-PAIRS[collapse]", "labels and values are collapsed over the same number of trailing axes", min_instances=1)
    f = ctx.prog.func("core.chunk_reduce")
    cs = [c for c in calls_in(f.node) if norm(c.func) == "_collapse_axis" and len(c.args) == 2]
    if len(cs) < 2:
        raise AnalysisError("chunk_reduce: the pair of _collapse_axis calls vanished")
    ns = {norm(c.args[1]) for c in cs}
    res.inst(f"chunk_reduce: _collapse_axis applied to {[norm(c.args[0]) for c in cs]} with naxis {sorted(ns)}", "collapse")
    if len(ns) != 1:
        res.report("core.chunk_reduce|collapse-pair", f.where(cs[0]), f.qualname, f"labels and values are collapsed over different numbers of axes: {sorted(ns)}")
    # the labels may be reshaped / collapsed / broadcast, but never *sampled*: rebinding them to one of their own slices (by[0]) throws the
    # labels of every other kept slice away -- sound only if all slices are equal, which a comparison of two of them does not establish
    lab = next((norm(c.args[0]) for c in cs if isinstance(c.args[0], ast.Name) and c.args[0].id != f.params[0]), None)
    if lab is not None:
        for a in walk_own(f.node):
            if isinstance(a, ast.Assign) and any(isinstance(t, ast.Name) and t.id == lab for t in a.targets):
                sampled = [x for x in ast.walk(a.value) if isinstance(x, ast.Subscript) and isinstance(x.value, ast.Name) and x.value.id == lab
                           and not isinstance(x.slice, (ast.Slice, ast.Tuple)) and not (isinstance(x.slice, ast.Constant) and x.slice.value is Ellipsis)
                           and (isinstance(x.slice, ast.Constant) or (isinstance(x.slice, ast.UnaryOp) and isinstance(x.slice.operand, ast.Constant)))]
                res.inst(f"chunk_reduce: labels rebound by '{norm(a)[:50]}': keeps every slice: {not sampled}", f"rebind|{a.lineno}")
                if sampled:
                    res.report(f"core.chunk_reduce|labels-sampled|{norm(sampled[0])}", f.where(a), f.qualname,
                               f"'{norm(a)[:60]}' replaces the labels by one of their slices ({norm(sampled[0])}): every other kept slice is then reduced with the "
                               "labels of that one (a first-equals-last test does not show that the slices in between are equal)")
    return res


def rule_pairs_dummyaxis(ctx) -> RuleResult:
    res = RuleResult("R-PAIRS[dummy-axis]", "the dummy axis is inserted, combined over and squeezed out at one and the same position", min_instances=3)
    prog = ctx.prog
    sites = []
    ed = prog.func("core._expand_dims")
    for c in calls_in(ed.node):
        if norm(c.func).endswith("expand_dims") and len(c.args) == 2:
            sites.append((ed, c, norm(c.args[1])))
    sc = prog.func("core._simple_combine")
    for n in walk_own(sc.node):
        if isinstance(n, ast.Assign) and isinstance(n.value, ast.BinOp) and "axis" in norm(n.targets[0]) and isinstance(n.value.right, ast.Tuple):
            sites.append((sc, n, norm(n.value.right.elts[0])))
    for c in calls_in(sc.node):
        if isinstance(c.func, ast.Attribute) and c.func.attr == "squeeze" and c.args:
            sub = [x for x in ast.walk(c.args[0]) if isinstance(x, ast.Subscript)]
            if sub:
                sites.append((sc, c, norm(sub[0].slice)))
    if len(sites) < 3:
        raise AnalysisError(f"dummy-axis sites found: {len(sites)} (hand-confirmed: insert, combine axis, squeeze)")
    vals = {v for _, _, v in sites}
    for f, n, v in sites:
        res.inst(f"{f.qualname}: {norm(n)[:60]} uses {v}", f"{f.qualname}|{norm(n)[:30]}")
    if len(vals) != 1:
        f, n, _ = sites[0]
        res.report("core._simple_combine|dummy-axis-disagree", f.where(n), "core._expand_dims / core._simple_combine",
                   f"the dummy axis is referred to as {sorted(vals)} at its three sites: the axis that is reduced or squeezed is not the one that was inserted")
    # concatenation and reduction use the same axis tuple
    concs = [c for c in calls_in(sc.node) if norm(c.func) == "_conc2" and kwarg(c, "axis") is not None]
    combs = [c for c in calls_in(sc.node) if norm(c.func) == "combine" and kwarg(c, "axis") is not None]
    if concs and combs:
        a, b = norm(kwarg(concs[0], "axis")), norm(kwarg(combs[0], "axis"))
        res.inst(f"_simple_combine: concatenates along {a}, reduces along {b}", "axes")
        if a != b:
            res.report("core._simple_combine|concat-vs-reduce-axis", sc.where(combs[0]), sc.qualname, f"intermediates are concatenated along {a} but reduced along {b}")
    return res


def rule_pairs_outinds(ctx) -> RuleResult:
    res = RuleResult("R-PAIRS[out-inds]", "announced output indices and announced output chunks list (new dims, batch dims, group dim) in the same order",
                     min_instances=1)
    f = ctx.prog.func("core.dask_groupby_agg")
    exprs = {}
    for n in walk_own(f.node):
        if isinstance(n, ast.Assign) and len(n.targets) == 1 and norm(n.targets[0]) in ("out_inds", "output_chunks"):
            exprs[norm(n.targets[0])] = n
    if len(exprs) < 2:
        # structural fallback: the two operands of dict(zip(A, B)) passed as adjust_chunks
        for c in calls_in(f.node):
            v = kwarg(c, "adjust_chunks")
            if v is not None and isinstance(v, ast.Call) and norm(v.func) == "dict" and v.args and isinstance(v.args[0], ast.Call) and norm(v.args[0].func) == "zip":
                sc = ctx.resolver.scope(f)
                for nm in v.args[0].args:
                    for kind, node in sc.bind.get(norm(nm), []):
                        if kind == "assign":
                            exprs[norm(nm)] = ast.Assign(targets=[nm], value=node, lineno=node.lineno)
    if len(exprs) != 2:
        raise AnalysisError("dask_groupby_agg: out_inds / output_chunks (the operands of adjust_chunks=dict(zip(...))) not found")

    def kinds(e):
        out = []
        for t in _flatten_add(e):
            s = norm(t)
            if "new_" in s:
                out.append("new")
            elif isinstance(t, ast.Subscript) and isinstance(t.slice, ast.Slice) and t.slice.upper is not None and "len(axis)" in norm(t.slice.upper):
                out.append("batch")
            else:
                out.append("group")
        return out

    (n1, a1), (n2, a2) = sorted(exprs.items())
    k1, k2 = kinds(a1.value), kinds(a2.value)
    res.inst(f"{n1} = {norm(a1.value)[:60]} -> {k1}; {n2} = {norm(a2.value)[:60]} -> {k2}", "outinds")
    if k1 != k2:
        res.report("core.dask_groupby_agg|outinds-order", f.where(a1), f.qualname,
                   f"{n1} lists {k1} but {n2} lists {k2}: the announced chunks are attached to the wrong output axes")
    return res


def rule_pairs_groupers(ctx) -> RuleResult:
    res = RuleResult("R-PAIRS[groupers]", "per-grouper codes, labels and group sizes are kept in the order of the groupers", min_instances=2)
    prog = ctx.prog
    REORDER = ("reversed", "sorted", "[::-1]", ".sort(", "np.flip", "np.roll")
    for q in ("core.factorize_", "core._factorize_multiple"):
        f = prog.func(q)
        seqs = {}
        for n in walk_own(f.node):
            if isinstance(n, ast.Assign) and len(n.targets) == 1 and norm(n.targets[0]) in ("found_groups", "factorized", "grp_shape", "group_idxs", "results"):
                seqs.setdefault(norm(n.targets[0]), []).append(n)
        if not seqs:
            raise AnalysisError(f"{q}: per-grouper sequences not found")
        for name, nodes in seqs.items():
            for n in nodes:
                txt = norm(n.value)
                bad = [r for r in REORDER if r in txt]
                res.inst(f"{q}: {name} = {txt[:70]}", f"{q}|{name}")
                if bad:
                    res.report(f"{q}|grouper-order|{name}", f.where(n), q,
                               f"{name} = {txt[:70]} re-orders the per-grouper sequence ({bad[0]}): codes, labels and sizes of different groupers no longer line up, "
                               "so the trailing result axes are attached to the wrong groupers")
        # per-grouper sequences are produced by walking the groupers in their given order: a comprehension over any other index sequence
        # (a "largest first" permutation, say) hands results back in that order unless each one is stored under its grouper's own position
        lab = f.params[0]
        per_grouper = {"futures", "results", "found_groups", "factorized", "group_idxs"}
        for n in walk_own(f.node):
            if not (isinstance(n, ast.Assign) and len(n.targets) == 1 and norm(n.targets[0]) in per_grouper):
                continue
            for comp in [x for x in ast.walk(n.value) if isinstance(x, (ast.ListComp, ast.GeneratorExp))]:
                it = comp.generators[0].iter
                t = norm(it)
                ok = t.startswith(f"zip({lab}") or t == lab or t.startswith(f"enumerate({lab}") or t.startswith(f"range(len({lab})") \
                    or (isinstance(it, ast.Name) and it.id in per_grouper) or t.startswith("zip(") and any(norm(a) in per_grouper | {lab} for a in it.args)
                res.inst(f"{q}: {norm(n.targets[0])} built by iterating '{t[:40]}': grouper order: {ok}", f"{q}|iter|{norm(n.targets[0])}|{t[:30]}")
                if not ok:
                    res.report(f"{q}|per-grouper-sequence-iterates-permutation|{norm(n.targets[0])}", f.where(n), q,
                               f"'{norm(n)[:70]}' builds a per-grouper sequence by walking '{t[:40]}', not the groupers in their given order: codes, labels and sizes "
                               "come back permuted unless every result is stored under its grouper's own position (a permutation applied twice is only the identity for swaps)")
        # the ravel receives codes and shape from the same ordering
        for c in calls_in(f.node):
            if norm(c.func) == "_ravel_factorized" or norm(c.func).endswith("map_blocks") and c.args and norm(c.args[0]) == "_ravel_factorized":
                gs = kwarg(c, "grp_shape")
                res.inst(f"{q}: {norm(c)[:80]}", f"{q}|ravel")
                if gs is not None and any(r in norm(gs) for r in REORDER):
                    res.report(f"{q}|ravel-shape-order", f.where(c), q, f"grp_shape={norm(gs)} is re-ordered relative to the codes")
    return res


# ---------------------------------------------------------------------------------------------
# R-LAYOUT (C08, C01): flattening never depends on memory layout.
# Labels and values are flattened / collapsed by *separate* reshape calls and then paired element by element.  The pairing survives only
# if both calls enumerate elements in the same index order.  order='A' / 'K' enumerate in memory order, which is a property of each
# array's history (a transposed view, a Fortran-ordered input, a dask block), not of its indices: the labels are always freshly built
# C-ordered codes, the values are whatever the user passed.
_FLATTENERS = {"reshape", "ravel", "flatten"}


def rule_layout(ctx) -> RuleResult:
    res = RuleResult("R-LAYOUT", "reshape / ravel / flatten enumerate elements in index order, never in memory order", min_instances=10)
    n = 0
    for q, f in sorted(ctx.prog.funcs.items()):
        if isinstance(f.node, ast.Lambda) or f.is_overload:
            continue
        for c in calls_in(f.node):
            name = c.func.attr if isinstance(c.func, ast.Attribute) else (c.func.id if isinstance(c.func, ast.Name) else "")
            if name not in _FLATTENERS:
                continue
            n += 1
            o = kwarg(c, "order")
            if o is None and name in ("ravel", "flatten") and isinstance(c.func, ast.Attribute) and len(c.args) == 1 \
                    and isinstance(c.args[0], ast.Constant) and isinstance(c.args[0].value, str):
                o = c.args[0]
            if o is None:
                if n <= 60:
                    res.inst(f"{q}: {norm(c)[:50]} (default C order)", f"{q}|{norm(c)[:40]}")
                continue
            val = o.value if isinstance(o, ast.Constant) else None
            res.inst(f"{q}: {norm(c)[:60]} order={norm(o)}", f"{q}|{norm(c)[:40]}")
            if val == "C":
                continue
            if val in ("A", "K"):
                res.report(f"{q}|layout-dependent|{norm(c.func)[:30]}", f.where(c), q,
                           f"'{norm(c)[:70]}' enumerates elements in memory order, which differs between a freshly built label array and a transposed / "
                           "Fortran-ordered value array: values are paired with the labels of other positions (silently wrong groups for F-ordered input)")
                continue
            # a variable order: every value it can hold is a constant 'C' / 'F'
            consts = None
            if isinstance(o, ast.Name):
                vals = [a.value for a in walk_own(f.node) if isinstance(a, ast.Assign) and any(isinstance(t, ast.Name) and t.id == o.id for t in a.targets)]
                if vals and all(isinstance(v, ast.Constant) and v.value in ("C", "F") for v in vals) and o.id not in f.params:
                    consts = {v.value for v in vals}
            if consts is not None and "F" in consts:
                pm = parents_map(f.node)
                for a in walk_own(f.node):
                    if isinstance(a, ast.Assign) and isinstance(a.value, ast.Constant) and a.value.value == "F" \
                            and any(isinstance(t, ast.Name) and t.id == o.id for t in a.targets):
                        par = pm.get(id(a))
                        blk = next((b for fld in ("body", "orelse") for b in [getattr(par, fld, None)] if isinstance(b, list) and any(a is s_ for s_ in b)), [])
                        paired = any(isinstance(c2, ast.Call) and isinstance(kwarg(c2, "order"), ast.Constant) and kwarg(c2, "order").value == "F"
                                     for s_ in blk for c2 in ast.walk(s_))
                        res.inst(f"{q}: '{norm(a)}' recorded next to a Fortran-order flatten of the partner: {paired}", f"{q}|rec|{a.lineno}")
                        if not paired:
                            res.report(f"{q}|unpaired-fortran-order|{o.id}", f.where(a), q,
                                       f"'{norm(a)}' makes '{norm(c)[:50]}' flatten in Fortran order, but the partner array is not flattened in Fortran order "
                                       "in the same branch: labels and values are enumerated differently")
            if val is None and consts is None:
                res.report(f"{q}|layout-unknown|{norm(c.func)[:30]}", f.where(c), q,
                           f"'{norm(c)[:70]}': the flattening order is not a constant 'C'/'F' (or a local that only holds those): it may be memory order")
                continue
            # Fortran order is index order too, but only sound when the partner array is flattened the same way: a constant 'F' must be
            # recorded in a local (in the same block) that another flattening call of this function uses
            if val == "F":
                pm = parents_map(f.node)
                blk = None
                cur = c
                while cur is not None and blk is None:
                    par = pm.get(id(cur))
                    for fld in ("body", "orelse"):
                        b = getattr(par, fld, None) if par is not None else None
                        if isinstance(b, list) and any(cur is s_ for s_ in b):
                            blk = b
                    cur = par
                recorded = {t.id for s_ in (blk or []) if isinstance(s_, ast.Assign) and isinstance(s_.value, ast.Constant) and s_.value.value == "F"
                            for t in s_.targets if isinstance(t, ast.Name)}
                partner = [c2 for c2 in calls_in(f.node) if c2 is not c and isinstance(kwarg(c2, "order"), ast.Name) and kwarg(c2, "order").id in recorded]
                res.inst(f"{q}: Fortran-order flatten paired through {sorted(recorded)} with {[norm(p)[:40] for p in partner]}", f"{q}|pair")
                if not partner:
                    res.report(f"{q}|unpaired-fortran-order|{norm(c.func)[:30]}", f.where(c), q,
                               f"'{norm(c)[:70]}' flattens in Fortran order, but no partner array is flattened with the same recorded order: "
                               "labels and values are enumerated differently")
    res.inst(f"{n} reshape/ravel/flatten calls examined", "count")
    return res


# ---------------------------------------------------------------------------------------------
# R-CODEDEP (C07): with lazy labels, every grouper's codes come from factorizing *that grouper's label values*.
# The ravelled multi-grouper code keeps -1 (drop the element) if any grouper says -1.  A grouper whose codes are built from metadata only
# (zeros of the right shape for a single-group grouper, say) can never say -1: elements outside its one group are silently kept.
def rule_codedep(ctx) -> RuleResult:
    res = RuleResult("R-CODEDEP", "with lazy labels every grouper's codes are computed from that grouper's label values", min_instances=1)
    f = ctx.prog.func("core._factorize_multiple")
    rav = [c for c in calls_in(f.node) if any(isinstance(a, ast.Name) and a.id == "_ravel_factorized" for a in c.args[:1])]
    if not rav:
        raise AnalysisError("_factorize_multiple: the lazy ravel map_blocks(_ravel_factorized, *codes, ...) is gone (anchor)")
    for c in rav:
        starred = [a.value for a in c.args if isinstance(a, ast.Starred)]
        for sv in starred:
            defs = []
            if isinstance(sv, ast.Name):
                for a in walk_own(f.node):
                    if isinstance(a, ast.Assign) and any(isinstance(t, ast.Name) and t.id == sv.id for t in a.targets):
                        defs.append(a.value)
            else:
                defs.append(sv)
            for d in defs:
                if not isinstance(d, (ast.ListComp, ast.GeneratorExp)) and not (isinstance(d, ast.Call) and norm(d.func) in ("tuple", "list") and d.args
                                                                                 and isinstance(d.args[0], (ast.ListComp, ast.GeneratorExp))):
                    res.notes.append(f"UNDECIDED: per-grouper codes '{norm(d)[:60]}' are not built by a comprehension over the groupers")
                    res.inst(f"_factorize_multiple: codes = {norm(d)[:50]} [unrecognised]", "codes")
                    continue
                comp = d if isinstance(d, (ast.ListComp, ast.GeneratorExp)) else d.args[0]
                label_vars = set()
                for g in comp.generators:
                    label_vars |= names_in(g.target)
                alts = []

                def leaves(e):
                    if isinstance(e, ast.IfExp):
                        leaves(e.body)
                        leaves(e.orelse)
                    else:
                        alts.append(e)
                leaves(comp.elt)
                for e in alts:
                    direct = [a for a in (e.args if isinstance(e, ast.Call) else []) if isinstance(a, ast.Name) and a.id in label_vars]
                    callee_ok = False
                    if isinstance(e, ast.Call):
                        for a in e.args[:1] + [e.func]:
                            nm = a.id if isinstance(a, ast.Name) else None
                            g = ctx.prog.funcs.get(f"core.{nm}") if nm else None
                            if g is not None and any(norm(x.func) in ("factorize_", "_factorize_single") for x in calls_in(g.node)):
                                callee_ok = True
                    ok = bool(direct) and callee_ok
                    res.inst(f"_factorize_multiple: grouper codes '{norm(e)[:60]}': factorizer applied to the label values: {ok}", f"alt|{norm(e)[:40]}")
                    if not ok:
                        res.report(f"core._factorize_multiple|codes-from-metadata|{norm(e)[:30]}", f.where(e), f.qualname,
                                   f"one alternative for a grouper's lazy codes, '{norm(e)[:70]}', is not the factorizer applied to that grouper's label values "
                                   f"({'uses only ' + ', '.join(sorted({norm(x)[:20] for x in ast.walk(e) if isinstance(x, ast.Attribute) and isinstance(x.value, ast.Name) and x.value.id in label_vars})) if not direct else 'callee does not factorize'}): "
                                   "such a grouper can never code an element as -1, so elements with a missing / unrequested / out-of-bin label in it are kept")
    return res


# ---------------------------------------------------------------------------------------------
# R-CODELABELS (C07, C02, C12): lazily computed codes refer to the label set that is returned with them.
# _factorize_multiple returns (codes, labels, shape).  With lazy labels every *block* is factorized on its own, so the codes are comparable
# across blocks only if every block is factorized against one fixed label list -- and they mean what the caller thinks only if that list is
# the one returned.  The `expected_groups=` handed to the per-block factorizer must therefore iterate over the same sequence that is
# returned as the labels (not over the caller's expected_groups, which is None for a grouper whose labels were discovered eagerly).
def rule_codelabels(ctx) -> RuleResult:
    res = RuleResult("R-CODELABELS", "lazy per-block codes are factorized against the label list that is returned with them", min_instances=1)
    f = ctx.prog.func("core._factorize_multiple")
    rets = [r for r in walk_own(f.node) if isinstance(r, ast.Return) and isinstance(r.value, ast.Tuple) and len(r.value.elts) == 3]
    if not rets:
        raise AnalysisError("_factorize_multiple: 'return (codes,), labels, shape' not found (anchor)")
    labels_e = rets[0].value.elts[1]
    if not isinstance(labels_e, ast.Name):
        raise AnalysisError("_factorize_multiple: the returned labels are not a local name (anchor)")
    L = labels_e.id
    n = 0
    for comp in [x for x in walk_own(f.node) if isinstance(x, (ast.ListComp, ast.GeneratorExp))]:
        calls = [c for c in ast.walk(comp.elt) if isinstance(c, ast.Call) and kwarg(c, "expected_groups") is not None
                 and any(isinstance(a, ast.Name) and a.id == "_lazy_factorize_wrapper" for a in c.args[:1])]
        for c in calls:
            n += 1
            eg = kwarg(c, "expected_groups")
            eg_names = names_in(eg)
            # which iterables feed those names?
            sources = set()
            for g in comp.generators:
                tnames = [x.id for x in ast.walk(g.target) if isinstance(x, ast.Name)]
                if isinstance(g.iter, ast.Call) and norm(g.iter.func) == "zip" and isinstance(g.target, ast.Tuple) and len(g.target.elts) == len(g.iter.args):
                    for t, it in zip(g.target.elts, g.iter.args):
                        if names_in(t) & eg_names:
                            sources |= names_in(it)
                elif set(tnames) & eg_names:
                    sources |= names_in(g.iter)
            ok = L in sources
            res.inst(f"_factorize_multiple: per-block factorizer gets expected_groups={norm(eg)} drawn from {sorted(sources)}; returned labels: {L}: {ok}", "lazy-codes")
            if not ok:
                res.report("core._factorize_multiple|codes-vs-returned-labels", f.where(c), f.qualname,
                           f"each block is factorized with expected_groups={norm(eg)} taken from {sorted(sources) or '?'}, but the labels returned with the codes are "
                           f"'{L}': for a grouper whose labels were discovered eagerly (expected_groups None) every block numbers its own labels from 0, "
                           "so codes of different blocks denote different labels (mixed numpy / dask groupers give silently wrong groups)")
    if n == 0:
        raise AnalysisError("_factorize_multiple: no per-block call of _lazy_factorize_wrapper with expected_groups= (anchor)")
    return res


# ---------------------------------------------------------------------------------------------
# R-UNPERMUTE (C18, C01): what was ordered with a permutation is restored with its inverse.
# P = argsort(x); inputs are gathered with P (x[P]) to be processed in sorted order.  Handing results back in the caller's order needs the
# inverse: a scatter (out[P] = r) or a gather with argsort(P).  Gathering the result with P again applies the permutation twice, which is
# right only when P is an involution (ascending, descending, a swap) -- exactly the orders a test suite tends to use.
def rule_unpermute(ctx) -> RuleResult:
    res = RuleResult("R-UNPERMUTE", "a result is never put back in order by gathering with the permutation that ordered its input", min_instances=2)
    n_perm = 0
    for q, f in sorted(ctx.prog.funcs.items()):
        if isinstance(f.node, ast.Lambda) or f.is_overload:
            continue
        perms = {}
        for a in walk_own(f.node):
            if isinstance(a, ast.Assign) and len(a.targets) == 1 and isinstance(a.targets[0], ast.Name) and isinstance(a.value, ast.Call):
                fn = norm(a.value.func)
                if fn in ("np.argsort", "numpy.argsort") or (isinstance(a.value.func, ast.Attribute) and a.value.func.attr == "argsort"):
                    perms[a.targets[0].id] = a
        if not perms:
            continue
        params = set(f.params)
        # names derived from inputs: params, kwargs[...] reads, and locals assigned from them by plain conversion
        returned = set()
        for r in walk_own(f.node):
            if isinstance(r, ast.Return) and r.value is not None:
                returned |= {x.id for x in ast.walk(r.value) if isinstance(x, ast.Name)}
        for P, adef in perms.items():
            n_perm += 1
            sorted_src = names_in(adef.value) - {"np"}
            gathers_in, gathers_out, inverse = [], [], []
            for n in walk_own(f.node):
                # inverse constructions
                if isinstance(n, ast.Call) and (norm(n.func) in ("np.argsort", "numpy.argsort") or (isinstance(n.func, ast.Attribute) and n.func.attr == "argsort")) \
                        and P in names_in(n) and n is not adef.value:
                    inverse.append(norm(n)[:40])
                if isinstance(n, ast.Assign) and any(isinstance(t, ast.Subscript) and P in names_in(t.slice) for t in n.targets):
                    inverse.append(norm(n)[:40])            # scatter
                if isinstance(n, ast.Subscript) and isinstance(n.ctx, ast.Load) and P in names_in(n.slice) and P not in names_in(n.value):
                    base = names_in(n.value)
                    if base & (params | sorted_src) or any(isinstance(x, ast.Call) and names_in(x) & (params | sorted_src) for x in ast.walk(n.value)):
                        gathers_in.append(n)
                    # is this gather (re)bound to a returned name whose previous value came out of the processing?
            for a in walk_own(f.node):
                if isinstance(a, ast.Assign) and len(a.targets) == 1 and isinstance(a.targets[0], ast.Name) and a.targets[0].id in returned \
                        and isinstance(a.value, ast.Subscript) and P in names_in(a.value.slice) and isinstance(a.value.value, ast.Name) \
                        and a.value.value.id == a.targets[0].id:
                    gathers_out.append(a)
            res.inst(f"{q}: permutation {P} = {norm(adef.value)[:40]}: input gathers {len(gathers_in)}, result re-gathers {len(gathers_out)}, inverse constructions {len(inverse)}",
                     f"{q}|{P}")
            # the re-gathered result must have been *computed from* the gathered input in between (co-sorting two arrays with one permutation
            # -- keys and values, labels and results -- is the legitimate use of two gathers)
            def _processed_between(a_out) -> bool:
                first_in = min(g.lineno for g in gathers_in)
                tainted = set()
                for st in walk_own(f.node):
                    if isinstance(st, ast.Assign) and any(g in list(ast.walk(st.value)) for g in gathers_in):
                        for t in st.targets:
                            tainted |= {x.id for x in ast.walk(t) if isinstance(x, ast.Name)}
                changed = True
                while changed:
                    changed = False
                    for st in walk_own(f.node):
                        if isinstance(st, ast.Assign) and first_in <= st.lineno < a_out.lineno and names_in(st.value) & tainted:
                            for t in st.targets:
                                for x in ast.walk(t):
                                    if isinstance(x, ast.Name) and x.id not in tainted:
                                        tainted.add(x.id)
                                        changed = True
                return a_out.targets[0].id in tainted and first_in < a_out.lineno

            gathers_out = [a for a in gathers_out if _processed_between(a)]
            if gathers_in and gathers_out and not inverse:
                a = gathers_out[0]
                res.report(f"{q}|double-permutation|{P}", f.where(a), q,
                           f"'{norm(a)[:60]}' gathers the result with {P}, the permutation that already ordered the input ('{norm(gathers_in[0])[:40]}'): that applies the "
                           f"permutation twice instead of undoing it (correct only for involutions: ascending, descending, swaps). Restore with a scatter "
                           f"(out[{P}] = ...) or np.argsort({P})")
    res.inst(f"{n_perm} argsort permutations examined", "count")
    return res


# ---------------------------------------------------------------------------------------------
# R-PAIRS[broadcast] (C08, C19): labels with size-1 dimensions are brought to the array's shape before a partial reduction offsets them.
# `_assert_by_is_aligned` accepts size-1 dimensions in the labels.  When only some label dimensions are reduced, every kept slice gets its
# own offset codes (offset_labels), which needs the labels at full size; without the broadcast the flattened codes are shorter than the
# flattened values (AssertionError in the flox engine, a numpy_groupies shape error otherwise).
def rule_pairs_broadcast(ctx) -> RuleResult:
    res = RuleResult("R-PAIRS[broadcast]", "labels are broadcast to the array's trailing shape before a partial-axis reduction", min_instances=1)
    f = ctx.prog.func("core.groupby_reduce")
    arr = f.params[0]
    found = False
    for st in walk_own(f.node):
        if not isinstance(st, ast.If):
            continue
        moves = [c for b in st.body for c in ast.walk(b) if isinstance(c, ast.Call) and norm(c.func) == "_move_reduce_dims_to_end" and c.args
                 and isinstance(c.args[0], ast.Name) and c.args[0].id != arr]
        if not moves or ".ndim" not in norm(st.test):
            continue
        found = True
        lab = moves[0].args[0].id
        bc = [c for b in st.body for c in ast.walk(b) if isinstance(c, ast.Call) and norm(c.func).endswith("broadcast_to") and c.args
              and isinstance(c.args[0], ast.Name) and c.args[0].id == lab and f"{arr}.shape" in norm(c) and c.lineno < moves[0].lineno]
        res.inst(f"groupby_reduce: partial-axis branch '{norm(st.test)[:30]}': labels '{lab}' broadcast to {arr}.shape[...] before the axes are moved: {bool(bc)}", "partial")
        if not bc:
            res.report("core.groupby_reduce|labels-not-broadcast", f.where(moves[0]), f.qualname,
                       f"in the partial-axis branch the labels '{lab}' are moved and offset per kept slice without being broadcast to the array's shape: labels "
                       "with a size-1 dimension (accepted by _assert_by_is_aligned) give fewer codes than values -- AssertionError with engine='flox', a "
                       "shape error from numpy_groupies otherwise")
    if not found:
        raise AnalysisError("groupby_reduce: the partial-axis branch (_move_reduce_dims_to_end on the labels under an .ndim test) was not found (anchor)")
    return res


# ---------------------------------------------------------------------------------------------
# R-PAIRS[broadcast-any-nax] (C08, C19): inside chunk_reduce the size-1 broadcast of the codes is not restricted to multi-axis reductions.
def rule_pairs_broadcast_nax(ctx) -> RuleResult:
    res = RuleResult("R-PAIRS[broadcast-nax]", "the size-1 broadcast of the codes in chunk_reduce applies to any number of reduced axes", min_instances=1)
    f = ctx.prog.func("core.chunk_reduce")
    pm = parents_map(f.node)
    bcs = [c for c in calls_in(f.node) if norm(c.func).endswith("broadcast_to") and len(c.args) >= 2 and ".shape" in norm(c.args[1])
           and isinstance(c.args[0], ast.Name)]
    if not bcs:
        raise AnalysisError("chunk_reduce: no broadcast of the codes to the array's shape (anchor)")
    for c in bcs:
        restr = []
        for a in ancestors(c, pm):
            if isinstance(a, ast.If):
                for cmp_ in ast.walk(a.test):
                    if isinstance(cmp_, ast.Compare) and len(cmp_.ops) == 1 and isinstance(cmp_.comparators[0], ast.Constant) \
                            and isinstance(cmp_.comparators[0].value, int) and (norm(cmp_.left) in ("nax", "len(axes)", "len(axis)")):
                        k, op = cmp_.comparators[0].value, cmp_.ops[0]
                        holds_for_1 = {ast.Gt: 1 > k, ast.GtE: 1 >= k, ast.Eq: 1 == k, ast.NotEq: 1 != k, ast.Lt: 1 < k, ast.LtE: 1 <= k}.get(type(op), True)
                        if not holds_for_1:
                            restr.append(norm(cmp_))
        res.inst(f"chunk_reduce: '{norm(c)[:60]}' guarded by an axis-count test that excludes a single reduced axis: {restr or False}", f"bc|{c.lineno}")
        if restr:
            res.report("core.chunk_reduce|broadcast-only-multi-axis", f.where(c), f.qualname,
                       f"the codes are broadcast to the array's shape only when {restr[0]}: with one reduced axis, labels of shape (1,) (accepted by "
                       "_assert_by_is_aligned) give one code for several values -- AssertionError in _prepare_for_flox (engine='flox')")
    return res


# ---------------------------------------------------------------------------------------------
# R-PAIRS[transpose] (C07): an axis order handed to ndarray.transpose lists *source* positions.
# `a.transpose(*order)` makes new axis i the old axis order[i].  To bring an array whose dims are D into the order T one needs
# order = [D.index(d) for d in T]; the inverse, [T.index(d) for d in D], is the same list only for the identity and for single swaps -- for a
# 3-D grouper whose dims are a rotation of the array's, labels are attached to the wrong elements.
def rule_pairs_transpose(ctx) -> RuleResult:
    res = RuleResult("R-PAIRS[transpose]", "transpose orders index into the dims of the array being transposed", min_instances=1)
    n = 0
    for q, f in sorted(ctx.prog.funcs.items()):
        if isinstance(f.node, ast.Lambda) or f.is_overload:
            continue
        # (dims variable, array variable) pairs from `for D, A in zip(<dims seq>, <arrays seq>)`
        pairs = {}
        for lp in walk_own(f.node):
            if isinstance(lp, ast.For) and isinstance(lp.target, ast.Tuple) and len(lp.target.elts) == 2 and isinstance(lp.iter, ast.Call) and norm(lp.iter.func) == "zip" \
                    and all(isinstance(e, ast.Name) for e in lp.target.elts) and len(lp.iter.args) == 2:
                a0, a1 = norm(lp.iter.args[0]), norm(lp.iter.args[1])
                d, a = lp.target.elts[0].id, lp.target.elts[1].id
                if "dim" in a0 and "dim" not in a1:
                    pairs[a] = d
                elif "dim" in a1 and "dim" not in a0:
                    pairs[d] = a
        for c in calls_in(f.node):
            if not (isinstance(c.func, ast.Attribute) and c.func.attr == "transpose" and isinstance(c.func.value, ast.Name) and c.func.value.id in pairs
                    and len(c.args) == 1 and isinstance(c.args[0], ast.Starred)):
                continue
            arr = c.func.value.id
            D = pairs[arr]
            if isinstance(c.args[0].value, ast.Name):
                order = c.args[0].value.id
                defs = [a.value for a in walk_own(f.node) if isinstance(a, ast.Assign) and any(isinstance(t, ast.Name) and t.id == order for t in a.targets)]
            else:           # the order written inline: transpose(*(X.index(d) for d in ...))
                order = "<inline>"
                defs = [c.args[0].value]
            for dv in defs:
                if isinstance(dv, (ast.ListComp, ast.GeneratorExp)) and isinstance(dv.elt, ast.Call) and isinstance(dv.elt.func, ast.Attribute) and dv.elt.func.attr == "index" \
                        and isinstance(dv.elt.func.value, ast.Name):
                    n += 1
                    src = dv.elt.func.value.id
                    ok = src == D
                    res.inst(f"{q}: {arr}.transpose(*{order}) with {order} = {norm(dv)[:50]}: positions looked up in the dims of {arr} ('{D}'): {ok}", f"{q}|{c.lineno}")
                    if not ok:
                        res.report(f"{q}|inverse-transpose-order|{order}", f.where(c), q,
                                   f"'{norm(dv)[:60]}' looks positions up in '{src}', not in '{D}' (the dims of the array being transposed): that is the inverse "
                                   "permutation, equal to the right one only for the identity and single swaps; a grouper whose dims are a rotation of the array's "
                                   "gets its labels attached to other elements")
    if n == 0:
        raise AnalysisError("no transpose(*order) with a looked-up order on a (dims, array) pair found (anchor: xarray._broadcast_size_one_dims)")
    return res


# ---------------------------------------------------------------------------------------------
# R-FORDER (C06, C01): a Fortran-order flatten (a speed-up: the broadcast labels come out sorted) is never taken for reductions that pick
# members by position.  "first"/"last"/"nanfirst"/"nanlast" mean first/last in C (index) order on every engine; visiting the members of a group
# in Fortran order changes which member that is whenever the group spans more than one row.  The branch that records order = "F" must be
# guarded by a test that excludes the position-sensitive family (a negative atom that mentions _is_first_last_reduction or the names).
def rule_forder(ctx) -> RuleResult:
    res = RuleResult("R-FORDER", "Fortran-order flattening is excluded for reductions that pick members by position", min_instances=1)
    from ..astutil import guard_facts
    n = 0
    for q, f in sorted(ctx.prog.funcs.items()):
        if isinstance(f.node, ast.Lambda) or f.is_overload:
            continue
        pm = None
        for c in calls_in(f.node):
            name = c.func.attr if isinstance(c.func, ast.Attribute) else ""
            o = kwarg(c, "order")
            if name not in _FLATTENERS or not (isinstance(o, ast.Constant) and o.value == "F"):
                continue
            n += 1
            # only functions that run named reductions afterwards are concerned
            runs_reductions = any(isinstance(x, ast.Call) and norm(x.func) in ("generic_aggregate", "_get_aggregate") for x in ast.walk(f.node)) or "func" in f.params
            if not runs_reductions:
                res.inst(f"{q}: {norm(c)[:50]}: no named reduction runs on the flattened data", f"{q}|{norm(c)[:30]}")
                continue
            pm = pm or parents_map(f.node)
            facts = guard_facts(c, pm)
            excl = [at for at, pol in facts if not pol and ("_is_first_last_reduction" in at or ("first" in at and "last" in at))]
            res.inst(f"{q}: {norm(c)[:50]} guarded by {sorted(at for at, _ in facts)[:4]}: position-sensitive reductions excluded: {bool(excl)}", f"{q}|{norm(c)[:30]}")
            if not excl:
                res.report(f"{q}|fortran-order-for-positional-reductions", f.where(c), q,
                           f"'{norm(c)[:60]}' enumerates the members in Fortran order for every reduction this function runs, including first / last / nanfirst / nanlast: "
                           "with labels that have a size-1 dimension and engine='flox' the 'first' member of a group is the first in column-major order "
                           "(the other engines and the documented meaning use C order)")
    if n == 0:
        res.notes.append("no Fortran-order flatten in the package: rule not applicable")
        res.min_instances = 0
    return res
