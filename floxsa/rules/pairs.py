"""R-PAIRS: small structural agreements between two sites that must move together (C01, C02, C07, C08, C11)."""
from __future__ import annotations

import ast

from ..astutil import calls_in, kwarg, names_in, parents_map, ancestors
from ..model import AnalysisError, norm, walk_own
from ..report import RuleResult


def _flatten_add(e: ast.AST) -> list[ast.AST]:
    if isinstance(e, ast.BinOp) and isinstance(e.op, ast.Add):
        return _flatten_add(e.left) + _flatten_add(e.right)
    return [e]


def rule_pairs_perm(ctx) -> RuleResult:
    res = RuleResult("R-PAIRS[perm]", "the flox engine permutes labels and values with one and the same permutation", min_instances=1)
    f = ctx.prog.func("aggregate_flox._prepare_for_flox")
    sorts = [c for c in calls_in(f.node) if isinstance(c.func, ast.Attribute) and c.func.attr == "argsort" or norm(c.func) in ("np.argsort", "numpy.argsort")]
    if not sorts:
        raise AnalysisError("_prepare_for_flox: argsort vanished")
    pm = parents_map(f.node)
    st = next(a for a in ancestors(sorts[0], pm) if isinstance(a, ast.Assign))
    perm = norm(st.targets[0])
    idxd = []
    for n in walk_own(f.node):
        if isinstance(n, ast.Assign) and isinstance(n.value, ast.Subscript):
            last = n.value.slice.elts[-1] if isinstance(n.value.slice, ast.Tuple) else n.value.slice
            if norm(last) == perm:
                idxd.append(norm(n.value.value))
    p = f.params
    ok = set(idxd) >= {p[0], p[1]}
    res.inst(f"_prepare_for_flox: permutation {perm} applied to {idxd}", "perm")
    if not ok:
        res.report("aggregate_flox._prepare_for_flox|perm-pair", f.where(st), f.qualname,
                   f"the stable permutation {perm} is applied to {idxd}; both the labels ({p[0]}) and the values ({p[1]}) must be permuted by it")
    # the returned triple carries that same permutation for ffill to invert
    rets = [n for n in walk_own(f.node) if isinstance(n, ast.Return) and isinstance(n.value, ast.Tuple)]
    if rets and perm not in [norm(e) for e in rets[-1].value.elts]:
        res.report("aggregate_flox._prepare_for_flox|perm-returned", f.where(rets[-1]), f.qualname, f"the permutation {perm} is not returned (ffill inverts it)")
    return res


def rule_pairs_collapse(ctx) -> RuleResult:
    res = RuleResult("R-PAIRS[collapse]", "labels and values are collapsed over the same number of trailing axes", min_instances=1)
    f = ctx.prog.func("core.chunk_reduce")
    cs = [c for c in calls_in(f.node) if norm(c.func) == "_collapse_axis" and len(c.args) == 2]
    if len(cs) < 2:
        raise AnalysisError("chunk_reduce: the pair of _collapse_axis calls vanished")
    ns = {norm(c.args[1]) for c in cs}
    res.inst(f"chunk_reduce: _collapse_axis applied to {[norm(c.args[0]) for c in cs]} with naxis {sorted(ns)}", "collapse")
    if len(ns) != 1:
        res.report("core.chunk_reduce|collapse-pair", f.where(cs[0]), f.qualname, f"labels and values are collapsed over different numbers of axes: {sorted(ns)}")
    return res


def rule_pairs_dummyaxis(ctx) -> RuleResult:
    res = RuleResult("R-PAIRS[dummy-axis]", "the dummy axis is inserted, combined over and squeezed out at one and the same position", min_instances=3)
    prog = ctx.prog
    sites = []
    ed = prog.func("core._expand_dims")
    for c in calls_in(ed.node):
        if norm(c.func).endswith("expand_dims") and len(c.args) == 2:
            sites.append((ed, c, norm(c.args[1])))
    sc = prog.func("core._simple_combine")
    for n in walk_own(sc.node):
        if isinstance(n, ast.Assign) and isinstance(n.value, ast.BinOp) and "axis" in norm(n.targets[0]) and isinstance(n.value.right, ast.Tuple):
            sites.append((sc, n, norm(n.value.right.elts[0])))
    for c in calls_in(sc.node):
        if isinstance(c.func, ast.Attribute) and c.func.attr == "squeeze" and c.args:
            sub = [x for x in ast.walk(c.args[0]) if isinstance(x, ast.Subscript)]
            if sub:
                sites.append((sc, c, norm(sub[0].slice)))
    if len(sites) < 3:
        raise AnalysisError(f"dummy-axis sites found: {len(sites)} (hand-confirmed: insert, combine axis, squeeze)")
    vals = {v for _, _, v in sites}
    for f, n, v in sites:
        res.inst(f"{f.qualname}: {norm(n)[:60]} uses {v}", f"{f.qualname}|{norm(n)[:30]}")
    if len(vals) != 1:
        f, n, _ = sites[0]
        res.report("core._simple_combine|dummy-axis-disagree", f.where(n), "core._expand_dims / core._simple_combine",
                   f"the dummy axis is referred to as {sorted(vals)} at its three sites: the axis that is reduced or squeezed is not the one that was inserted")
    # concatenation and reduction use the same axis tuple
    concs = [c for c in calls_in(sc.node) if norm(c.func) == "_conc2" and kwarg(c, "axis") is not None]
    combs = [c for c in calls_in(sc.node) if norm(c.func) == "combine" and kwarg(c, "axis") is not None]
    if concs and combs:
        a, b = norm(kwarg(concs[0], "axis")), norm(kwarg(combs[0], "axis"))
        res.inst(f"_simple_combine: concatenates along {a}, reduces along {b}", "axes")
        if a != b:
            res.report("core._simple_combine|concat-vs-reduce-axis", sc.where(combs[0]), sc.qualname, f"intermediates are concatenated along {a} but reduced along {b}")
    return res


def rule_pairs_outinds(ctx) -> RuleResult:
    res = RuleResult("R-PAIRS[out-inds]", "announced output indices and announced output chunks list (new dims, batch dims, group dim) in the same order",
                     min_instances=1)
    f = ctx.prog.func("core.dask_groupby_agg")
    exprs = {}
    for n in walk_own(f.node):
        if isinstance(n, ast.Assign) and len(n.targets) == 1 and norm(n.targets[0]) in ("out_inds", "output_chunks"):
            exprs[norm(n.targets[0])] = n
    if len(exprs) < 2:
        # structural fallback: the two operands of dict(zip(A, B)) passed as adjust_chunks
        for c in calls_in(f.node):
            v = kwarg(c, "adjust_chunks")
            if v is not None and isinstance(v, ast.Call) and norm(v.func) == "dict" and v.args and isinstance(v.args[0], ast.Call) and norm(v.args[0].func) == "zip":
                sc = ctx.resolver.scope(f)
                for nm in v.args[0].args:
                    for kind, node in sc.bind.get(norm(nm), []):
                        if kind == "assign":
                            exprs[norm(nm)] = ast.Assign(targets=[nm], value=node, lineno=node.lineno)
    if len(exprs) != 2:
        raise AnalysisError("dask_groupby_agg: out_inds / output_chunks (the operands of adjust_chunks=dict(zip(...))) not found")

    def kinds(e):
        out = []
        for t in _flatten_add(e):
            s = norm(t)
            if "new_" in s:
                out.append("new")
            elif isinstance(t, ast.Subscript) and isinstance(t.slice, ast.Slice) and t.slice.upper is not None and "len(axis)" in norm(t.slice.upper):
                out.append("batch")
            else:
                out.append("group")
        return out

    (n1, a1), (n2, a2) = sorted(exprs.items())
    k1, k2 = kinds(a1.value), kinds(a2.value)
    res.inst(f"{n1} = {norm(a1.value)[:60]} -> {k1}; {n2} = {norm(a2.value)[:60]} -> {k2}", "outinds")
    if k1 != k2:
        res.report("core.dask_groupby_agg|outinds-order", f.where(a1), f.qualname,
                   f"{n1} lists {k1} but {n2} lists {k2}: the announced chunks are attached to the wrong output axes")
    return res


def rule_pairs_groupers(ctx) -> RuleResult:
    res = RuleResult("R-PAIRS[groupers]", "per-grouper codes, labels and group sizes are kept in the order of the groupers", min_instances=2)
    prog = ctx.prog
    REORDER = ("reversed", "sorted", "[::-1]", ".sort(", "np.flip", "np.roll")
    for q in ("core.factorize_", "core._factorize_multiple"):
        f = prog.func(q)
        seqs = {}
        for n in walk_own(f.node):
            if isinstance(n, ast.Assign) and len(n.targets) == 1 and norm(n.targets[0]) in ("found_groups", "factorized", "grp_shape", "group_idxs", "results"):
                seqs.setdefault(norm(n.targets[0]), []).append(n)
        if not seqs:
            raise AnalysisError(f"{q}: per-grouper sequences not found")
        for name, nodes in seqs.items():
            for n in nodes:
                txt = norm(n.value)
                bad = [r for r in REORDER if r in txt]
                res.inst(f"{q}: {name} = {txt[:70]}", f"{q}|{name}")
                if bad:
                    res.report(f"{q}|grouper-order|{name}", f.where(n), q,
                               f"{name} = {txt[:70]} re-orders the per-grouper sequence ({bad[0]}): codes, labels and sizes of different groupers no longer line up, "
                               "so the trailing result axes are attached to the wrong groupers")
        # the ravel receives codes and shape from the same ordering
        for c in calls_in(f.node):
            if norm(c.func) == "_ravel_factorized" or norm(c.func).endswith("map_blocks") and c.args and norm(c.args[0]) == "_ravel_factorized":
                gs = kwarg(c, "grp_shape")
                res.inst(f"{q}: {norm(c)[:80]}", f"{q}|ravel")
                if gs is not None and any(r in norm(gs) for r in REORDER):
                    res.report(f"{q}|ravel-shape-order", f.where(c), q, f"grp_shape={norm(gs)} is re-ordered relative to the codes")
    return res
