"""R-DISPATCH: the engines are siblings (C01).  R-STABLE: observable group sorts are stable (C01, C10)."""
from __future__ import annotations

import ast
from dataclasses import dataclass, field

from ..astutil import kwarg, const_str, parents_map, ancestors, calls_in
from ..model import AnalysisError, Unit, norm, walk_own
from ..registry import INF, NINF, Sym
from ..report import RuleResult
from .. import tables as T


@dataclass
class Sig:
    name: str
    module: str
    lineno: int
    how: str = "?"              # reduceat | nanwrap | def | numbagg | npg-def | npg-partial | quantile | opaque
    discipline: str = "?"       # prop | skip | count | ?
    ufunc: str | None = None    # add / multiply / maximum / minimum
    substitute: object = None   # value NaN is replaced with before reducing
    delegate: str | None = None
    func_str: str | None = None  # constant kernel name handed to numpy_groupies / numbagg
    notes: list = field(default_factory=list)

    def short(self):
        bits = [self.how, self.discipline]
        if self.ufunc:
            bits.append(f"ufunc={self.ufunc}")
        if self.substitute is not None:
            bits.append(f"nan->{self.substitute!r}")
        if self.delegate:
            bits.append(f"via {self.delegate}")
        if self.func_str:
            bits.append(f"func={self.func_str!r}")
        return " ".join(bits)


def _flatten_partial(e: ast.AST):
    """partial(partial(f, a=1), b=2) -> (f expr, {a:.., b:..}); None if not a partial call."""
    if not (isinstance(e, ast.Call) and norm(e.func) in ("partial", "functools.partial") and e.args):
        return None
    inner = _flatten_partial(e.args[0])
    kws = {k.arg: k.value for k in e.keywords if k.arg}
    if inner is None:
        return e.args[0], kws
    base, ikws = inner
    ikws.update(kws)
    return base, ikws


def _ufunc_of(e: ast.AST) -> str | None:
    t = norm(e)
    for u in ("add", "multiply", "maximum", "minimum"):
        if t in (f"np.{u}.reduceat", f"numpy.{u}.reduceat"):
            return u
    return None


def _nan_substitution(e: ast.AST, ev, local_vals=None):
    """np.where(isnull(X)|np.isnan(X), V, X) -> (True, V); np.nan_to_num(X, nan=V) -> ('nan_to_num', V); else (False, None).
    The mask and the substituted array may be bound to locals first."""
    local_vals = local_vals or {}
    if isinstance(e, ast.Name) and len(local_vals.get(e.id, [])) == 1:
        return _nan_substitution(local_vals[e.id][0], ev, local_vals)
    if isinstance(e, ast.Call) and norm(e.func) in ("np.where", "numpy.where") and len(e.args) == 3:
        c, v, x = e.args
        if isinstance(c, ast.Name) and len(local_vals.get(c.id, [])) == 1:
            c = local_vals[c.id][0]
        if isinstance(c, ast.Call) and norm(c.func) in ("isnull", "np.isnan", "numpy.isnan", "pd.isnull") and c.args \
                and norm(c.args[0]) == norm(x):
            return True, ev.ev(v)
    if isinstance(e, ast.Call) and norm(e.func) in ("np.nan_to_num", "numpy.nan_to_num") and e.args:
        v = kwarg(e, "nan")
        keeps_inf = kwarg(e, "posinf") is not None and kwarg(e, "neginf") is not None
        return ("nan_to_num" if not keeps_inf else True), (ev.ev(v) if v is not None else 0.0)
    return False, None


class EngineModel:
    def __init__(self, ctx):
        self.ctx = ctx
        self.prog = ctx.prog
        self.ev = ctx.registry.ev
        self.cache: dict[tuple, Sig | None] = {}

    def names(self, module: str) -> list[str]:
        u = self.prog.unit(module)
        out = []
        for n, vals in u.bindings.items():
            if n.startswith("_") or n.isupper():
                continue
            if any(_flatten_partial(v) is not None or isinstance(v, ast.Name) for v in vals):
                out.append(n)
        for n in u.funcs:
            if not n.startswith("_") and n not in out:
                out.append(n)
        # helpers (quantile_, mode_) are not kernel names any blueprint can ask for
        return [n for n in out if not n.endswith("_")]

    def sig(self, module: str, name: str, depth=0) -> Sig | None:
        key = (module, name)
        if key in self.cache:
            return self.cache[key]
        self.cache[key] = None
        u = self.prog.unit(module)
        s = None
        if name in u.bindings:
            v = u.bindings[name][-1]
            s = self._sig_value(u, name, v, depth)
        elif name in u.funcs:
            s = self._sig_def(u, name, u.funcs[name].node, depth)
        self.cache[key] = s
        return s

    # -- partial(...) / alias ------------------------------------------------------------------
    def _sig_value(self, u: Unit, name: str, v: ast.AST, depth) -> Sig:
        s = Sig(name, u.name, v.lineno)
        if isinstance(v, ast.Name):
            d = self.sig(u.name, v.id, depth + 1)
            if d is None:
                s.how = "opaque"
                return s
            s2 = Sig(name, u.name, v.lineno, "alias", d.discipline, d.ufunc, d.substitute, v.id, d.func_str)
            return s2
        fp = _flatten_partial(v)
        if fp is None:
            s.how = "opaque"
            return s
        base, kws = fp
        return self._sig_call(u, s, norm(base), kws, depth)

    def _sig_call(self, u: Unit, s: Sig, base: str, kws: dict, depth) -> Sig:
        if base == "_np_grouped_op":
            op = kws.get("op")
            if op is None:
                s.how = "opaque"
                return s
            uf = _ufunc_of(op)
            if uf:
                s.how, s.discipline, s.ufunc = "reduceat", "prop", uf
                return s
            fp = _flatten_partial(op)
            if fp and norm(fp[0]) == "quantile_":
                sk = fp[1].get("skipna")
                s.how = "quantile"
                s.discipline = "skip" if (isinstance(sk, ast.Constant) and sk.value is True) else "prop"
                return s
            s.how = "opaque"
            return s
        if base == "_nan_grouped_op":
            f, fill = kws.get("func"), kws.get("fillna")
            s.how, s.discipline = "nanwrap", "skip"
            s.substitute = self.ev.ev(fill) if fill is not None else None
            if isinstance(f, ast.Name):
                s.delegate = f.id
                d = self.sig(u.name, f.id, depth + 1)
                if d is not None:
                    s.ufunc = d.ufunc
                    if d.discipline != "prop":
                        s.notes.append(f"delegate {f.id} is itself {d.discipline}")
            return s
        if base == "_numbagg_wrapper":
            s.how = "numbagg"
            s.func_str = const_str(kws.get("func"))
            if s.func_str:
                s.discipline = "count" if s.func_str == "nancount" else ("skip" if s.func_str.startswith("nan") else "prop")
            return s
        if base in ("_len",):
            s.how, s.discipline = "npg-partial", "count"
            s.func_str = const_str(kws.get("func"))
            return s
        if base == "_var_std_wrapper":
            s.how = "npg-partial"
            s.func_str = const_str(kws.get("func"))
            if s.func_str:
                s.discipline = "skip" if s.func_str.startswith("nan") else "prop"
            return s
        s.how = "opaque"
        s.notes.append(f"partial of {base}")
        return s

    # -- def wrappers -----------------------------------------------------------------------------
    def _sig_def(self, u: Unit, name: str, fn: ast.FunctionDef, depth) -> Sig:
        s = Sig(name, u.name, fn.lineno, how="def")
        local_vals: dict = {}
        for n_ in walk_own(fn):
            if isinstance(n_, ast.Assign) and len(n_.targets) == 1 and isinstance(n_.targets[0], ast.Name):
                local_vals.setdefault(n_.targets[0].id, []).append(n_.value)
        params = [a.arg for a in fn.args.posonlyargs + fn.args.args]
        arrayp = params[1] if len(params) > 1 else None
        data_calls = []
        for c in calls_in(fn):
            fname = norm(c.func)
            # direct use of the generic helpers inside a def
            if fname in ("_np_grouped_op", "_nan_grouped_op", "_numbagg_wrapper", "_len", "_var_std_wrapper"):
                kws = {k.arg: k.value for k in c.keywords if k.arg}
                s2 = self._sig_call(u, Sig(name, u.name, fn.lineno), fname, kws, depth)
                arr = c.args[1] if len(c.args) > 1 else kws.get("array")
                sub, v = _nan_substitution(arr, self.ev, local_vals) if arr is not None else (False, None)
                if sub == "nan_to_num":
                    s2.notes.append("nan_to_num")
                if sub:
                    s2.discipline, s2.substitute = "skip", v
                s2.how = "def:" + s2.how
                return s2
            tgt = None
            if isinstance(c.func, ast.Name) and (c.func.id in u.bindings or c.func.id in u.funcs) and c.func.id != name \
                    and len(c.args) >= 2:
                tgt = c.func.id
            elif fname.endswith(".aggregate") and len(c.args) >= 2:
                tgt = "<npg>"
            if tgt is None:
                continue
            data_calls.append((tgt, c))
        if not data_calls:
            s.how = "opaque"
            return s
        # the first data call decides the value; later ones (counts for a mean) are auxiliary
        tgt, c = data_calls[0]
        arr = c.args[1]
        sub, v = _nan_substitution(arr, self.ev, local_vals)
        if sub == "nan_to_num":
            s.notes.append("nan_to_num")
        validity = isinstance(arr, ast.Call) and "notnull" in norm(arr) or "isnull" in norm(arr) and not sub
        if tgt == "<npg>":
            s.how = "npg-def"
            s.func_str = const_str(kwarg(c, "func"))
            if s.func_str is None:
                fk = kwarg(c, "func")
                s.notes.append(f"func={norm(fk)}")
                # median/quantile/mode style wrappers: NaN discipline is in the NumPy function used
                txt = norm(fk) if fk is not None else ""
                if "np.nan" in txt or "nan_policy='omit'" in txt:
                    s.discipline = "skip"
                elif "np." in txt or "nan_policy='propagate'" in txt:
                    s.discipline = "prop"
                return s
            if sub:
                s.discipline, s.substitute = "skip", v
            else:
                s.discipline = "skip" if s.func_str.startswith("nan") else "prop"
            base = s.func_str[3:] if s.func_str.startswith("nan") else s.func_str
            s.ufunc = T.UFUNC_OF.get(base) or ("add" if base in ("sumofsquares",) else None)
            return s
        d = self.sig(u.name, tgt, depth + 1)
        s.delegate = tgt
        if d is not None:
            s.ufunc = d.ufunc
        if sub:
            s.discipline, s.substitute = "skip", v
        elif validity:
            s.discipline = "count"
        elif d is not None:
            s.discipline = d.discipline
            s.substitute = d.substitute
        return s


def _base(name: str) -> str:
    n = name[3:] if name.startswith("nan") else name
    return n.replace("_", "")


def rule_dispatch(ctx) -> RuleResult:
    res = RuleResult("R-DISPATCH", "engine dispatch agreement: NaN discipline, NaN substitute = operator identity, "
                     "ufunc<->name, numbagg name map, fall-back keeps the name", min_instances=140)
    em = EngineModel(ctx)
    prog = ctx.prog
    mods = ["aggregate_flox", "aggregate_npg", "aggregate_numbagg"]
    sigs: dict[str, dict[str, Sig]] = {}
    for m in mods:
        sigs[m] = {}
        for n in em.names(m):
            s = em.sig(m, n)
            if s is not None:
                sigs[m][n] = s
    nb = {m: len(v) for m, v in sigs.items()}
    if nb["aggregate_flox"] < 15 or nb["aggregate_npg"] < 14 or nb["aggregate_numbagg"] < 12:
        raise AnalysisError(f"R-DISPATCH: engine bindings found {nb}; hand-confirmed minimum is 18/16/13 (allowing 3 to go)")

    def rep(s: Sig, what, msg):
        res.report(f"{s.module}.{s.name}|{what}", f"flox/{s.module}.py:{s.lineno}", f"{s.module}.{s.name}", msg)

    for m in mods:
        for n, s in sigs[m].items():
            res.inst(f"{m}.{n}: {s.short()}", f"{m}.{n}")
            if n in ("ffill", "bfill"):
                continue   # scans: decided by R-SCANTABLE
            if "nan_to_num" in s.notes:
                rep(s, "nan_to_num", f"{n} replaces missing values with np.nan_to_num, which also turns +-inf (legal data) into the largest finite "
                    "numbers unless posinf= and neginf= are given: sums/products of groups containing an infinity come out finite")
            if s.how == "opaque" or s.discipline == "?":
                res.notes.append(f"UNDECIDED {m}.{n}: signature not computable ({s.short()}; {s.notes})")
                continue
            wants_skip = n.startswith("nan")
            # (2) discipline
            if n in ("nanlen", "len"):
                if s.discipline != "count":
                    rep(s, "discipline", f"{n} must count valid members; implementation is {s.short()}")
            elif m == "aggregate_numbagg" and n in ("any", "all"):
                # frozen exception: numbagg has only nanany/nanall; C01 restricts any/all to boolean data
                if s.func_str != f"nan{n}":
                    rep(s, "numbagg-map", f"{n} bound to group_{s.func_str}; expected group_nan{n}")
            elif n in ("ffill", "bfill"):
                pass
            elif (s.discipline == "skip") != wants_skip:
                rep(s, "discipline", f"name says NaN-{'skipping' if wants_skip else 'propagating'} but the implementation is "
                    f"NaN-{'skipping' if s.discipline == 'skip' else 'propagating'} ({s.short()})")
            # (1) name <-> ufunc
            b = _base(n)
            want_uf = T.UFUNC_OF.get(b) or ("add" if b in ("sumofsquares", "len", "mean") else None)
            if want_uf and s.ufunc and s.ufunc != want_uf:
                rep(s, "ufunc", f"{n} reduces with np.{s.ufunc}; the name requires np.{want_uf}")
            # (3) substitute = identity of the delegate's operator
            if s.discipline == "skip" and s.substitute is not None:
                uf = s.ufunc or want_uf
                if uf is not None:
                    ident = T.IDENTITY_OF_UFUNC[uf]
                    if s.substitute != ident or type(s.substitute) is not type(ident):
                        rep(s, "substitute", f"NaN is replaced by {s.substitute!r} before reducing with {uf}; the identity of {uf} is {ident!r}")
            # constant kernel names handed on must denote the same reduction
            if s.func_str and m == "aggregate_npg" and s.how in ("npg-def", "npg-partial", "def:npg-partial"):
                fb = _base(s.func_str)
                if fb != b and not (b == "len" and fb in ("len",)):
                    rep(s, "npg-name", f"{n} forwards to numpy_groupies func={s.func_str!r}")
                if s.how == "npg-partial" and s.func_str != n and n not in ("len", "nanlen"):
                    rep(s, "npg-name", f"{n} = partial(..., func={s.func_str!r}): name changed on the way")
            if m == "aggregate_numbagg" and s.func_str and n not in ("any", "all"):
                want = "nancount" if n == "nanlen" else n
                if s.func_str != want:
                    rep(s, "numbagg-map", f"{n} bound to numbagg.grouped.group_{s.func_str}; expected group_{want}")
    # (4) numbagg exports no NaN-propagating name
    for n, s in sigs["aggregate_numbagg"].items():
        if not n.startswith("nan") and n not in ("any", "all"):
            rep(s, "numbagg-export", f"aggregate_numbagg exports {n!r}: numbagg has no NaN-propagating kernels, so engine='numbagg' "
                "would silently skip NaN for it instead of falling back to numpy_groupies")
    # (5) fall-back keeps the kernel name
    g = prog.func("aggregations.get_npg_aggregation")
    p0 = g.params[0]
    reassigned = [n for n in walk_own(g.node) if isinstance(n, ast.Name) and isinstance(n.ctx, ast.Store) and n.id == p0]
    fb_calls = [c for c in calls_in(g.node) if norm(c.func) == "partial" and kwarg(c, "func") is not None]
    if not fb_calls:
        raise AnalysisError("get_npg_aggregation: fall-back partial(aggregate, func=...) not found")
    for c in fb_calls:
        res.inst(f"get_npg_aggregation fallback: {norm(c)}", "fallback")
        if norm(kwarg(c, "func")) != p0 or reassigned:
            res.report("get_npg_aggregation|fallback-name", g.where(c), g.qualname,
                       f"fall-back passes func={norm(kwarg(c, 'func'))} (parameter {p0!r} reassigned: {bool(reassigned)}): kernel name changed on fall-back")
    ga = prog.func("aggregations.generic_aggregate")
    for n in walk_own(ga.node):
        if isinstance(n, ast.Assign) and any(isinstance(t, ast.Name) and t.id == "func" for t in n.targets):
            txt = norm(n.value)
            res.inst(f"generic_aggregate rewrites func: {txt}", "rename")
            if txt != "func[3:]":
                res.report(f"generic_aggregate|rename|{txt[:40]}", ga.where(n), ga.qualname, f"kernel name rewritten to {txt}")
            else:
                # frozen exception: nanfirst/nanlast -> first/last only for string dtypes (no NaN in strings)
                pm = parents_map(ga.node)
                guard = next((a for a in ancestors(n, pm) if isinstance(a, ast.If)), None)
                gt = norm(guard.test) if guard is not None else ""
                if not ("nanfirst" in gt and "nanlast" in gt and "kind in 'US'" in gt):
                    res.report("generic_aggregate|rename-guard", ga.where(n), ga.qualname,
                               f"'nan' prefix stripped under guard {gt!r}; only nanfirst/nanlast on string dtypes may be renamed")
    # per (kernel, engine) resolution
    kernels = sorted(ctx.registry.kernel_names())
    for k in kernels:
        for eng, mod in (("flox", "aggregate_flox"), ("numbagg", "aggregate_numbagg"), ("numpy", "aggregate_npg"), ("numba", "aggregate_npg")):
            s = sigs[mod].get(k)
            via = f"{mod}.{k}: {s.short()}" if s else None
            if s is None and mod != "aggregate_npg":
                s2 = sigs["aggregate_npg"].get(k)
                via = f"fallback aggregate_npg.{k}: {s2.short()}" if s2 else f"fallback numpy_groupies.aggregate(func={k!r})"
            elif s is None:
                via = f"numpy_groupies.aggregate(func={k!r})"
            res.inst(f"{k} @ {eng} -> {via}", f"{k}@{eng}")
    # the dispatcher itself never renames the requested kernel to one of another NaN discipline (or another operator family).
    # generic_aggregate may rewrite `func` before looking it up (nanfirst -> first for string data, which has no NaN); every such rewrite
    # is checked: for each name the guard admits, the new name must have the same discipline, unless the guard restricts the data to dtype
    # kinds without a missing value.
    ga = prog.funcs.get("aggregations.generic_aggregate")
    if ga is None:
        raise AnalysisError("aggregations.generic_aggregate is gone (anchor)")
    from ..astutil import guard_facts, parents_map as _pm
    pmap = _pm(ga.node)
    fparam = "func" if "func" in ga.params else None
    n_rew = 0
    for a in walk_own(ga.node):
        if not (fparam and isinstance(a, ast.Assign) and any(isinstance(t, ast.Name) and t.id == fparam for t in a.targets)):
            continue
        n_rew += 1
        facts = guard_facts(a, pmap)
        admitted = None
        kinds_no_missing = False
        for at, pol in facts:
            if not pol:
                continue
            try:
                e = ast.parse(at, mode="eval").body
            except SyntaxError:
                continue
            if isinstance(e, ast.Compare) and len(e.ops) == 1 and norm(e.left) == fparam:
                r = e.comparators[0]
                if isinstance(e.ops[0], ast.In) and isinstance(r, (ast.List, ast.Tuple, ast.Set)):
                    admitted = [x.value for x in r.elts if isinstance(x, ast.Constant)]
                elif isinstance(e.ops[0], ast.Eq) and isinstance(r, ast.Constant):
                    admitted = [r.value]
            if ".dtype.kind in " in at:
                lit = at.split(" in ", 1)[1].strip().strip("'\"")
                if lit and set(lit) <= set("iubUSV"):
                    kinds_no_missing = True
        # new names: constants, conditional expressions of constants, or a slice of the old name (func[3:] drops the nan prefix)
        news = []

        def leaves(x):
            if isinstance(x, ast.IfExp):
                leaves(x.body)
                leaves(x.orelse)
            elif isinstance(x, ast.Constant) and isinstance(x.value, str):
                news.append(("const", x.value))
            elif isinstance(x, ast.Subscript) and norm(x.value) == fparam and norm(x.slice) == "3:":
                news.append(("strip-nan", None))
            else:
                news.append(("other", norm(x)))
        leaves(a.value)
        for kind, val in news:
            if kind == "other":
                res.notes.append(f"UNDECIDED generic_aggregate: '{norm(a)[:60]}' rewrites the kernel name in a way this rule cannot read")
                res.inst(f"generic_aggregate: {norm(a)[:50]} [unreadable rewrite]", f"rewrite|{a.lineno}")
                continue
            olds = admitted if admitted is not None else ["<any>"]
            bad = []
            for o in olds:
                o_nan = isinstance(o, str) and o.startswith("nan")
                n_nan = (False if kind == "strip-nan" else val.startswith("nan"))
                if o == "<any>" or o_nan != n_nan:
                    bad.append(o)
            ok = not bad or kinds_no_missing
            res.inst(f"generic_aggregate: rewrite {olds} -> {val if kind == 'const' else 'name without the nan prefix'}: discipline preserved"
                     f"{' (data kinds without a missing value)' if kinds_no_missing and bad else ''}: {ok}", f"rewrite|{a.lineno}|{val}")
            if not ok:
                res.report(f"aggregations.generic_aggregate|rename-changes-discipline|{val or 'strip'}", ga.where(a), ga.qualname,
                           f"'{norm(a)[:70]}' renames the requested kernel {bad} to {val if kind == 'const' else 'its name without nan'}: one is NaN-propagating, "
                           "the other NaN-skipping, and the guard does not restrict the data to dtype kinds without a missing value -- a group containing NaN "
                           "gets the extreme of its valid members where NumPy's (non-nan) reduction returns NaN")
    res.inst(f"generic_aggregate: {n_rew} rewrite(s) of the kernel name examined", "rewrites")
    return res


# -------------------------------------------------------------------------------------------------
STABLE_OBLIGATED = {
    ("aggregate_flox._prepare_for_flox", "group_idx.argsort"):
        "feeds every flox-engine kernel and ffill: within-group order is observable (first/last, quantile ties, ffill)",
}
STABLE_EXEMPT = {
    ("aggregate_flox.ffill", "np.argsort(perm"): "inverse of a permutation: keys are unique, any sort is stable",
    ("core._factorize_single", "np.argsort(expect"): "expected labels: unique keys",
    ("core.groupby_reduce", "np.argsort(groups[0]"): "label sets after combine: unique keys",
    ("core.find_group_cohorts", "np.argsort(n_overlapping_labels"): "planner merge order: any order is sound",
}


def rule_stable(ctx) -> RuleResult:
    res = RuleResult("R-STABLE", "argsorts whose within-group order is observable are stable", min_instances=3)
    seen_obl = set()
    for f in ctx.prog.all_funcs():
        for c in calls_in(f.node):
            fn = norm(c.func)
            if not (fn.endswith(".argsort") or fn in ("np.argsort", "numpy.argsort", "np.lexsort")):
                continue
            txt = norm(c)
            kind = const_str(kwarg(c, "kind"))
            obl = next((k for k in STABLE_OBLIGATED if k[0] == f.qualname and txt.startswith(k[1])), None)
            exm = next((k for k in STABLE_EXEMPT if k[0] == f.qualname and txt.startswith(k[1])), None)
            if obl:
                seen_obl.add(obl)
                res.inst(f"{f.qualname}: {txt} [obligated: {STABLE_OBLIGATED[obl]}]", f"{f.qualname}|{obl[1]}")
                if kind not in ("stable", "mergesort"):
                    res.report(f"{f.qualname}|{obl[1]}|unstable", f.where(c), f.qualname,
                               f"{txt}: kind={kind!r}; NumPy's default introsort is stable only below 17 elements, so members of a group "
                               "are no longer reduced in their original order on large unsorted labels")
            elif exm:
                res.inst(f"{f.qualname}: {txt} [exempt: {STABLE_EXEMPT[exm]}]")
            else:
                res.inst(f"{f.qualname}: {txt} [unclassified]")
                res.notes.append(f"UNCLASSIFIED argsort at {f.where(c)} {f.qualname}: {txt}")
    missing = set(STABLE_OBLIGATED) - seen_obl
    if missing:
        raise AnalysisError(f"R-STABLE: obligated sort sites vanished: {sorted(missing)}")
    return res


# ---------------------------------------------------------------------------------------------
# R-ENGINEFILL (C06, C19): an engine that cannot honour a blueprint's intermediate fill is refused for that blueprint on chunked data.
# The arg-reduction blueprints combine block extremes with a NaN-propagating operator (combine = ("max", "argmax")) and rely on a block whose
# members of a group are all NaN handing on the identity (-inf / +inf, the blueprint's intermediate fill).  numbagg's nan-skipping kernels
# return their own default for such a group (DEFAULT_FILL_VALUE["nanmax"] = nan) and take no fill_value; _postprocess_numbagg only patches
# groups that do not occur at all.  So as long as that table disagrees with the blueprint's fill, groupby_reduce must refuse
# engine="numbagg" for arg reductions whenever the DATA may be chunked (is_duck_dask_array(array)), not only for lazy labels.
def rule_enginefill(ctx) -> RuleResult:
    res = RuleResult("R-ENGINEFILL", "an engine that cannot honour the intermediate fill of arg reductions is refused for chunked data", min_instances=1)
    import math
    nb = ctx.prog.unit("aggregate_numbagg").bindings.get("DEFAULT_FILL_VALUE")
    if not nb or not isinstance(nb[-1], ast.Dict):
        raise AnalysisError("aggregate_numbagg.DEFAULT_FILL_VALUE dict literal not found (anchor)")
    table = {k.value: norm(v) for k, v in zip(nb[-1].keys, nb[-1].values) if isinstance(k, ast.Constant)}
    premises = []
    for key, rec in ctx.registry.agg_items():
        if rec.errors or rec.args.get("reduction_type") != "argreduce":
            continue
        chunk, comb, fills = rec.args.get("chunk"), rec.args.get("combine"), rec.args.get("fill_value")
        if not (isinstance(chunk, tuple) and isinstance(comb, tuple) and isinstance(fills, tuple)):
            continue
        k0 = chunk[0]
        if isinstance(k0, str) and k0 in table and table[k0] in ("np.nan", "nan") and str(fills[0]) in ("NINF", "INF") and comb[0] in ("max", "min"):
            premises.append((rec.name, k0, comb[0], str(fills[0])))
    if not premises:
        res.notes.append("numbagg's defaults agree with the intermediate fills of the arg-reduction blueprints (or no such blueprint): nothing to refuse")
        res.min_instances = 0
        return res
    gr = ctx.prog.func("core.groupby_reduce")
    arr = gr.params[0]
    refusal = None
    for st in walk_own(gr.node):
        if isinstance(st, ast.If) and any(isinstance(b, ast.Raise) for b in st.body):
            leaves = st.test.values if isinstance(st.test, ast.BoolOp) and isinstance(st.test.op, ast.And) else [st.test]
            txt = [norm(l) for l in leaves]
            if any(t.replace('"', "'") == "engine == 'numbagg'" for t in txt) and any("_is_arg_reduction" in t for t in txt):
                refusal = (st, leaves)
    names = ", ".join(p[0] for p in premises)
    if refusal is None:
        res.inst(f"premise holds for {names}; refusal of engine='numbagg' for arg reductions: missing", "refusal")
        res.report("core.groupby_reduce|numbagg-argreduce-not-refused", gr.where(), gr.qualname,
                   f"numbagg returns {table[premises[0][1]]} for a block in which a group has only NaN members, the {names} blueprints combine with the NaN-propagating "
                   f"'{premises[0][2]}' and expect {premises[0][3]}: groupby_reduce no longer refuses engine='numbagg' for arg reductions")
        return res
    st, leaves = refusal
    rest = [l for l in leaves if "numbagg" not in norm(l) and "_is_arg_reduction" not in norm(l)]
    covers_data = any(isinstance(c, ast.Call) and norm(c.func) in ("is_duck_dask_array", "is_chunked_array", "is_duck_array") and c.args and norm(c.args[0]) == arr
                      for l in rest for c in ast.walk(l)) or not rest
    res.inst(f"premise holds for {names} (numbagg {premises[0][1]} default {table[premises[0][1]]} vs fill {premises[0][3]}); refusal '{norm(st.test)[:70]}' covers a chunked "
             f"`{arr}`: {covers_data}", "refusal")
    if not covers_data:
        res.report("core.groupby_reduce|numbagg-argreduce-refusal-misses-chunked-data", gr.where(st), gr.qualname,
                   f"the refusal '{norm(st.test)[:80]}' does not fire for a chunked `{arr}` with in-memory labels: numbagg hands on {table[premises[0][1]]} for a block whose "
                   f"members of a group are all NaN, the combine ('{premises[0][2]}', NaN-propagating) expects {premises[0][3]}, and {names} return the position of the "
                   "first entry of the tree node instead of the extreme's")
    return res


# ---------------------------------------------------------------------------------------------
# R-ALLNANFILL (C06, C04): a NaN-skipping extreme / sum kernel answers a group without valid members with the FILL it was given, never with NaN.
# The blueprints hand every block kernel the identity of the combine step as fill_value (-inf for nanmax, +inf for nanmin, 0 / 1 for sums and
# products).  The arg-reduction blueprints combine with the NaN-PROPAGATING max / min, so a block kernel that writes NaN for "all members NaN"
# (what np.nanmax does, with a warning) poisons the combine: no entry matches the NaN extreme and the position of an unrelated element comes
# out.  In every engine module, the function bound to nanmax / nanmin / nansum / nanprod (directly or through partial(func=...)) contains no
# store of NaN into its result.
_FILL_HONOURING = {"nanmax", "nanmin", "nansum", "nanprod"}


def rule_allnanfill(ctx) -> RuleResult:
    res = RuleResult("R-ALLNANFILL", "NaN-skipping extreme / sum kernels answer all-NaN groups with the fill they are given, never with NaN", min_instances=2)
    prog = ctx.prog
    for uname in ("aggregate_npg", "aggregate_flox", "aggregate_numbagg"):
        u = prog.units.get(uname)
        if u is None:
            continue
        bound: dict[str, set[str]] = {}          # function name -> kernel names that reach it
        for st in u.tree.body:
            if isinstance(st, ast.Assign) and len(st.targets) == 1 and isinstance(st.targets[0], ast.Name) and st.targets[0].id in _FILL_HONOURING \
                    and isinstance(st.value, ast.Call) and norm(st.value.func) in ("partial", "functools.partial") and st.value.args:
                bound.setdefault(norm(st.value.args[0]), set()).add(st.targets[0].id)
            if isinstance(st, ast.FunctionDef) and st.name in _FILL_HONOURING:
                bound.setdefault(st.name, set()).add(st.name)
        for fname, kernels in sorted(bound.items()):
            f = prog.funcs.get(f"{uname}.{fname}")
            if f is None:
                continue
            nan_stores = [a for a in walk_own(f.node) if isinstance(a, ast.Assign) and len(a.targets) == 1 and isinstance(a.targets[0], ast.Subscript)
                          and norm(a.value) in ("np.nan", "float('nan')", "nan", "np.NaN")]
            res.inst(f"{uname}.{fname} (kernels {sorted(kernels)}): stores of NaN into a result: {len(nan_stores)}", f"{uname}.{fname}")
            for a in nan_stores:
                res.report(f"{uname}.{fname}|all-nan-group-written-as-nan|{'+'.join(sorted(kernels))}", f.where(a), f.qualname,
                           f"'{norm(a)[:60]}' writes NaN into the result of {sorted(kernels)}: the blueprints pass the identity of their combine step as fill_value, and the "
                           "arg-reduction blueprints combine with the NaN-propagating max / min -- a block whose members of a group are all NaN must hand on that fill, or "
                           "nanargmax / nanargmin return the position of an unrelated element")
    return res


# ---------------------------------------------------------------------------------------------
# R-NUMBAMINMAX (C01): kernels of an external library that are known NOT to keep the NaN discipline their name promises are wrapped.
# Frozen fact (confirmed once by running numpy_groupies 0.11 in this environment, like the NumPy tables): aggregate_numba's "max" and "min"
# skip NaN, whereas NumPy's max / min -- and numpy_groupies' own numpy implementation, the flox engine and numbagg's fall-back -- propagate
# it.  The engine-neutral module aggregate_npg serves both numpy_groupies back ends, so its bindings for these names must restore the
# propagation for engine == "numba": a function that tests the engine and masks groups containing NaN (np.isnan + an "any" aggregation).
_EXTERNAL_NAN_SKIPPING = {"numba": ("max", "min")}


_ARITH_AGG = {"sum", "nansum", "mean", "nanmean", "prod", "nanprod", "var", "nanvar", "std", "nanstd", "cumsum", "nancumsum", "add", "dot"}


def rule_numbaminmax(ctx) -> RuleResult:
    res = RuleResult("R-NUMBAMINMAX", "external kernels known to break the NaN discipline of their name are wrapped", min_instances=2)
    u = ctx.prog.units.get("aggregate_npg")
    if u is None:
        raise AnalysisError("aggregate_npg is gone (anchor)")
    binds = {}
    for st in u.tree.body:
        if isinstance(st, ast.Assign) and len(st.targets) == 1 and isinstance(st.targets[0], ast.Name) and isinstance(st.value, ast.Call) \
                and norm(st.value.func) in ("partial", "functools.partial") and st.value.args:
            binds[st.targets[0].id] = norm(st.value.args[0])
        if isinstance(st, ast.FunctionDef):
            binds[st.name] = st.name
    for engine, names in _EXTERNAL_NAN_SKIPPING.items():
        for name in names:
            target = binds.get(name)
            f = ctx.prog.funcs.get(f"aggregate_npg.{target}") if target else None
            ok = False
            if f is not None:
                tests_engine = any(isinstance(c, ast.Compare) and norm(c.left) == "engine" and any(isinstance(k, ast.Constant) and k.value == engine for k in c.comparators)
                                   for c in ast.walk(f.node))
                nan_tests = [c for c in ast.walk(f.node) if isinstance(c, ast.Call) and norm(c.func) in ("np.isnan", "isnull", "pd.isnull") and c.args]
                masks_nan = bool(nan_tests)
                ok = tests_engine and masks_nan
                # membership clause: "the group has a NaN member" is decided from the members themselves -- np.isnan of the data parameter
                # (elementwise views allowed) -- never from an arithmetic aggregate of them: inf + -inf, 0 * inf are NaN without any NaN member
                data = f.params[1] if len(f.params) > 1 else None
                for c in nan_tests:
                    inner = [k for k in ast.walk(c.args[0]) if isinstance(k, ast.Call)]
                    arith = [k for k in inner if any(isinstance(v, ast.Constant) and v.value in _ARITH_AGG for v in list(k.args) + [kw.value for kw in k.keywords])
                             or (isinstance(k.func, ast.Attribute) and k.func.attr in _ARITH_AGG)]
                    if arith:
                        res.report(f"aggregate_npg.{target}|nan-membership-from-arithmetic|{engine}|{name}", f.where(c), f.qualname,
                                   f"'{norm(c)[:90]}' decides \"has a NaN member\" from an arithmetic aggregate ('{norm(arith[0])[:60]}'): a group holding +inf and -inf "
                                   f"(or 0 and inf for a product) has a NaN total without a NaN member, so {name}([1, inf, -inf]) becomes NaN on engine '{engine}'")
            res.inst(f"aggregate_npg.{name} (engine {engine!r}): bound to {target or 'nothing: falls back to the raw numpy_groupies kernel'}; restores NaN propagation: {ok}",
                     f"{engine}|{name}")
            if not ok:
                res.report(f"aggregate_npg|external-kernel-skips-nan|{engine}|{name}", f"flox/aggregate_npg.py:{f.node.lineno if f is not None else 1}", "aggregate_npg",
                           f"engine='{engine}' runs numpy_groupies' numba '{name}', which skips NaN; the name promises NumPy's NaN-propagating {name}: "
                           f"groupby_reduce([1., nan, 2.], [0, 0, 0], func='{name}', engine='{engine}') returns the {name} of the valid members where every other engine returns NaN")
    return res
