"""C19 rules: R-RAISE, R-REGKEY, R-KWSIG, R-ASSERT (R-DEFASSIGN lives in defassign.py)."""
from __future__ import annotations

import ast

from ..astutil import parents_map, ancestors, kwarg, calls_in, names_in, guard_facts
from ..model import AnalysisError, Func, norm, walk_own
from ..report import RuleResult
from ..resolve import T

ALLOWED = {"ValueError", "NotImplementedError", "ImportError"}


def _exc_name(e: ast.AST | None) -> str | None:
    if e is None:
        return None
    if isinstance(e, ast.Call):
        e = e.func
    if isinstance(e, ast.Name):
        return e.id
    if isinstance(e, ast.Attribute):
        return e.attr
    return None


def rule_raise(ctx) -> RuleResult:
    res = RuleResult("R-RAISE", "every raise on API- or task-reachable paths names ValueError, NotImplementedError or ImportError",
                     min_instances=55)
    cg = ctx.callgraph
    reach = cg.api_reachable() | cg.task_reachable()
    for f in ctx.prog.all_funcs():
        pm = None
        for n in walk_own(f.node):
            if not isinstance(n, ast.Raise):
                continue
            name = _exc_name(n.exc)
            where = "reachable" if f.qualname in reach else "unreachable from API/task roots"
            res.inst(f"{f.qualname}: raise {name or '<re-raise>'} [{where}]", f"{f.qualname}|{norm(n)[:60]}")
            if name is None:
                # bare re-raise: must be inside a handler
                pm = pm or parents_map(f.node)
                if not any(isinstance(a, ast.ExceptHandler) for a in ancestors(n, pm)):
                    res.report(f"{f.qualname}|bare-raise", f.where(n), f.qualname, "bare 'raise' outside an except handler")
                continue
            if name in ALLOWED:
                continue
            if f.qualname not in reach:
                res.notes.append(f"{f.qualname}: raise {name} is unreachable from the API and task roots (listed, not a violation)")
                continue
            res.report(f"{f.qualname}|raise|{name}", f.where(n), f.qualname,
                       f"raises {name}; unsupported requests must be refused with ValueError, NotImplementedError or ImportError",
                       path=cg.path(cg.api_roots() + sorted(cg.task_roots), f.qualname))
    return res


# ---------------------------------------------------------------------------------------------
def _derives_from_params(e: ast.AST, f: Func) -> bool:
    return bool(names_in(e) & set(f.params)) or not isinstance(e, ast.Constant)


def _handler_ok(h: ast.ExceptHandler) -> bool:
    """handler converts to an allowed class or installs a fallback (assignment)"""
    for n in ast.walk(h):
        if isinstance(n, ast.Raise) and _exc_name(n.exc) in ALLOWED:
            return True
        if isinstance(n, (ast.Assign, ast.AugAssign)):
            return True
    return False


def rule_regkey(ctx) -> RuleResult:
    res = RuleResult("R-REGKEY", "registry / engine-module lookups keyed by user input are converted or fall back", min_instances=4)
    for f in ctx.prog.all_funcs():
        pm = None
        for n in walk_own(f.node):
            kind = exc = None
            if isinstance(n, ast.Subscript) and isinstance(n.ctx, ast.Load) and norm(n.value) == "AGGREGATIONS" \
                    and not isinstance(n.slice, ast.Constant):
                kind, exc = f"AGGREGATIONS[{norm(n.slice)}]", "KeyError"
            elif isinstance(n, ast.Call) and norm(n.func) == "getattr" and len(n.args) == 2 and not isinstance(n.args[1], ast.Constant) \
                    and norm(n.args[0]) in ("aggregate_flox", "aggregate_npg", "aggregate_numbagg"):
                kind, exc = norm(n), "AttributeError"
            elif isinstance(n, ast.Call) and norm(n.func) == "getattr" and len(n.args) == 2 and isinstance(n.args[1], ast.Name) \
                    and n.args[1].id in f.params and n.args[1].id in ("func", "name", "method", "reduction"):
                # a user-supplied name looked up on an object that is not flox's (xarray's Dataset, say)
                kind, exc = norm(n), "AttributeError"
            if kind is None:
                continue
            pm = pm or parents_map(f.node)
            guarded = False
            if norm(n.func) == "getattr" if isinstance(n, ast.Call) else False:
                probe = f"hasattr({norm(n.args[0])}, {norm(n.args[1])})"
                from ..astutil import guard_facts
                if any(at == probe and pol for at, pol in guard_facts(n, pm)):
                    guarded = True
                # ... or an earlier `if not hasattr(obj, name): raise <allowed>` in an enclosing block
                cur = n
                while cur is not None and not guarded:
                    par = pm.get(id(cur))
                    for fld in ("body", "orelse"):
                        blk = getattr(par, fld, None) if par is not None else None
                        if isinstance(blk, list) and any(cur is x for x in blk):
                            for st in blk:
                                if st is cur:
                                    break
                                if isinstance(st, ast.If) and probe in norm(st.test) and norm(st.test).startswith("not ") \
                                        and any(isinstance(r, ast.Raise) for r in ast.walk(st)):
                                    guarded = True
                    cur = par
            for a in ancestors(n, pm):
                if isinstance(a, ast.Try):
                    # the lookup must be in the try *body*
                    in_body = any(n is x for st in a.body for x in ast.walk(st))
                    if not in_body:
                        continue
                    for h in a.handlers:
                        names = []
                        if h.type is None:
                            names = [exc]
                        elif isinstance(h.type, ast.Tuple):
                            names = [_exc_name(x) for x in h.type.elts]
                        else:
                            names = [_exc_name(h.type)]
                        if (exc in names or "Exception" in names or "LookupError" in names) and _handler_ok(h):
                            guarded = True
            res.inst(f"{f.qualname}: {kind} [{'guarded' if guarded else 'UNGUARDED'}]", f"{f.qualname}|{kind}")
            if not guarded:
                res.report(f"{f.qualname}|lookup|{kind[:60]}", f.where(n), f.qualname,
                           f"{kind}: an unknown name escapes as {exc} instead of a clean refusal")
    return res


# ---------------------------------------------------------------------------------------------
class _Sig:
    def __init__(self, f: Func):
        a = f.node.args
        self.f = f
        self.pos = [x.arg for x in a.posonlyargs + a.args]
        if f.cls and self.pos and self.pos[0] in ("self", "cls"):
            self.pos = self.pos[1:]
        self.posonly = {x.arg for x in a.posonlyargs}
        self.kwonly = [x.arg for x in a.kwonlyargs]
        self.vararg = a.vararg is not None
        self.kwarg = a.kwarg is not None
        nd = len(a.defaults)
        allpos = [x.arg for x in a.posonlyargs + a.args]
        self.required = set(allpos[: len(allpos) - nd]) - {"self", "cls"}
        self.required |= {x.arg for x, d in zip(a.kwonlyargs, a.kw_defaults) if d is None}

    def accepts_kw(self, k: str) -> bool:
        return self.kwarg or (k in self.pos and k not in self.posonly) or k in self.kwonly


def _unwrap(ctx, t: T, depth=0):
    """T -> list of (func qualname, bound keyword names, n bound positionals) alternatives.
    Parameters are replaced by the callables bound to them at call/partial sites; the engine dispatch by the
    kernel names a blueprint can ask for."""
    res, cg = ctx.resolver, ctx.callgraph
    out = []
    if depth > 8:
        return out
    if t.kind == "func":
        out.append((t.name, frozenset(), 0))
    elif t.kind == "partial":
        call = res.partial_nodes.get(t.node_id)
        kws = frozenset(k.arg for k in call.keywords if k.arg) if call is not None else frozenset()
        if call is not None:
            # partial(f, **kwargs): keys the dict provably carries (dict(...) literal keys and kwargs["k"] = v stores)
            pf = res.partial_ctx.get(t.node_id)
            for k in call.keywords:
                if k.arg is None and isinstance(k.value, ast.Name) and pf is not None:
                    extra = set()
                    for kind, node in res.scope(pf).bind.get(k.value.id, []):
                        if kind == "assign" and isinstance(node, ast.Call) and norm(node.func) == "dict":
                            extra |= {kk.arg for kk in node.keywords if kk.arg}
                        elif kind == "assign" and isinstance(node, ast.Dict):
                            extra |= {kk.value for kk in node.keys if isinstance(kk, ast.Constant)}
                    for n in walk_own(pf.node):
                        if isinstance(n, ast.Assign):
                            for tg in n.targets:
                                if isinstance(tg, ast.Subscript) and isinstance(tg.value, ast.Name) and tg.value.id == k.value.id \
                                        and isinstance(tg.slice, ast.Constant):
                                    extra.add(tg.slice.value)
                    kws = kws | frozenset(extra)
        npos = len(call.args) - 1 if call is not None else 0
        for (q, k2, p2) in _unwrap(ctx, t.parts[0], depth + 1):
            out.append((q, k2 | kws, p2 + npos))
    elif t.kind == "compose":
        # keywords and positionals go to the innermost (last) function
        if t.parts:
            for alt in t.parts[-1]:
                out += _unwrap(ctx, alt, depth + 1)
    elif t.kind == "param":
        fn, p = t.name.split(":")
        for b in cg.param_callables.get((fn, p), ()):
            out += _unwrap(ctx, b, depth + 1)
    elif t.kind == "dispatch":
        for k in sorted(ctx.registry.kernel_names()):
            for tt in res.module_attr(t.name, k):
                if tt.kind in ("func", "partial"):
                    out += _unwrap(ctx, tt, depth + 1)
    return out


def rule_kwsig(ctx) -> RuleResult:
    res = RuleResult("R-KWSIG", "every call / partial of a flox function passes only keywords the callee accepts, "
                     "and engine bindings accept the dispatcher's keywords", min_instances=150)
    prog, rs, cg = ctx.prog, ctx.resolver, ctx.callgraph
    sigs: dict[str, _Sig] = {}

    def sig(q):
        if q not in sigs:
            sigs[q] = _Sig(prog.funcs[q])
        return sigs[q]

    for f in prog.all_funcs():
        pm = parents_map(f.node)
        for call in calls_in(f.node):
            is_partial = norm(call.func) in ("partial", "functools.partial")
            if is_partial:
                if not call.args:
                    continue
                target_expr = call.args[0]
                npos_here = len(call.args) - 1
            else:
                target_expr = call.func
                npos_here = len([a for a in call.args if not isinstance(a, ast.Starred)])
            has_star = any(isinstance(a, ast.Starred) for a in call.args)
            has_dstar = any(k.arg is None for k in call.keywords)
            kws = [k.arg for k in call.keywords if k.arg]
            with rs.assuming(guard_facts(call, pm)):
                ts = rs.resolve(target_expr, f, f.unit)
            alts = []
            for t in ts:
                alts += _unwrap(ctx, t)
            seen = set()
            for (q, bound, npos_bound) in alts:
                if q not in prog.funcs or (q, frozenset(bound)) in seen:
                    continue
                seen.add((q, frozenset(bound)))
                s = sig(q)
                desc = f"{f.qualname}: {'partial' if is_partial else 'call'} {norm(target_expr)[:40]} -> {q} kws={sorted(kws)}"
                res.inst(desc, f"{f.qualname}|{norm(call)[:80]}|{q}")
                for k in kws:
                    if not s.accepts_kw(k):
                        res.report(f"{f.qualname}|kw|{q}|{k}", f.where(call), f.qualname,
                                   f"{norm(call)[:90]}: callee {q} (selected on some path) has no parameter {k!r}: TypeError when the "
                                   f"{'partial is called' if is_partial else 'call executes'}")
                    elif k in bound and not is_partial and False:
                        pass
                if not s.vararg and not has_star and npos_here + npos_bound > len(s.pos):
                    res.report(f"{f.qualname}|npos|{q}", f.where(call), f.qualname,
                               f"{norm(call)[:90]}: {npos_here + npos_bound} positional arguments for {q}, which takes {len(s.pos)}")
                # positional/keyword double binding
                if not has_star:
                    taken = set(s.pos[npos_bound: npos_bound + npos_here])
                    dbl = taken & set(kws)
                    if dbl:
                        res.report(f"{f.qualname}|double|{q}|{sorted(dbl)[0]}", f.where(call), f.qualname,
                                   f"{norm(call)[:90]}: parameter(s) {sorted(dbl)} of {q} given both positionally and by keyword")
                # missing required arguments at a direct call (not partial construction), when nothing is starred
                if not is_partial and not has_star and not has_dstar:
                    given = set(s.pos[: npos_bound + npos_here]) | set(kws) | bound
                    miss = s.required - given
                    if miss:
                        res.report(f"{f.qualname}|missing|{q}|{sorted(miss)[0]}", f.where(call), f.qualname,
                                   f"{norm(call)[:90]}: required parameter(s) {sorted(miss)} of {q} not supplied")
    # engine bindings accept the dispatcher's keywords
    ga = prog.func("aggregations.generic_aggregate")
    disp = [c for c in calls_in(ga.node) if isinstance(c.func, ast.Name) and c.func.id == "method"]
    if len(disp) != 1:
        raise AnalysisError("generic_aggregate: expected exactly one dispatching call method(...)")
    dkws = [k.arg for k in disp[0].keywords if k.arg]
    dstar = any(k.arg is None for k in disp[0].keywords)
    from .dispatch import EngineModel, _flatten_partial
    em = EngineModel(ctx)
    for mod in ("aggregate_flox", "aggregate_npg", "aggregate_numbagg"):
        u = prog.unit(mod)
        for name in em.names(mod):
            target = None
            bound: set[str] = set()
            if name in u.bindings:
                fp = _flatten_partial(u.bindings[name][-1])
                if fp is None:
                    continue
                base, k = fp
                bound = set(k)
                if isinstance(base, ast.Name) and base.id in u.funcs:
                    target = u.funcs[base.id]
            elif name in u.funcs:
                target = u.funcs[name]
            if target is None:
                continue
            s = sig(target.qualname)
            extra = {"engine"} if mod == "aggregate_npg" else set()
            need = set(dkws) | extra
            res.inst(f"{mod}.{name} -> {target.qualname} accepts {sorted(need)}", f"binding|{mod}.{name}")
            for k in sorted(need):
                if not s.accepts_kw(k):
                    res.report(f"{mod}.{name}|dispatch-kw|{k}", target.where(), f"{mod}.{name}",
                               f"dispatcher passes {k}= but {target.qualname} does not accept it: TypeError inside a task")
            for k in bound:
                if not s.accepts_kw(k):
                    res.report(f"{mod}.{name}|partial-kw|{k}", target.where(), f"{mod}.{name}",
                               f"partial binds {k}= which {target.qualname} does not accept")
    return res


# ---------------------------------------------------------------------------------------------
# R-ASSERT: classification table.  key = (function, normalised condition)
INV = "invariant"
NARROW = "type-narrowing"
USER = "user-reachable"
OUTSIDE = "outside the documented input contract"
GUARDED = "guarded"   # invariant only because a named refusal dominates: 'function|guard text fragment|what the user would do'

ASSERT_TABLE = {
    ("aggregate_flox._prepare_for_flox", "array.shape[-1] == group_idx.shape[0]"): (INV, "chunk_reduce reshapes array and group_idx to the same trailing length; labels with size-1 dimensions are broadcast first (chunk_reduce for full reductions, groupby_reduce's partial-axis branch: R-PAIRS[broadcast] -- without that broadcast this assert was user-reachable, F25)"),
    ("aggregate_flox.ffill", "axis == ndim - 1"): (INV, "chunk_scan/scan_binary_op pass axis = ndim-1; groupby_scan normalises a single axis"),
    ("aggregations._atleast_1d", "len(inp) >= min_length"): (OUTSIDE, "isbin / dtype / fill sequences shorter than the number of groupers: misaligned arguments"),
    ("aggregations.AlignedArrays.__post_init__", "self.array.shape[-1] == self.group_idx.size"): (GUARDED, "core.groupby_scan|by_.shape[-1] != array.shape[-1]|groupby_scan with labels of another length than the scanned axis (and, by the refusal above it, n-D labels)"),
    ("aggregations.ScanState.__post_init__", "self.state is not None or self.result is not None"): (INV, "both constructors pass one of the two"),
    ("aggregations.scan_binary_op", "left_state.state is not None"): (INV, "blelloch scan: left operand always comes from preop/binop, both set state"),
    ("aggregations.scan_binary_op", "right is not None"): (INV, "ScanState invariant"),
    ("aggregations.scan_binary_op", "agg.binary_op is not None"): (INV, "R-SCANTABLE: apply_binary_op blueprints have a binary_op"),
    ("aggregations.scan_binary_op", "agg.binary_op is None"): (INV, "R-SCANTABLE: concat_then_scan blueprints have none"),
    ("aggregations._initialize_aggregation", "isinstance(agg_, Aggregation)"): (USER, "groupby_reduce(func='ffill'): a scan name given to a reduction (fixed in d050bec; listed so that it is reported if it returns)"),
    ("aggregations.argreduce_preprocess", "len(axis) == 1"): (USER, "arg-reduction over two axes on dask input (fixed in d050bec)"),
    ("core.groupby_reduce", "nax <= by_.ndim"): (USER, "more reduction axes than label dimensions (fixed in d050bec)"),
    ("core.groupby_scan", "isinstance(agg, Scan)"): (USER, "groupby_scan(func='sum'): a reduction name given to a scan (fixed in fa78138)"),
    ("aggregations._initialize_aggregation", "isinstance(finalize_kwargs, dict)"): (OUTSIDE, "finalize_kwargs is documented as dict"),
    ("core._get_optimal_chunks_for_groups", "sum(newchunks) == sum(chunks)"): (INV, "self-check of the boundary heuristic (C17, not decided)"),
    ("core._compute_label_chunk_bitmask", "isinstance(labels, np.ndarray)"): (INV, "find_group_cohorts applies np.asarray first"),
    ("core.find_group_cohorts", "len(merged_keys) == actual_ngroups"): (INV, "planner self-check (C09)"),
    ("core.find_group_cohorts", "expected_ngroups == actual_ngroups"): (INV, "planner self-check (C09)"),
    ("core.rechunk_for_cohorts", "sum(newchunks) == len(labels)"): (INV, "divisions start at 0 and end at len(labels)"),
    ("core.reindex_pydata_sparse_coo", "axis == -1"): (INV, "reindex_ is only called with the default axis for sparse"),
    ("core.offset_labels", "labels.ndim > 1"): (INV, "factorize_ calls it only under by[0].ndim > 1"),
    ("core.chunk_argreduce", "results['intermediates'][0].shape == results['intermediates'][1].shape"): (INV, "both come from one chunk_reduce call"),
    ("core.chunk_reduce", "by.ndim <= array.ndim"): (OUTSIDE, "labels with more dimensions than the array: misaligned shapes"),
    ("core.chunk_reduce", "group_idx.ndim == 1"): (INV, "reshape(-1) on the previous line"),
    ("core._simple_combine", "array.ndim >= 2"): (INV, "_expand_dims inserted DUMMY_AXIS"),
    ("core._simple_combine", "callable(combine)"): (INV, "simple_combine built by getattr in _initialize_aggregation"),
    ("core._grouped_combine", "combine_ is not None"): (INV, "R-BLOCKONLY: blueprints without decomposition never reach a combine"),
    ("core._reduce_blockwise", "agg.finalize_kwargs is not None"): (INV, "Aggregation.__init__ sets {} and _initialize_aggregation only replaces it by a dict"),
    ("core.dask_groupby_agg", "isinstance(axis, Sequence)"): (INV, "groupby_reduce passes the normalised tuple axis_"),
    ("core.dask_groupby_agg", "all((ax >= 0 for ax in axis))"): (INV, "normalize_axis_tuple"),
    ("core.dask_groupby_agg", "expected_groups is not None"): (INV, "not labels_are_unknown and numpy labels are factorised early => expected_ is a RangeIndex"),
    ("core.dask_groupby_agg", "chunks_cohorts"): (USER, "method='cohorts' when none of the requested labels occurs: find_group_cohorts returns no cohort"),  # fixed in ff62a43: assert replaced by ValueError
    ("core.cubed_groupby_agg", "isinstance(axis, Sequence)"): (INV, "as dask"),
    ("core.cubed_groupby_agg", "all((ax >= 0 for ax in axis))"): (INV, "as dask"),
    ("core.cubed_groupby_agg", "by.ndim == 1"): (USER, "cubed (not installed here): reported separately, never decisive"),
    ("core.cubed_groupby_agg", "expected_groups is not None"): (USER, "cubed"),
    ("core.cubed_groupby_agg", "do_simple_combine"): (USER, "cubed"),
    ("core.cubed_groupby_agg", "method == 'map-reduce'"): (INV, "groupby_reduce restricts cubed to map-reduce/blockwise and the blockwise arm returned"),
    ("core.cubed_groupby_agg", "reindex.blockwise is True"): (USER, "cubed"),
    ("core.cubed_groupby_agg", "len(axis) == 1"): (USER, "cubed"),
    ("core._validate_reindex", "isinstance(reindex_, ReindexStrategy)"): (INV, "both arms construct or pass a ReindexStrategy"),
    ("core._assert_by_is_aligned", "all((b.ndim == by[0].ndim for b in by[1:]))"): (OUTSIDE, "groupers of different dimensionality: misaligned shapes"),
    ("core._convert_expected_groups_to_index", "ex is None"): (INV, "else-arm of 'elif ex is not None'"),
    ("core._validate_expected_groups", "isinstance(expected_groups, tuple)"): (NARROW, "under TYPE_CHECKING"),
    ("core.groupby_reduce", "expected_groups == (None,)"): (INV, "not factorize_early => some expected group is None; the loop above refuses nby > 1 with dask labels"),
    ("core.groupby_reduce", "len(bys) == 1"): (INV, "_factorize_multiple returns a 1-tuple literally"),
    ("core.groupby_reduce", "isinstance(array, DaskArray)"): (NARROW, "under TYPE_CHECKING"),
    ("core.groupby_reduce", "isinstance(reindex, ReindexStrategy)"): (NARROW, "under TYPE_CHECKING"),
    ("core.groupby_reduce", "method is not None"): (NARROW, "under TYPE_CHECKING"),
    ("core.groupby_reduce", "len(groups) == 1"): (INV, "dask_groupby_agg returns 1-tuples"),
    ("core.groupby_scan", "engine == 'flox'"): (INV, "engine is None is enforced two lines above, then set to 'flox'"),
    ("core.groupby_scan", "len(bys) == 1"): (INV, "_factorize_multiple returns a 1-tuple"),
    ("core.chunk_scan", "axis == inp.array.ndim - 1"): (GUARDED, "core.groupby_scan|axis_ != (array.ndim - 1,)|groupby_scan along a non-trailing axis"),
    ("core.grouped_reduce", "axis == inp.array.ndim - 1"): (GUARDED, "core.groupby_scan|axis_ != (array.ndim - 1,)|groupby_scan along a non-trailing axis (dask)"),
    ("core._finalize_scan", "block.result is not None"): (INV, "cumreduction applies it to scan results only"),
    ("core.dask_groupby_scan", "result.chunks == array.chunks"): (INV, "map_blocks keeps chunks"),
    ("dask_array_ops.partial_reduce", "dep_name != name"): (INV, "R-KEYS: level names are distinct from the dependency"),
    ("xarray._broadcast_size_one_dims", "set(dims).issubset(array_dims)"): (INV, "apply_ufunc core dims"),
    ("xrutils._datetime_nanmin", "is_datetime_like(dtype)"): (INV, "caller checks dtype.kind in 'Mm'"),
}


def rule_assert(ctx) -> RuleResult:
    res = RuleResult("R-ASSERT", "asserts reachable with user-derived values are triaged; user-reachable ones are findings",
                     min_instances=50)
    seen = set()
    for f in ctx.prog.all_funcs():
        pm = None
        for n in walk_own(f.node):
            if not isinstance(n, ast.Assert):
                continue
            cond = norm(n.test)
            key = (f.qualname, cond)
            seen.add(key)
            pm = pm or parents_map(f.node)
            under_tc = any(isinstance(a, ast.If) and "TYPE_CHECKING" in norm(a.test) for a in ancestors(n, pm))
            if under_tc:
                res.inst(f"{f.qualname}: assert {cond} [type-narrowing under TYPE_CHECKING]")
                continue
            row = ASSERT_TABLE.get(key)
            if row is None:
                res.inst(f"{f.qualname}: assert {cond} [UNTRIAGED]", f"{f.qualname}|{cond}")
                res.notes.append(f"UNTRIAGED assert at {f.where(n)} {f.qualname}: {cond} (new or changed; the rule cannot decide implication)")
                continue
            cls, why = row
            if cls == GUARDED:
                gfn, gtext, what = why.split("|")
                g = ctx.prog.funcs.get(gfn)
                ok = False
                if g is not None:
                    for st in walk_own(g.node):
                        if isinstance(st, ast.If) and gtext in norm(st.test) and any(
                                isinstance(x, ast.Raise) and _exc_name(x.exc) in ALLOWED for x in st.body):
                            ok = True
                res.inst(f"{f.qualname}: assert {cond} [guarded by refusal '{gtext}' in {gfn}: {'present' if ok else 'MISSING'}]",
                         f"{f.qualname}|{cond}")
                if not ok:
                    res.report(f"{f.qualname}|assert|{cond[:60]}", f.where(n), f.qualname,
                               f"assert {cond} is reachable with documented inputs ({what}): the refusal '{gtext}' in {gfn} that made it an "
                               "invariant is gone, so the user gets a bare AssertionError")
                continue
            res.inst(f"{f.qualname}: assert {cond} [{cls}: {why}]", f"{f.qualname}|{cond}")
            if cls == USER and "cubed" not in why:
                res.report(f"{f.qualname}|assert|{cond[:60]}", f.where(n), f.qualname,
                           f"assert {cond} is reachable with documented inputs ({why}): bare AssertionError instead of a clean refusal")
    return res
