"""R-ARITY (C11, C19): tuple-arity algebra for the chunk / index tuples of the hand-written graph layers.

The blockwise layers of dask_groupby_agg and the reshaping layer of _collapse_blocks_along_axes are described by tuples with one entry per
array dimension: `chunks=`, the index tuples handed to dask.array.blockwise, and the block keys `(name, *position)`.  Their lengths are
linear expressions in three unknowns -- n (dimensions of the block array), k (= len(axis), the reduced axes) and d (new leading dimensions) --
and the obligations are identities that must hold for EVERY k, not only for the k = 1, 2 that the tests exercise:

  * paired tuples that are zipped into `adjust_chunks` / `new_axes` have the same arity;
  * the chunks of an array built on top of `reduced` have as many entries as the keys that index `reduced`'s blocks need (n).

The evaluator is a small abstract interpreter over tuple expressions (display, +, * int, slices with -len(axis), tuple(range(X.ndim)),
tuple(<gen> for _ in T), np.unravel_index(_, T), itertools.product(*T) loop targets); anything else is "unknown" and the obligation is listed
as UNDECIDED rather than reported.
"""
from __future__ import annotations

import ast

from ..astutil import kwarg, names_in
from ..model import AnalysisError, norm, walk_own
from ..report import RuleResult

Lin = dict  # symbol -> coefficient ; "" -> constant


def _add(a: Lin, b: Lin, sign=1) -> Lin:
    out = dict(a)
    for k, v in b.items():
        out[k] = out.get(k, 0) + sign * v
    return {k: v for k, v in out.items() if v != 0}


def _scale(a: Lin, c: int) -> Lin:
    return {k: v * c for k, v in a.items() if v * c != 0}


def _show(a: Lin) -> str:
    if not a:
        return "0"
    parts = []
    for k in sorted(a, key=lambda s: (s == "", s)):
        v = a[k]
        parts.append(f"{v:+d}" if k == "" else (("+" if v > 0 else "-") + (k if abs(v) == 1 else f"{abs(v)}{k}")))
    return "".join(parts).lstrip("+")


class _Arity:
    def __init__(self, f, axis_names=("axis",), symbols=None):
        self.f = f
        self.axis_names = set(axis_names)
        self.symbols = symbols or {}
        self.assigns: dict[str, list] = {}
        self.loops: dict[str, ast.AST] = {}
        for a in walk_own(f.node):
            if isinstance(a, ast.Assign) and len(a.targets) == 1 and isinstance(a.targets[0], ast.Name):
                self.assigns.setdefault(a.targets[0].id, []).append(a.value)
            elif isinstance(a, ast.AnnAssign) and isinstance(a.target, ast.Name) and a.value is not None:
                self.assigns.setdefault(a.target.id, []).append(a.value)
            elif isinstance(a, ast.For) and isinstance(a.target, ast.Name):
                self.loops[a.target.id] = a.iter
        self._stack: set[str] = set()

    # ---- integers (linear in k)
    def intval(self, e) -> Lin | None:
        if isinstance(e, ast.Constant) and isinstance(e.value, int) and not isinstance(e.value, bool):
            return {"": e.value} if e.value else {}
        if isinstance(e, ast.Call) and norm(e.func) == "len" and len(e.args) == 1:
            return self.arity(e.args[0])
        if isinstance(e, ast.Attribute) and e.attr == "ndim":
            return {"n": 1}
        if isinstance(e, ast.UnaryOp) and isinstance(e.op, ast.USub):
            v = self.intval(e.operand)
            return None if v is None else _scale(v, -1)
        if isinstance(e, ast.BinOp) and isinstance(e.op, (ast.Add, ast.Sub)):
            l, r = self.intval(e.left), self.intval(e.right)
            if l is None or r is None:
                return None
            return _add(l, r, 1 if isinstance(e.op, ast.Add) else -1)
        if isinstance(e, ast.Name) and e.id in self.assigns and len(self.assigns[e.id]) == 1 and e.id not in self._stack:
            self._stack.add(e.id)
            try:
                return self.intval(self.assigns[e.id][0])
            finally:
                self._stack.discard(e.id)
        return None

    # ---- tuples
    def arity(self, e) -> Lin | None:
        if isinstance(e, ast.Tuple) or isinstance(e, ast.List):
            tot: Lin = {}
            for x in e.elts:
                if isinstance(x, ast.Starred):
                    a = self.arity(x.value)
                    if a is None:
                        return None
                    tot = _add(tot, a)
                else:
                    tot = _add(tot, {"": 1})
            return tot
        if isinstance(e, ast.BinOp) and isinstance(e.op, ast.Add):
            l, r = self.arity(e.left), self.arity(e.right)
            return None if l is None or r is None else _add(l, r)
        if isinstance(e, ast.BinOp) and isinstance(e.op, ast.Mult):
            for t, m in ((e.left, e.right), (e.right, e.left)):
                a, c = self.arity(t) if isinstance(t, (ast.Tuple, ast.List)) else None, self.intval(m)
                if a is not None and c is not None and set(a) <= {""}:
                    return _scale(c, a.get("", 0))
            return None
        if isinstance(e, ast.Attribute) and e.attr in ("chunks", "numblocks", "shape"):
            return {"n": 1}
        if isinstance(e, ast.Subscript) and isinstance(e.slice, ast.Slice) and e.slice.step is None:
            base = self.arity(e.value)
            lo = self.intval(e.slice.lower) if e.slice.lower is not None else {}
            hi = self.intval(e.slice.upper) if e.slice.upper is not None else None
            if base is None or lo is None or (e.slice.upper is not None and hi is None):
                return None
            # negative bounds count from the end (bounds here are 0, -k or -c): T[:-k] -> |T|-k ; T[-k:] -> k
            def pos(b):   # position of a bound, as linear form
                neg = any(v < 0 for v in b.values()) and not any(v > 0 for v in b.values())
                return _add(base, b) if neg else b
            start = pos(lo) if lo else {}
            stop = base if e.slice.upper is None else pos(hi)
            return _add(stop, start, -1)
        if isinstance(e, ast.Call):
            fn = norm(e.func)
            if fn == "tuple" and len(e.args) == 1:
                a0 = e.args[0]
                if isinstance(a0, (ast.GeneratorExp, ast.ListComp)) and len(a0.generators) == 1 and not a0.generators[0].ifs:
                    return self.arity(a0.generators[0].iter)
                if isinstance(a0, ast.Call) and norm(a0.func) == "range":
                    if len(a0.args) == 1:
                        return self.intval(a0.args[0])
                    if len(a0.args) == 2:
                        lo, hi = self.intval(a0.args[0]), self.intval(a0.args[1])
                        return None if lo is None or hi is None else _add(hi, lo, -1)
                if isinstance(a0, ast.Call) and norm(a0.func) == "reversed" and a0.args:
                    return self.arity(a0.args[0])
                return self.arity(a0)
            if fn in ("np.unravel_index", "numpy.unravel_index") and len(e.args) >= 2:
                return self.arity(e.args[1])
            if fn in ("range",) and len(e.args) == 1:
                return self.intval(e.args[0])
            if fn in ("reversed", "sorted", "list") and len(e.args) == 1:
                return self.arity(e.args[0])
            return None
        if isinstance(e, ast.Name):
            if e.id in self.axis_names:
                return {"k": 1}
            if e.id in self.symbols:
                return dict(self.symbols[e.id])
            if e.id in self._stack:
                return None
            self._stack.add(e.id)
            try:
                if e.id in self.loops:
                    it = self.loops[e.id]
                    if isinstance(it, ast.Call) and norm(it.func) in ("itertools.product", "product") and len(it.args) == 1 and isinstance(it.args[0], ast.Starred):
                        return self.arity(it.args[0].value)
                    return None
                vals = self.assigns.get(e.id)
                if not vals:
                    return None
                ars = [self.arity(v) for v in vals]
                if any(a is None for a in ars) or any(a != ars[0] for a in ars):
                    return None
                return ars[0]
            finally:
                self._stack.discard(e.id)
        return None


def rule_arity(ctx) -> RuleResult:
    res = RuleResult("R-ARITY", "chunk / index / key tuples of the hand-written layers have one entry per dimension for every number of reduced axes", min_instances=3)
    prog = ctx.prog
    dg = prog.func("core.dask_groupby_agg")
    # arity of group_chunks: every assignment in the constructor is a display
    ev = _Arity(dg)
    g = ev.arity(ast.Name(id="group_chunks", ctx=ast.Load()))
    res.inst(f"dask_groupby_agg: arity(group_chunks) = {_show(g) if g is not None else '?'} over {len(ev.assigns.get('group_chunks', []))} assignments", "group_chunks")
    if g is None:
        res.notes.append("UNDECIDED: the assignments of group_chunks in dask_groupby_agg are not tuple displays of one arity")

    def obligation(where, f, left, right, what, node, key):
        if left is None or right is None:
            res.inst(f"{where}: {what}: UNDECIDED (arity of one side not expressible)", key)
            res.notes.append(f"UNDECIDED: {where}: {what}")
            return
        diff = _add(left, right, -1)
        res.inst(f"{where}: {what}: {_show(left)} vs {_show(right)}: {'identical' if not diff else 'differ by ' + _show(diff)}", key)
        if diff:
            hint = ""
            if set(diff) <= {"k", ""} and diff.get("k"):
                k0 = -diff.get("", 0) / diff["k"]
                hint = f" (they agree only for len(axis) == {k0:g})"
            res.report(f"{f.qualname}|tuple-arity|{key}", f.where(node), f.qualname,
                       f"{what}: the two sides have {_show(left)} and {_show(right)} entries (n = array dimensions, k = len(axis), d = new dimensions){hint}: "
                       "dask rejects the layer ('Index string … does not match array dimension') or pairs chunks with the wrong axes for the other values of k")

    # (1) zip(out_inds, output_chunks) / zip(new_inds, new_dims_shape) in dask_groupby_agg
    ev = _Arity(dg, symbols={"new_dims_shape": {"d": 1}})
    zips = [c for c in walk_own(dg.node) if isinstance(c, ast.Call) and norm(c.func) == "zip" and len(c.args) == 2]
    for z in zips:
        a, b = z.args
        if not (isinstance(a, ast.Name) and isinstance(b, ast.Name)):
            continue
        if not ({"inds", "chunks", "shape"} & set(norm(a).split("_")) or {"inds", "chunks", "shape"} & set(norm(b).split("_"))):
            continue
        obligation("dask_groupby_agg", dg, ev.arity(a), ev.arity(b), f"zip({norm(a)}, {norm(b)})", z, f"zip|{norm(a)}|{norm(b)}")

    # (2) _collapse_blocks_along_axes: the new array's chunks vs the keys into `reduced`
    cb = prog.funcs.get("core._collapse_blocks_along_axes")
    if cb is None:
        res.notes.append("_collapse_blocks_along_axes is gone: clause (2) not applicable")
        return res
    call = next((c for c in walk_own(dg.node) if isinstance(c, ast.Call) and norm(c.func) == "_collapse_blocks_along_axes"), None)
    syms = {}
    if call is not None and g is not None:
        for p, a in zip(cb.params, call.args):
            if norm(a) == "group_chunks":
                syms[p] = g
    axis_param = next((p for p, a in zip(cb.params, call.args) if norm(a) == "axis"), "axis") if call is not None else "axis"
    ev2 = _Arity(cb, axis_names=(axis_param,), symbols=syms)
    ctor = next((c for c in walk_own(cb.node) if isinstance(c, ast.Call) and norm(c.func).endswith("Array") and kwarg(c, "chunks") is not None), None)
    if ctor is None:
        raise AnalysisError("_collapse_blocks_along_axes no longer builds a dask Array with chunks= (anchor)")
    ch = ev2.arity(kwarg(ctor, "chunks"))
    # keys that index `reduced`: (reduced.name, *X) stored as a task
    for st in walk_own(cb.node):
        if isinstance(st, ast.Assign) and isinstance(st.value, ast.Tuple) and st.value.elts and norm(st.value.elts[0]).endswith(".name") \
                and any(isinstance(x, ast.Starred) for x in st.value.elts):
            star = next(x for x in st.value.elts if isinstance(x, ast.Starred))
            obligation("_collapse_blocks_along_axes", cb, ev2.arity(star.value), {"n": 1}, f"block key into '{norm(st.value.elts[0])}' (*{norm(star.value)}) vs its dimensions", st, "key-in")
            t = st.targets[0]
            if isinstance(t, ast.Subscript) and isinstance(t.slice, ast.Tuple):
                ostar = next((x for x in t.slice.elts if isinstance(x, ast.Starred)), None)
                if ostar is not None:
                    obligation("_collapse_blocks_along_axes", cb, ev2.arity(ostar.value), ch, f"output key (*{norm(ostar.value)}) vs chunks= of the new array", st, "key-out")
    obligation("_collapse_blocks_along_axes", cb, ch, {"n": 1}, "chunks= of the reshaped array vs the dimensions of the result (the layer only moves blocks)", ctor, "chunks")
    # (3) chunk_reduce: sibling arms of the per-reduction loop build `result` with the same leading (new) dimensions.  The normal arm reshapes to
    # new_dims_shape + ...; the all-labels-missing arm allocates the all-fill result directly and must carry the same prefix, or a vector `q`
    # loses its axis exactly when no requested label is present.
    cr = prog.func("core.chunk_reduce")
    newdims = {a.targets[0].id for a in walk_own(cr.node) if isinstance(a, ast.Assign) and len(a.targets) == 1 and isinstance(a.targets[0], ast.Name)
               and any(isinstance(c, ast.Call) and "new_dims" in norm(c.func) for c in ast.walk(a.value))}
    if not newdims:
        res.notes.append("chunk_reduce no longer computes new dimensions per reduction: clause (3) not applicable")
        return res
    shapes = []
    for a in walk_own(cr.node):
        if isinstance(a, ast.Assign) and len(a.targets) == 1 and norm(a.targets[0]) == "result" and isinstance(a.value, ast.Call):
            c = a.value
            if norm(c.func) in ("np.full", "np.empty", "np.zeros", "np.ones") and (kwarg(c, "shape") is not None or c.args):
                shapes.append((a, kwarg(c, "shape") or c.args[0], "allocates"))
            elif isinstance(c.func, ast.Attribute) and c.func.attr == "reshape" and c.args:
                shapes.append((a, c.args[0], "reshapes to"))
    if len(shapes) < 2:
        raise AnalysisError("chunk_reduce: the allocation arm and the reshape arm of the reduction loop were not both found (anchor)")
    for a, sh, how in shapes:
        ok = bool(names_in(sh) & newdims)
        res.inst(f"chunk_reduce: '{norm(a)[:60]}' {how} a shape that starts with the new dimensions {sorted(newdims)}: {ok}", f"newdims|{how}")
        if not ok:
            res.report(f"core.chunk_reduce|arm-without-new-dims|{how.split()[0]}", cr.where(a), cr.qualname,
                       f"'{norm(a)[:70]}' builds the result of a reduction without the new leading dimensions ({sorted(newdims)[0]}) that the sibling arm prepends: "
                       "a vector quantile loses its q axis exactly when none of the requested labels is present (the eager result has one dimension less than "
                       "the chunked one and than the same call with a label present)")
    # (4) _squeeze_results: the intermediates of one blueprint differ in leading dimensions (the values of a vector quantile carry the new q
    # dimensions, the min_count counter does not), so the singleton reduced axes must be addressed relative to the END of each array
    # (through v.ndim / negative positions), never by one absolute position list applied to all of them.
    sq = prog.funcs.get("core._squeeze_results")
    fin = prog.func("core._finalize_results")
    shifted = any(isinstance(c, ast.Call) and norm(c.func) == "_squeeze_results" and "num_new_vector_dims" in norm(c) for c in ast.walk(fin.node))
    if sq is None:
        res.notes.append("_squeeze_results is gone: clause (4) not applicable")
        return res
    axp = sq.params[1] if len(sq.params) > 1 else "axis"
    for lp in walk_own(sq.node):
        if not (isinstance(lp, ast.For) and "intermediates" in norm(lp.iter) and isinstance(lp.target, ast.Name)):
            continue
        v = lp.target.id
        for x in ast.walk(lp):
            if isinstance(x, ast.Subscript) and norm(x.value) == f"{v}.shape":
                # where does the position come from?
                gens = [g for g in ast.walk(lp) if isinstance(g, (ast.GeneratorExp, ast.ListComp)) and any(y is x for y in ast.walk(g))]
                src = norm(gens[0].generators[0].iter) if gens else norm(x.slice)
                end_relative = f"{v}.ndim" in src or src.startswith("range(-") or (isinstance(x.slice, ast.UnaryOp) and isinstance(x.slice.op, ast.USub))
                absolute = axp in {n_.id for n_ in ast.walk(ast.parse(src, mode="eval")) if isinstance(n_, ast.Name)} and not end_relative
                res.inst(f"_squeeze_results: positions for '{norm(x)}' come from '{src[:50]}': relative to the end of each array: {end_relative}", f"squeeze|{norm(x)}")
                if absolute:
                    res.report("core._squeeze_results|absolute-axes-on-mixed-ndim", sq.where(x), sq.qualname,
                               f"'{norm(x)}' tests absolute positions taken from `{axp}` on every intermediate" + (" (shifted by agg.num_new_vector_dims in the caller)" if shifted else "")
                               + ": the values of a vector quantile have leading q dimensions, the min_count counter does not, so the counter keeps its singleton "
                               "axes and the fill mask is broadcast along the wrong axes (ValueError, or fills in the wrong q / batch position) when more than one axis is reduced")
    return res
