"""R-DTYPETABLE, R-FINALCAST (C11); R-SCANTABLE (C10); R-SENTINEL (C07, C08); R-COINDEX (C16);
R-BLOCKONLY (C18); R-COLLIDE, R-CASTORDER (C20); R-PLAN (C02)."""
from __future__ import annotations

import ast

from ..astutil import access_path, calls_in, kwarg, names_in, parents_map, ancestors
from ..cfg import CFG
from ..model import AnalysisError, norm, walk_own
from ..registry import NA, Sym
from ..report import RuleResult
from .. import tables as T
from .token import Closure


# ---------------------------------------------------------------------------------------------
def rule_dtypetable(ctx) -> RuleResult:
    res = RuleResult("R-DTYPETABLE", "blueprint dtype declarations match the NumPy convention table", min_instances=28)
    for key, rec in ctx.registry.agg_items():
        if rec.errors:
            continue
        row = T.DTYPE_TABLE.get(rec.name)
        have = (rec.args.get("final_dtype"), bool(rec.args.get("preserves_dtype")))
        if row is None:
            res.notes.append(f"UNDECIDED {rec.var}: no dtype convention recorded for {rec.name!r}")
            res.inst(f"{rec.var}: final_dtype={have[0]!r} preserves_dtype={have[1]} [no convention]")
            continue
        res.inst(f"{rec.var}: final_dtype={have[0]!r} preserves_dtype={have[1]} expected {row}", rec.var)
        if have != row:
            res.report(f"{rec.var}|dtype-decl", f"flox/aggregations.py:{rec.lineno}", f"blueprint {rec.var}",
                       f"{rec.name}: declares final_dtype={have[0]!r}, preserves_dtype={have[1]}; NumPy's convention is final_dtype={row[0]!r}, "
                       f"preserves_dtype={row[1]} (counts/arg -> intp, mean/var/std/median -> floating, quantile -> float64, any/all -> bool, "
                       "sum/prod -> default-integer promotion, min/max/first/last/mode -> input dtype)")
    return res


def _is_final_cast(n) -> bool:
    """finalized[...] = finalized[...].astype(agg.dtype['final'] ...)   (any receiver; the slot is what matters)"""
    a = n.ast
    if not isinstance(a, ast.Assign) or not isinstance(a.value, ast.Call):
        return False
    c = a.value
    return isinstance(c.func, ast.Attribute) and c.func.attr == "astype" and c.args and access_path(c.args[0]) == "agg.dtype['final']"


def rule_finalcast(ctx) -> RuleResult:
    res = RuleResult("R-FINALCAST", "one final cast to the announced dtype on every plan; engine choice cannot leak a dtype", min_instances=3)
    prog = ctx.prog
    # (1) every path through _finalize_results to return passes the cast to agg.dtype['final'] after the last write of the result
    f = prog.func("core._finalize_results")
    cfg = CFG(f)
    casts = [n for n in cfg.nodes if n.kind == "stmt" and _is_final_cast(n)]
    res.inst(f"_finalize_results: {len(casts)} cast(s) to agg.dtype['final']", "finalcast-1")
    paths = cfg.must_pass_before_exit(lambda n: n.kind == "stmt" and _is_final_cast(n))
    if paths:
        res.report("core._finalize_results|path-without-final-cast", f.where(), f.qualname,
                   "a path reaches 'return' without casting the result to agg.dtype['final']: the computed blocks keep the accumulator dtype "
                   "while the lazy array announces the final dtype (plan-dependent dtype)", path=cfg.describe_path(paths[0])[-8:])
    # and nothing rewrites finalized[agg.name] after the LAST cast: from every other write of the result, every path to return passes a cast
    # (an earlier, additional cast -- e.g. before the finalizer's reindex -- is harmless)
    for n in cfg.nodes:
        if n.kind == "stmt" and isinstance(n.ast, ast.Assign) and any(norm(t) == "finalized[agg.name]" for t in n.ast.targets) and not _is_final_cast(n):
            bad = [p_ for s_, lab in n.succ if lab != "exc" for p_ in cfg.must_pass_before_exit(lambda m: m.kind == "stmt" and _is_final_cast(m), start=s_)
                   if not (cfg.nodes[s_].kind == "stmt" and _is_final_cast(cfg.nodes[s_]))]
            if bad:
                res.report("core._finalize_results|write-after-final-cast", f.where(n.ast), f.qualname,
                           f"{norm(n.ast)[:70]} rewrites the result and a path from it reaches 'return' without another cast to agg.dtype['final']")
    # (2) chunk_reduce: the value returned by the engine dispatch is cast to the per-kernel dtype
    cr = prog.func("core.chunk_reduce")
    disp = [c for c in calls_in(cr.node) if norm(c.func) == "generic_aggregate"]
    if not disp:
        raise AnalysisError("chunk_reduce: engine dispatch call generic_aggregate(...) vanished")
    pm = parents_map(cr.node)
    for c in disp:
        par = pm.get(id(c))
        ok = False
        # generic_aggregate(...).astype(dt, copy=False)
        if isinstance(par, ast.Attribute) and par.attr == "astype":
            call = pm.get(id(par))
            if isinstance(call, ast.Call) and call.args and isinstance(call.args[0], ast.Name):
                # the dtype variable must be the loop's per-kernel dtype which is also handed to the kernel
                dt = call.args[0].id
                ok = any(k.arg is None and dt in norm(k.value) or (k.arg == "dtype" and norm(k.value) == dt) for k in c.keywords) or dt in _kwfunc_dtype(cr)
        res.inst(f"chunk_reduce: generic_aggregate(...) result cast to the per-kernel dtype: {ok}", "finalcast-2")
        if not ok:
            res.report("core.chunk_reduce|no-cast-after-dispatch", cr.where(c), cr.qualname,
                       "the result of the engine dispatch is not cast to the per-kernel dtype: engines that ignore dtype= (numbagg) leak theirs")
    # (3) announced meta reads the same slot
    dg = prog.func("core.dask_groupby_agg")
    metas = []
    for c in calls_in(dg.node):
        if norm(c.func).endswith("blockwise") and kwarg(c, "key") is not None:
            m = kwarg(c, "meta")
            metas.append((c, m))
    if not metas:
        raise AnalysisError("dask_groupby_agg: final blockwise(_extract_result, ..., key=...) vanished")
    for c, m in metas:
        txt = norm(m) if m is not None else "<none>"
        ok = "agg.dtype['final']" in txt
        res.inst(f"dask_groupby_agg: meta of the result layer = {txt[:80]}", "finalcast-3")
        if not ok:
            res.report("core.dask_groupby_agg|meta-dtype", dg.where(c), dg.qualname,
                       f"the announced meta {txt[:60]} is not built from agg.dtype['final'], the slot the computed blocks are cast to")
    return res


def _kwfunc_dtype(cr) -> set[str]:
    """names passed as dtype= through the kw_func dict in chunk_reduce"""
    out = set()
    for n in walk_own(cr.node):
        if isinstance(n, ast.Call) and norm(n.func) == "dict":
            for k in n.keywords:
                if k.arg == "dtype" and isinstance(k.value, ast.Name):
                    out.add(k.value.id)
    return out


# ---------------------------------------------------------------------------------------------
def rule_scantable(ctx) -> RuleResult:
    res = RuleResult("R-SCANTABLE", "scan blueprints are consistent; bfill = reverse o ffill o reverse", min_instances=3)
    reg = ctx.registry
    scans = dict(reg.scan_items())
    if len(scans) < 3:
        raise AnalysisError(f"only {len(scans)} scan blueprints evaluated")
    where = lambda s: f"flox/aggregations.py:{s.lineno}"
    for key, s in scans.items():
        a = s.args
        res.inst(f"{key}: {({k: a.get(k) for k in ('binary_op', 'scan', 'reduction', 'identity', 'mode', 'preprocess', 'finalize', 'preserves_dtype')})}", key)
        fn = f"scan blueprint {s.var}"
        if a.get("name") != key:
            res.report(f"{s.var}|name", where(s), fn, f"registered under {key!r} but named {a.get('name')!r}")
        mode = a.get("mode")
        if mode == "apply_binary_op":
            op = a.get("binary_op")
            uf = repr(op)[3:] if isinstance(op, Sym) and repr(op).startswith("np.") else None
            if uf not in T.IDENTITY_OF_UFUNC:
                res.report(f"{s.var}|binary_op", where(s), fn, f"apply_binary_op needs a ufunc binary_op, got {op!r}")
                continue
            if a.get("identity") != T.IDENTITY_OF_UFUNC[uf] or type(a.get("identity")) is not type(T.IDENTITY_OF_UFUNC[uf]):
                res.report(f"{s.var}|identity", where(s), fn, f"identity {a.get('identity')!r} is not the identity {T.IDENTITY_OF_UFUNC[uf]!r} of np.{uf}: "
                           "groups absent from earlier blocks would change the running value")
            want = {"add": ("nansum", "nancumsum"), "multiply": ("nanprod", "nancumprod")}.get(uf)
            if want and (a.get("reduction"), a.get("scan")) != want:
                res.report(f"{s.var}|pairing", where(s), fn, f"(reduction, scan) = ({a.get('reduction')!r}, {a.get('scan')!r}); for np.{uf} the "
                           f"carried state must be {want[0]!r} of the block and the in-block scan {want[1]!r}")
        elif mode == "concat_then_scan":
            if a.get("binary_op") is not None:
                res.report(f"{s.var}|binary_op", where(s), fn, "concat_then_scan blueprints must have binary_op=None")
            if a.get("identity") != NA:
                res.report(f"{s.var}|identity", where(s), fn, f"identity must be the missing value (NA), got {a.get('identity')!r}: a filled identity would "
                           "be forward-filled into later blocks")
            if a.get("scan") == "ffill" and a.get("reduction") != "nanlast":
                res.report(f"{s.var}|pairing", where(s), fn, f"ffill carries the last valid value per group: reduction must be 'nanlast', got {a.get('reduction')!r}")
            if not a.get("preserves_dtype"):
                res.report(f"{s.var}|preserves", where(s), fn, "fills preserve the input dtype")
        else:
            res.report(f"{s.var}|mode", where(s), fn, f"unknown mode {mode!r}")
    # mirror image
    if "ffill" in scans and "bfill" in scans:
        fa, ba = scans["ffill"].args, scans["bfill"].args
        rev = Sym("func:aggregations.reverse")
        if ba.get("preprocess") != rev or ba.get("finalize") != rev:
            res.report("bfill|mirror-wrap", where(scans["bfill"]), "scan blueprint bfill",
                       f"bfill must reverse before and after (preprocess={ba.get('preprocess')!r}, finalize={ba.get('finalize')!r})")
        if fa.get("preprocess") is not None or fa.get("finalize") is not None:
            res.report("ffill|wrap", where(scans["ffill"]), "scan blueprint ffill", "ffill must not be wrapped")
        for k in ("binary_op", "scan", "reduction", "identity", "mode", "preserves_dtype", "dtype"):
            if fa.get(k) != ba.get(k):
                res.report(f"bfill|mirror|{k}", where(scans["bfill"]), "scan blueprint bfill",
                           f"bfill.{k}={ba.get(k)!r} differs from ffill.{k}={fa.get(k)!r}: bfill is no longer the mirror image of ffill")
        # reverse itself flips both members along the last axis
        rv = ctx.prog.func("aggregations.reverse")
        flips = {access_path(t): norm(n.value) for n in walk_own(rv.node) if isinstance(n, ast.Assign) for t in n.targets}
        okr = flips.get("a.group_idx") == "a.group_idx[..., ::-1]" and flips.get("a.array") == "a.array[..., ::-1]"
        res.inst(f"reverse flips labels and values together along the last axis: {okr}", "reverse")
        if not okr:
            res.report("aggregations.reverse|flip", rv.where(), rv.qualname, f"reverse must flip both a.group_idx and a.array along the last axis; found {flips}")
    return res


# ---------------------------------------------------------------------------------------------
def _sentinel_check(ctx, res, qualname: str, input_names_fn, what: str):
    """every path to return passes a masked store of -1 into the returned array whose mask tests the *input* codes == -1"""
    f = ctx.prog.func(qualname)
    cfg = CFG(f)
    rets = [n for n in cfg.nodes if n.kind == "return" and n.ast.value is not None]
    if not rets:
        raise AnalysisError(f"{qualname}: no return")
    returned = set()
    for r in rets:
        v = r.ast.value
        if isinstance(v, ast.Tuple):
            v = v.elts[0]
        returned |= names_in(v)
    inputs = input_names_fn(f)
    cl = Closure(ctx, f)

    def _is_minus_one(v) -> bool:
        return (isinstance(v, ast.UnaryOp) and isinstance(v.op, ast.USub) and isinstance(v.operand, ast.Constant) and v.operand.value == 1) \
            or (isinstance(v, ast.Constant) and v.value == -1)

    def _where_restore(e):
        """np.where(mask, -1, X) possibly under a chain of view/astype method calls -> mask expr"""
        while isinstance(e, ast.Call) and isinstance(e.func, ast.Attribute) and e.func.attr in ("astype", "reshape", "view", "squeeze"):
            e = e.func.value
        if isinstance(e, ast.Call) and norm(e.func) in ("np.where", "numpy.where") and len(e.args) == 3 and _is_minus_one(e.args[1]):
            return e.args[0]
        return None

    def is_restore(n) -> bool:
        a = n.ast
        mask_expr = None
        if n.kind == "stmt" and isinstance(a, ast.Assign) and len(a.targets) == 1 and isinstance(a.targets[0], ast.Subscript):
            tgt = a.targets[0]
            if isinstance(tgt.value, ast.Name) and tgt.value.id in returned and _is_minus_one(a.value):
                mask_expr = tgt.slice
        elif n.kind == "stmt" and isinstance(a, ast.Assign) and len(a.targets) == 1 and isinstance(a.targets[0], ast.Name) \
                and a.targets[0].id in returned:
            mask_expr = _where_restore(a.value)
        elif n.kind == "return" and a.value is not None:
            v = a.value.elts[0] if isinstance(a.value, ast.Tuple) else a.value
            mask_expr = _where_restore(v)
        if mask_expr is None:
            return False
        # the mask: an '== -1' comparison whose left side derives from the input codes and not from the output
        exprs = [mask_expr]
        for nm in names_in(mask_expr):
            for kind, node in cl.scope.bind.get(nm, []):
                if kind == "assign":
                    exprs.append(node)
        for e in exprs:
            for c in ast.walk(e):
                if isinstance(c, ast.Compare) and len(c.ops) == 1 and isinstance(c.ops[0], ast.Eq) and norm(c.comparators[0]) == "-1":
                    left = names_in(c.left)
                    # comprehension variable iterating over the inputs
                    src = set(left)
                    for g in ast.walk(e):
                        if isinstance(g, ast.comprehension) and names_in(g.target) & left:
                            src |= names_in(g.iter)
                    if src & inputs and not (left & (returned - inputs)):
                        return True
        return False

    restores = [n for n in cfg.nodes if is_restore(n)]
    res.inst(f"{qualname}: {what}: {len(restores)} restore(s) of -1 masked on the input codes: {[norm(n.ast)[:50] for n in restores]}", qualname)
    paths = cfg.must_pass_before_exit(is_restore)
    if paths:
        res.report(f"{qualname}|sentinel-lost", f.where(), qualname,
                   f"{what}: a path reaches 'return' without restoring the missing-label code -1 under a mask computed from the *input* codes: "
                   "elements with a missing / unrequested label are aggregated into a real group", path=cfg.describe_path(paths[0])[-6:])


def rule_sentinel_ravel(ctx) -> RuleResult:
    res = RuleResult("R-SENTINEL", "the missing-label code survives multi-grouper code arithmetic (np.ravel_multi_index)", min_instances=1)
    _sentinel_check(ctx, res, "core._ravel_factorized", lambda f: {f.vararg} if f.vararg else set(f.params), "ravel of per-grouper codes")
    return res


def rule_sentinel_offset(ctx) -> RuleResult:
    res = RuleResult("R-SENTINEL", "the missing-label code survives per-slice offsetting of codes", min_instances=1)
    _sentinel_check(ctx, res, "core.offset_labels", lambda f: {f.params[0]}, "per-slice offsetting labels + arange * ngroups")
    return res


# ---------------------------------------------------------------------------------------------
def _last_index(sub: ast.Subscript) -> ast.AST:
    sl = sub.slice
    return sl.elts[-1] if isinstance(sl, ast.Tuple) else sl


def rule_coindex(ctx) -> RuleResult:
    res = RuleResult("R-COINDEX", "labels and values are only ever re-indexed together with the same index", min_instances=2)
    f = ctx.prog.func("core.groupby_reduce")
    pm = parents_map(f.node)
    # the value variable: first element of the returned tuple
    rets = [n for n in walk_own(f.node) if isinstance(n, ast.Return) and isinstance(n.value, ast.Tuple) and n.value.elts
            and isinstance(n.value.elts[0], ast.Name)]
    if not rets:
        raise AnalysisError("groupby_reduce: 'return (result, *groups)' not found")
    V = rets[-1].value.elts[0].id
    sites = [n for n in walk_own(f.node) if isinstance(n, ast.Assign) and len(n.targets) == 1 and isinstance(n.targets[0], ast.Name)
             and n.targets[0].id == V and isinstance(n.value, ast.Subscript) and norm(n.value.value) == V
             and not isinstance(_last_index(n.value), (ast.Constant, ast.Slice)) or
             (isinstance(n, ast.Assign) and len(n.targets) == 1 and isinstance(n.targets[0], ast.Name) and n.targets[0].id == V
              and isinstance(n.value, ast.Subscript) and norm(n.value.value) == V and isinstance(_last_index(n.value), ast.Slice)
              and norm(_last_index(n.value)) != ":")]
    if len(sites) < 2:
        raise AnalysisError(f"groupby_reduce: {len(sites)} re-indexings of the result along the group axis found (hand-confirmed: 2)")
    for n in sites:
        last = _last_index(n.value)
        block = pm.get(id(n))
        body = getattr(block, "body", [])
        partners = []
        others = []
        for st in body:
            if st is n or not isinstance(st, ast.Assign):
                continue
            for sub in ast.walk(st.value):
                if isinstance(sub, ast.Subscript) and not isinstance(sub.slice, ast.Constant) and norm(sub.value) != V \
                        and V not in names_in(sub.value):
                    (partners if norm(_last_index(sub)) == norm(last) else others).append((st, sub))
        ok = bool(partners)
        res.inst(f"groupby_reduce: {V}[..., {norm(last)}] paired with "
                 f"{[norm(p[1])[:30] for p in partners] or [norm(o[1])[:30] for o in others] or '<nothing>'}: {ok}", norm(last))
        if not ok:
            how = f"re-indexed differently ({norm(others[0][1])[:40]})" if others else "not re-indexed in the same block"
            res.report(f"core.groupby_reduce|coindex|{norm(last)[:30]}", f.where(n), f.qualname,
                       f"the values are re-indexed with {norm(last)} but the labels are {how}: values and labels are no longer paired")
        for st, sub in others:
            # another array re-indexed in the same block with a different index
            if isinstance(st.targets[0], ast.Name) and norm(st.targets[0]) in names_in(sub.value) | {norm(sub.value)}:
                res.report(f"core.groupby_reduce|coindex-other|{norm(_last_index(sub))[:30]}", f.where(st), f.qualname,
                           f"{norm(st)[:60]}: re-indexed with {norm(_last_index(sub))} while the values use {norm(last)}")
    return res


# ---------------------------------------------------------------------------------------------
def rule_blockonly(ctx) -> RuleResult:
    res = RuleResult("R-BLOCKONLY", "order statistics declare no decomposition, are refused before graph construction unless blockwise, "
                     "and the new-dimension special cases agree", min_instances=10)
    reg, prog = ctx.registry, ctx.prog
    for name in T.BLOCK_ONLY:
        if name not in reg.keys:
            raise AnalysisError(f"blueprint {name!r} vanished from the registry")
        rec = reg.by_key(name)
        ok = rec.chunk == (None,) and rec.combine == (None,)
        res.inst(f"{name}: chunk={rec.chunk} combine={rec.combine}", name)
        if not ok:
            res.report(f"{rec.var}|decomposed", f"flox/aggregations.py:{rec.lineno}", f"blueprint {rec.var}",
                       f"{name} declares a block/combine decomposition (chunk={rec.chunk}, combine={rec.combine}): order statistics of parts cannot be "
                       "merged exactly; they must be computed where each group lies within one block")
    # (2) a refusal testing chunk-None-ness dominates graph construction with method != blockwise
    gr = prog.func("core.groupby_reduce")
    cfg = CFG(gr)
    dom = cfg.dominators()
    call_nodes = [n for n in cfg.nodes if n.ast is not None and n.kind == "stmt" and any(
        isinstance(c, ast.Call) and norm(c.func) in ("partial_agg", "dask_groupby_agg") for c in ast.walk(n.ast))
        and any("chunks_cohorts" in norm(c) for c in ast.walk(n.ast) if isinstance(c, ast.Call))]
    if not call_nodes:
        raise AnalysisError("groupby_reduce: the call that builds the dask graph was not found")

    def is_refusal_test(n) -> bool:
        if n.kind != "test":
            return False
        t = norm(n.ast)
        return ("agg.chunk[0] is None" in t or "agg.chunk == (None,)" in t or "None in agg.chunk" in t)

    for cn in call_nodes:
        guards = [cfg.nodes[d] for d in dom.get(cn.id, ()) if is_refusal_test(cfg.nodes[d])]
        ok = False
        for g in guards:
            # the true branch (possibly through 'and method != "blockwise"') must end in a raise
            for s, lab in g.succ:
                if lab == "T":
                    nxt = cfg.nodes[s]
                    hops = 0
                    while nxt.kind == "test" and hops < 3:
                        if "method" not in norm(nxt.ast):
                            break
                        tn = [x for x, l in nxt.succ if l == "T"]
                        nxt = cfg.nodes[tn[0]] if tn else nxt
                        hops += 1
                    if isinstance(nxt.ast, ast.Raise):
                        ok = True
        res.inst(f"groupby_reduce: graph construction dominated by a refusal of undecomposable blueprints: {ok}", "refusal")
        if not ok:
            res.report("core.groupby_reduce|no-blockonly-refusal", gr.where(cn.ast), gr.qualname,
                       "no refusal (raise under a test of agg.chunk being None and method != 'blockwise') dominates the graph construction: "
                       "median/quantile/mode/first/last would enter a combine that does not exist for them")
    cm = prog.func("core._choose_method")
    t = norm(cm.node)
    okcm = "agg.chunk == (None,)" in t and "preferred_method != 'blockwise'" in t and "raise ValueError" in t
    res.inst(f"_choose_method: automatic choice refuses undecomposable blueprints unless blockwise is possible: {okcm}", "choose")
    if not okcm:
        res.report("core._choose_method|auto-blockonly", cm.where(), cm.qualname,
                   "the automatic method choice no longer refuses blueprints without decomposition when the chunking is not blockwise-compatible")
    # (3) three sites agree on which blueprints add a leading axis
    with_newdims = {k for k, r in reg.agg_items() if r.args.get("new_dims_func") is not None}
    cr = prog.func("core.chunk_reduce")
    site1 = set()
    for n in walk_own(cr.node):
        if isinstance(n, ast.Compare) and norm(n.left) == "reduction" and isinstance(n.ops[0], ast.In):
            site1 |= {e.value for e in n.comparators[0].elts if isinstance(e, ast.Constant)}
    xr = prog.func("xarray.xarray_reduce")
    site2 = None
    for n in ast.walk(xr.node):
        if isinstance(n, ast.Compare) and norm(n.left) == "func" and isinstance(n.ops[0], ast.In) and isinstance(n.comparators[0], (ast.List, ast.Tuple)):
            vals = {e.value for e in n.comparators[0].elts if isinstance(e, ast.Constant)}
            if any("quantile" in v for v in vals if isinstance(v, str)):
                site2 = vals if site2 is None else site2 & vals
    res.inst(f"blueprints with new_dims_func={sorted(with_newdims)}; chunk_reduce special-cases {sorted(site1)}; xarray_reduce special-cases {sorted(site2 or [])}", "newdims")
    if site1 != with_newdims or (site2 is not None and site2 != with_newdims):
        res.report("newdims|disagree", cr.where(), "core.chunk_reduce / xarray.xarray_reduce / registry",
                   f"the sites that handle the extra leading axis disagree: registry {sorted(with_newdims)}, chunk_reduce {sorted(site1)}, "
                   f"xarray_reduce {sorted(site2 or [])}")
    return res


# ---------------------------------------------------------------------------------------------
def rule_collide(ctx) -> RuleResult:
    res = RuleResult("R-COLLIDE", "an all-NaN detector may not compare against a value that is also a legal datum", min_instances=1)
    prog = ctx.prog
    n_inst = 0
    for q in sorted(prog.funcs):
        if not q.startswith(("aggregate_flox.", "aggregate_npg.", "aggregate_numbagg.")):
            continue
        f = prog.funcs[q]
        # substitute variable: np.where(isnull(x), V, x)   (the mask may be bound to a local first)
        subs = set()
        local_vals = {}
        for n in walk_own(f.node):
            if isinstance(n, ast.Assign) and len(n.targets) == 1 and isinstance(n.targets[0], ast.Name):
                local_vals.setdefault(n.targets[0].id, []).append(n.value)

        def is_null_test(e, depth=0) -> bool:
            if isinstance(e, ast.Call) and norm(e.func) in ("isnull", "np.isnan", "numpy.isnan", "pd.isnull"):
                return True
            if isinstance(e, ast.Name) and depth < 3:
                return any(is_null_test(v, depth + 1) for v in local_vals.get(e.id, []))
            return False

        for c in calls_in(f.node):
            if norm(c.func) in ("np.where", "numpy.where") and len(c.args) == 3 and is_null_test(c.args[0]) and isinstance(c.args[1], ast.Name):
                subs.add(c.args[1].id)
        if not subs:
            continue
        for n in walk_own(f.node):
            if isinstance(n, ast.Compare) and len(n.ops) == 1 and isinstance(n.ops[0], ast.Eq) and \
                    (isinstance(n.comparators[0], ast.Name) and n.comparators[0].id in subs):
                # result == substitute: who consumes it?
                n_inst += 1
                pm = parents_map(f.node)
                st = next((a for a in ancestors(n, pm) if isinstance(a, ast.stmt)), None)
                tgt = st.targets[0].id if isinstance(st, ast.Assign) and isinstance(st.targets[0], ast.Name) else None
                guarded = False
                if tgt:
                    # accepted repair: the detector is conjoined with a count-of-valid-members test before it is used as a mask
                    def counts_valid(e) -> bool:
                        """<count> == 0 where <count> is derived from nanlen / notnull of the data (number of valid members)"""
                        for cmp_ in ast.walk(e):
                            if isinstance(cmp_, ast.Compare) and len(cmp_.ops) == 1 and isinstance(cmp_.ops[0], ast.Eq) \
                                    and norm(cmp_.comparators[0]) == "0":
                                srcs = [cmp_.left] + [v for nm in names_in(cmp_.left) for v in local_vals.get(nm, [])]
                                if any("nanlen" in norm(x) or "notnull" in norm(x) for x in srcs):
                                    return True
                        return False

                    for m in walk_own(f.node):
                        if isinstance(m, ast.AugAssign) and isinstance(m.op, ast.BitAnd) and norm(m.target) == tgt and counts_valid(m.value):
                            guarded = True
                        if isinstance(m, ast.Assign) and norm(m.targets[0]) == tgt and isinstance(m.value, ast.BinOp) and isinstance(m.value.op, ast.BitAnd) \
                                and tgt in norm(m.value) and counts_valid(m.value):
                            guarded = True
                    # and the count must be of valid members of the *original* array
                res.inst(f"{q}: {norm(n)} (substitute {sorted(subs)}) conjoined with a valid-member count: {guarded}", f"{q}|{norm(n)}")
                if not guarded:
                    res.report(f"{q}|collide|{norm(n)[:40]}", f.where(n), q,
                               f"{norm(n)}: the value substituted for NaN (+-inf for floats) is also a legal datum, so a group whose true extreme is "
                               "+-inf is indistinguishable from an all-NaN group; conjoin the test with 'number of valid members == 0'")
    if n_inst == 0:
        res.inst("no substitute-comparison detector left in the engine modules (accepted repaired form)")
    # the same mistake one stage later: detecting "this group occurred in no block" by comparing a finalized or combined value with the
    # identity the blocks were padded with (agg.fill_value["intermediate"], +-inf).  The identity is a legal result (max of a group of -inf).
    from .codes import _local_closure
    for q in sorted(prog.funcs):
        if not q.startswith("core.") or prog.funcs[q].is_overload or isinstance(prog.funcs[q].node, ast.Lambda):
            continue
        f = prog.funcs[q]
        pm = None
        for n in walk_own(f.node):
            if not (isinstance(n, ast.Compare) and len(n.ops) == 1 and isinstance(n.ops[0], (ast.Eq, ast.NotEq))):
                continue
            sides = [n.left, n.comparators[0]]
            ident = None
            for sd in sides:
                clo = _local_closure(f, sd, limit=3)
                txt = " ".join(norm(e) for e in clo)
                if "fill_value['intermediate']" in txt or ".identity" in txt or "np.inf" in txt or "dtypes.INF" in txt or "dtypes.NINF" in txt:
                    ident = norm(sd)
            if ident is None:
                continue
            pm = pm or parents_map(f.node)
            # used as a mask?  np.where(cond, ...) / X[cond] = ... / cond bound to a name used so
            used_as_mask = False
            for a in ancestors(n, pm):
                if isinstance(a, ast.Call) and norm(a.func) in ("np.where", "numpy.where") and a.args and any(x is n for x in ast.walk(a.args[0])):
                    used_as_mask = True
                if isinstance(a, ast.Subscript) and any(x is n for x in ast.walk(a.slice)):
                    used_as_mask = True
                if isinstance(a, (ast.If, ast.IfExp, ast.Assert, ast.While)):
                    break
            if not used_as_mask:
                continue
            n_inst += 1
            counted = any(w in norm(a) for a in ancestors(n, pm) if isinstance(a, (ast.BinOp, ast.BoolOp, ast.Call)) for w in ("count", "nanlen", "min_count"))
            res.inst(f"{q}: mask '{norm(n)[:50]}' compares a value with the padding identity ({ident[:30]}); conjoined with a count: {counted}", f"{q}|{norm(n)[:40]}")
            if not counted:
                res.report(f"{q}|identity-as-absence|{norm(n)[:40]}", f.where(n), q,
                           f"'{norm(n)[:60]}' is used as a mask for 'this group occurred in no block', but the padding identity ({ident[:40]}) is also the "
                           "legal result of a group whose members are all -inf (max) / +inf (min): such a group is overwritten with the fill value; "
                           "absence is what the counts are for")
    return res


def rule_castorder(ctx) -> RuleResult:
    res = RuleResult("R-CASTORDER", "engine wrappers accumulate in the requested dtype and narrow only after accumulating", min_instances=4)
    prog = ctx.prog
    f = prog.func("aggregate_flox._np_grouped_op")
    ops = [c for c in calls_in(f.node) if norm(c.func) == "op"]
    if len(ops) < 2:
        raise AnalysisError("_np_grouped_op: the two op(...) reduceat calls were not found")
    for c in ops:
        ok = kwarg(c, "dtype") is not None and norm(kwarg(c, "dtype")) == "dtype"
        res.inst(f"_np_grouped_op: {norm(c)[:70]} passes dtype=dtype: {ok}", norm(c)[:40])
        if not ok:
            res.report(f"aggregate_flox._np_grouped_op|no-dtype|{norm(c)[:30]}", f.where(c), f.qualname,
                       f"{norm(c)[:60]}: ufunc.reduceat is called without dtype=dtype, so integer sums accumulate at the input width and wrap")
    fulls = [c for c in calls_in(f.node) if norm(c.func) in ("np.full", "np.empty", "np.zeros")]
    for c in fulls:
        ok = kwarg(c, "dtype") is not None and norm(kwarg(c, "dtype")) == "dtype"
        res.inst(f"_np_grouped_op: out allocated with dtype=dtype: {ok}", norm(c)[:40])
        if not ok:
            res.report(f"aggregate_flox._np_grouped_op|out-dtype|{norm(c)[:30]}", f.where(c), f.qualname, f"{norm(c)[:60]}: out buffer not allocated in the requested dtype")
    # dtype default must not narrow: 'if dtype is None: dtype = array.dtype'
    # numbagg: CAST_TO only widens; dtype applied to the result only
    nb = prog.unit("aggregate_numbagg")
    ct = nb.bindings.get("CAST_TO")
    if not ct or not isinstance(ct[-1], ast.Dict):
        raise AnalysisError("aggregate_numbagg.CAST_TO dict literal not found")
    WIDTH = {"np.bool_": (0, 1), "np.int8": (1, 1), "np.int16": (1, 2), "np.int32": (1, 4), "np.int64": (1, 8), "np.int_": (1, 8), "np.intp": (1, 8),
             "np.float32": (2, 4), "np.float64": (2, 8), "np.datetime64": (1, 8), "np.timedelta64": (1, 8),
             # abstract scalar types (np.issubdtype keys): judged by their widest member
             "np.integer": (1, 8), "np.signedinteger": (1, 8), "np.unsignedinteger": (1, 8), "np.floating": (2, 8), "np.uint8": (1, 1), "np.uint16": (1, 2),
             "np.uint32": (1, 4), "np.uint64": (1, 8)}
    for k, v in zip(ct[-1].keys, ct[-1].values):
        if not isinstance(v, ast.Dict):
            continue
        for fr, to in zip(v.keys, v.values):
            a, b = WIDTH.get(norm(fr)), WIDTH.get(norm(to))
            ok = a is not None and b is not None and b[0] >= a[0] and b[1] >= a[1]
            res.inst(f"CAST_TO[{norm(k)}]: {norm(fr)} -> {norm(to)} widens: {ok}", f"cast|{norm(k)}|{norm(fr)}")
            if not ok:
                res.report(f"aggregate_numbagg.CAST_TO|narrow|{norm(k)}|{norm(fr)}", f"flox/aggregate_numbagg.py:{fr.lineno}", "aggregate_numbagg.CAST_TO",
                           f"input cast {norm(fr)} -> {norm(to)} before accumulating does not widen")
    w = prog.func("aggregate_numbagg._numbagg_wrapper")
    # the target dtype taken from the table is used as it is: re-binding the loop variable (e.g. float32 "because it holds every int16") narrows
    # the accumulator of the kernel, which sums -- and squares -- in the dtype of its input
    for lp in walk_own(w.node):
        if isinstance(lp, ast.For) and isinstance(lp.iter, ast.Call) and norm(lp.iter.func).endswith(".items") and isinstance(lp.target, ast.Tuple):
            tv = {e.id for e in lp.target.elts if isinstance(e, ast.Name)}
            rebinds = [a for a in ast.walk(lp) if isinstance(a, ast.Assign) and any(isinstance(t, ast.Name) and t.id in tv for t in a.targets)]
            res.inst(f"_numbagg_wrapper: cast targets of the table loop re-bound inside the loop: {len(rebinds)}", "numbagg-loop")
            for a in rebinds:
                res.report(f"aggregate_numbagg._numbagg_wrapper|cast-target-overridden|{norm(a.targets[0])}", w.where(a), w.qualname,
                           f"'{norm(a)[:60]}' replaces the widening target taken from CAST_TO inside the loop: numbagg accumulates sums and sums of squares in the dtype of "
                           "its input, so a narrower float (float32 for 16-bit integers) loses the low digits of nanmean / nanvar / nanstd although every input value is exact")
    casts = [c for c in calls_in(w.node) if isinstance(c.func, ast.Attribute) and c.func.attr == "astype"]
    for c in casts:
        recv = c.func.value
        on_input = isinstance(recv, ast.Name) and recv.id == "array"
        arg = norm(c.args[0]) if c.args else "?"
        if on_input:
            # accepted: the CAST_TO table (checked above to widen), or a promotion with the input's own dtype (np.result_type never narrows)
            a0 = c.args[0] if c.args else None
            promotes = isinstance(a0, ast.Call) and norm(a0.func) in ("np.result_type", "np.promote_types") and any(norm(x) == "array.dtype" for x in a0.args)
            ok = arg in ("to_",) or promotes
            res.inst(f"_numbagg_wrapper: input cast array.astype({arg}) comes from the CAST_TO table or promotes the input's own dtype: {ok}", f"numbagg-in|{arg[:30]}")
            if not ok:
                res.report("aggregate_numbagg._numbagg_wrapper|input-cast", w.where(c), w.qualname,
                           f"array.astype({arg}) before accumulating: the input may only be cast through the widening CAST_TO table, "
                           "the requested dtype applies to the result")
        else:
            res.inst(f"_numbagg_wrapper: result cast .astype({arg})", "numbagg-out")
    # chunk_reduce casts after the dispatch: decided by R-FINALCAST(2)
    return res


# ---------------------------------------------------------------------------------------------
def rule_plan(ctx) -> RuleResult:
    res = RuleResult("R-PLAN", "the plans are siblings: every plan ends in the one finalizer; both combine algorithms read the same operator family; "
                     "the cohort re-indexing is tied to the combine kind", min_instances=6)
    prog, cg = ctx.prog, ctx.callgraph
    # (1) terminal stages reach _finalize_results on every path to return
    for q in ("core._aggregate", "core._reduce_blockwise"):
        f = prog.func(q)
        cfg = CFG(f)

        def calls_finalizer(n) -> bool:
            return n.ast is not None and n.kind in ("stmt", "return") and any(
                isinstance(c, ast.Call) and norm(c.func) == "_finalize_results" for c in ast.walk(n.ast))
        paths = cfg.must_pass_before_exit(calls_finalizer)
        res.inst(f"{q}: every path to return passes _finalize_results: {not paths}", q)
        if paths:
            res.report(f"{q}|skips-finalizer", f.where(), q, "a path returns without _finalize_results: this plan would skip finalize/mask/reindex/cast",
                       path=cfg.describe_path(paths[0])[-6:])
    # terminal embeddings
    dg = prog.func("core.dask_groupby_agg")
    term = []
    for (ef, desc, e, ts) in cg.embedded:
        if ef.qualname != dg.qualname:
            continue
        leaves = {t.name for t in cg._expand(ts) if t.kind == "func"}
        if "aggregate=" in desc:
            term.append((desc, leaves))
            res.inst(f"dask_groupby_agg: {desc} embeds {sorted(leaves)}", f"agg|{desc}")
            if "core._aggregate" not in leaves:
                res.report(f"core.dask_groupby_agg|terminal|{desc}", dg.where(e), dg.qualname, f"{desc} embeds {sorted(leaves)}, not _aggregate")
        if "combine=" in desc:
            res.inst(f"dask_groupby_agg: {desc} embeds {sorted(leaves)}", f"comb|{desc}")
            bad = leaves - {"core._simple_combine", "core._grouped_combine"}
            if bad or not leaves:
                res.report(f"core.dask_groupby_agg|combine|{desc}", dg.where(e), dg.qualname, f"{desc} embeds {sorted(leaves)}: only _simple_combine/_grouped_combine are siblings")
    if len(term) < 2:
        raise AnalysisError(f"dask_groupby_agg: only {len(term)} aggregate= embeddings found (hand-confirmed: 2)")
    # (2) operator families
    sc, gc = prog.func("core._simple_combine"), prog.func("core._grouped_combine")
    r1 = any(isinstance(n, ast.Attribute) and access_path(n) == "agg.simple_combine" for n in walk_own(sc.node))
    r2 = any(isinstance(n, ast.Attribute) and access_path(n) == "agg.combine" for n in walk_own(gc.node))
    res.inst(f"_simple_combine reads agg.simple_combine: {r1}; _grouped_combine reads agg.combine: {r2}", "families")
    if not r1:
        res.report("core._simple_combine|operator-source", sc.where(), sc.qualname, "_simple_combine no longer takes its operators from agg.simple_combine")
    if not r2:
        res.report("core._grouped_combine|operator-source", gc.where(), gc.qualname, "_grouped_combine no longer takes its operators from agg.combine")
    # intermediate fills handed to the re-indexing are the blueprint's intermediate fills
    ri = prog.func("core.reindex_intermediates")
    okri = any(access_path(n) == "agg.fill_value['intermediate']" for n in ast.walk(ri.node) if isinstance(n, ast.Subscript))
    res.inst(f"reindex_intermediates fills absent groups with agg.fill_value['intermediate']: {okri}", "ri-fill")
    if not okri:
        res.report("core.reindex_intermediates|fill-source", ri.where(), ri.qualname,
                   "intermediates are no longer re-indexed with agg.fill_value['intermediate'] (the identities of the combine operators)")
    # (3) cohorts: reindexer is reindex_intermediates under the same boolean that becomes ReindexStrategy.blockwise
    reindexer_cond = blockwise_cond = None
    for n in walk_own(dg.node):
        if isinstance(n, ast.Assign) and len(n.targets) == 1 and isinstance(n.value, ast.IfExp) and "reindex_intermediates" in norm(n.value):
            if "reindex_intermediates" in norm(n.value.body):
                reindexer_cond = norm(n.value.test)
            elif "reindex_intermediates" in norm(n.value.orelse):
                reindexer_cond = f"not ({norm(n.value.test)})"
        if isinstance(n, ast.Assign) and len(n.targets) == 1 and isinstance(n.value, ast.Call) and norm(n.value.func) == "ReindexStrategy" \
                and any(isinstance(a, (ast.For,)) for a in ancestors(n, parents_map(dg.node))):
            b = kwarg(n.value, "blockwise")
            blockwise_cond = norm(b) if b is not None else None
    res.inst(f"cohorts: reindexer is reindex_intermediates iff {reindexer_cond}; new ReindexStrategy.blockwise = {blockwise_cond}", "cohort-reindex")
    if reindexer_cond is None or blockwise_cond is None:
        raise AnalysisError("dask_groupby_agg: cohort reindexer / new_reindex construction not found (anchor)")
    if reindexer_cond != blockwise_cond:
        res.report("core.dask_groupby_agg|cohort-reindex-mismatch", dg.where(), dg.qualname,
                   f"cohort blocks are re-indexed iff {reindexer_cond} but the combine is told reindex.blockwise={blockwise_cond}: "
                   "_simple_combine would either re-index twice or combine arrays of different group sets")
    # _simple_combine re-indexes itself when reindex.blockwise is false-y
    t = norm(sc.node)
    oks = "if not reindex.blockwise" in t and "reindex_intermediates" in t
    res.inst(f"_simple_combine re-indexes when reindex.blockwise is false-y: {oks}", "sc-reindex")
    if not oks:
        res.report("core._simple_combine|no-self-reindex", sc.where(), sc.qualname, "_simple_combine no longer re-indexes intermediates when they were not re-indexed at the block stage")
    # ... and *every* block passes through the re-indexer: the blocks are concatenated position by position afterwards, so a block that
    # is handed on as it is (because it "already has all the groups") keeps its own group order
    def _is_reindexer(e, depth=0) -> bool:
        if isinstance(e, ast.Call) and norm(e.func) in ("partial", "functools.partial") and e.args and norm(e.args[0]) == "reindex_intermediates":
            return True
        if isinstance(e, ast.Name) and depth < 3:
            vals = [a.value for a in walk_own(sc.node) if isinstance(a, ast.Assign) and len(a.targets) == 1
                    and isinstance(a.targets[0], ast.Name) and a.targets[0].id == e.id]
            return bool(vals) and all(_is_reindexer(v, depth + 1) for v in vals)
        return False

    def _bypasses(fn_expr) -> list[str]:
        """alternatives of a lambda / local def that return their argument without calling the re-indexer"""
        body, params = None, []
        if isinstance(fn_expr, ast.Lambda):
            body, params = [fn_expr.body], [a.arg for a in fn_expr.args.args]
        elif isinstance(fn_expr, ast.Name):
            g = ctx.prog.funcs.get(f"{sc.qualname}.{fn_expr.id}")
            if g is not None:
                body = [r.value for r in walk_own(g.node) if isinstance(r, ast.Return) and r.value is not None]
                params = g.params
        if body is None:
            return ["<unrecognised callable>"]
        out = []

        def leaves(e):
            if isinstance(e, ast.IfExp):
                leaves(e.body)
                leaves(e.orelse)
            elif not (isinstance(e, ast.Call) and (_is_reindexer(e.func) or norm(e.func) == "reindex_intermediates")
                      and any(isinstance(a, ast.Name) and a.id in params for a in e.args)):
                out.append(norm(e)[:40])
        for b in body:
            leaves(b)
        return out

    n_maps = 0
    for c in calls_in(sc.node):
        if norm(c.func) in ("deepmap", "dask.utils.deepmap") and len(c.args) == 2 and "reindex" in " ".join(norm(x) for x in [c.args[0]] +
                [a.value for a in walk_own(sc.node) if isinstance(a, ast.Assign) and isinstance(c.args[0], ast.Name)
                 and any(isinstance(t, ast.Name) and t.id == c.args[0].id for t in a.targets)] +
                ([ctx.prog.funcs[f"{sc.qualname}.{c.args[0].id}"].node] if isinstance(c.args[0], ast.Name) and f"{sc.qualname}.{c.args[0].id}" in ctx.prog.funcs else [])):
            n_maps += 1
            fn = c.args[0]
            if _is_reindexer(fn):
                res.inst("_simple_combine: every block is mapped through partial(reindex_intermediates, ...)", "sc-all-blocks")
                continue
            by = _bypasses(fn)
            res.inst(f"_simple_combine: blocks are mapped through {norm(fn)[:50]}; alternatives that skip the re-indexer: {by}", "sc-all-blocks")
            if by:
                res.report("core._simple_combine|block-bypasses-reindex", sc.where(c), sc.qualname,
                           f"'{norm(c)[:80]}': some blocks are handed on without passing through reindex_intermediates ({', '.join(by)}). The blocks are "
                           "concatenated position by position afterwards: a block that holds all the groups but in its own order (sort=False, or the code -1 "
                           "first) is combined slot-against-wrong-slot")
    if oks and n_maps == 0:
        res.notes.append("UNDECIDED: _simple_combine re-indexes, but not through deepmap(<re-indexer>, blocks); all-blocks clause not checked")
    return res


# ---------------------------------------------------------------------------------------------
def rule_copermute(ctx) -> RuleResult:
    res = RuleResult("R-COPERMUTE", "labels and values are moved to the end with the same permutation of the reduced axes", min_instances=1)
    f = ctx.prog.func("core.groupby_reduce")
    pm = parents_map(f.node)
    calls = [c for c in calls_in(f.node) if norm(c.func) == "_move_reduce_dims_to_end" and len(c.args) == 2]
    if len(calls) < 2:
        raise AnalysisError(f"groupby_reduce: {len(calls)} calls of _move_reduce_dims_to_end (hand-confirmed: one for the labels, one for the values)")
    by_block: dict[int, list] = {}
    for c in calls:
        st = next((a for a in ancestors(c, pm) if isinstance(a, ast.stmt)), None)
        blk = pm.get(id(st))
        by_block.setdefault(id(blk), []).append(c)
    for blk, cs in by_block.items():
        p0 = f.params[0]
        val = [c for c in cs if norm(c.args[0]) == p0]
        lab = [c for c in cs if norm(c.args[0]) != p0]
        if not lab or not val:
            res.report("core.groupby_reduce|copermute-unpaired", f.where(cs[0]), f.qualname,
                       "the reduced axes of the labels and of the values are not moved to the end in the same block")
            continue
        la, va = lab[0].args[1], val[0].args[1]
        ok = norm(la) == norm(va)
        sc0 = ctx.resolver.scope(f)
        if isinstance(la, ast.Name):
            b = [node for kind, node in sc0.bind.get(la.id, []) if kind == "assign"]
            if len(b) == 1 and len(sc0.bind.get(la.id, [])) == 1:
                la = b[0]      # the label axes were bound to a local first
        inner = la
        if isinstance(inner, ast.Call) and norm(inner.func) == "tuple" and inner.args:
            inner = inner.args[0]
        if isinstance(inner, (ast.GeneratorExp, ast.ListComp)) and len(inner.generators) == 1 and not inner.generators[0].ifs \
                and norm(inner.generators[0].iter) == norm(va):
            ok = True      # element-wise image of the value axes, in the same order
        # accepted alternative: both sequences are sorted beforehand
        if not ok and isinstance(va, ast.Name):
            sc = ctx.resolver.scope(f)
            if any(kind == "assign" and isinstance(node, ast.Call) and "sorted" in norm(node.func) for kind, node in sc.bind.get(va.id, [])):
                ok = True
        res.inst(f"groupby_reduce: labels moved with {norm(la)[:60]}, values with {norm(va)}: same permutation: {ok}", "copermute")
        if not ok:
            res.report("core.groupby_reduce|copermute", f.where(lab[0]), f.qualname,
                       f"the labels' reduced axes {norm(la)[:70]} are not an element-wise image of the values' axes {norm(va)} in the same order: "
                       "for a non-ascending axis tuple both are flattened to the same length but each label is paired with another element's value")
    return res


# ---------------------------------------------------------------------------------------------
def rule_promote(ctx) -> RuleResult:
    res = RuleResult("R-PROMOTE", "integer promotion sites pair signed kinds with np.int_ and unsigned kinds with np.uint", min_instances=4)
    SIGNED, UNSIGNED = {"np.int_", "np.intp", "np.int64", "int"}, {"np.uint", "np.uintp", "np.uint64"}
    n_sites = 0
    for f in ctx.prog.all_funcs():
        pm = None
        for c in calls_in(f.node):
            if norm(c.func) not in ("np.result_type", "numpy.result_type") or len(c.args) != 2:
                continue
            other = norm(c.args[1])
            if other not in SIGNED | UNSIGNED:
                continue
            pm = pm or parents_map(f.node)
            # kinds admitted by the nearest enclosing test that mentions .kind
            kinds = None
            child = c
            for a in ancestors(c, pm):
                if isinstance(a, ast.If) and ".kind" in norm(a.test):
                    in_body = any(child is st or any(child is x for x in ast.walk(st)) for st in a.body)
                    if in_body:
                        kinds = set()
                        for cmp_ in ast.walk(a.test):
                            if isinstance(cmp_, ast.Compare) and ".kind" in norm(cmp_.left) and isinstance(cmp_.comparators[0], ast.Constant):
                                v = cmp_.comparators[0].value
                                if isinstance(cmp_.ops[0], ast.Eq):
                                    kinds.add(v)
                                elif isinstance(cmp_.ops[0], ast.In):
                                    kinds |= set(v)
                            elif isinstance(cmp_, ast.Compare) and ".kind" in norm(cmp_.left) and isinstance(cmp_.comparators[0], (ast.List, ast.Tuple)):
                                kinds |= {e.value for e in cmp_.comparators[0].elts if isinstance(e, ast.Constant)}
                        break
                child = a
            n_sites += 1
            res.inst(f"{f.qualname}: {norm(c)} under kinds {sorted(kinds) if kinds is not None else 'unguarded'}", f"{f.qualname}|{norm(c)}")
            if kinds is None:
                res.notes.append(f"UNDECIDED {f.where(c)} {f.qualname}: {norm(c)} is not under a dtype.kind test")
                continue
            if other in SIGNED and "u" in kinds:
                res.report(f"{f.qualname}|promote-unsigned-with-signed|{norm(c)[:40]}", f.where(c), f.qualname,
                           f"{norm(c)} is applied to unsigned kinds {sorted(kinds)}: np.result_type(uint64, int64) is float64, so 64-bit unsigned "
                           "values above 2**53 lose precision (use np.uint for kind 'u')")
            if other in UNSIGNED and ("i" in kinds):
                res.report(f"{f.qualname}|promote-signed-with-unsigned|{norm(c)[:40]}", f.where(c), f.qualname,
                           f"{norm(c)} is applied to signed kinds {sorted(kinds)}: mixing int64 with uint64 promotes to float64")
    if n_sites < 4:
        raise AnalysisError(f"R-PROMOTE: {n_sites} integer promotion sites found (hand-confirmed: 4)")
    return res


# ---------------------------------------------------------------------------------------------
def rule_varshift(ctx) -> RuleResult:
    res = RuleResult("R-VARSHIFT", "the variance wrapper widens unsigned input to a signed dtype *before* it subtracts the per-group first element",
                     min_instances=2)
    f = ctx.prog.func("aggregate_npg._var_std_wrapper")
    arr = f.params[1]
    cfg = CFG(f)
    # (1) the subtraction's left operand: every reaching definition of the array variable is the cast
    # the variable holding the per-group first element
    firsts = {t.id for n in cfg.nodes if n.kind == "stmt" and isinstance(n.ast, ast.Assign) and "nanfirst" in norm(n.ast.value) or
              (n.kind == "stmt" and isinstance(n.ast, ast.Assign) and "'first'" in norm(n.ast.value))
              for t in n.ast.targets if isinstance(t, ast.Name)}
    subs = []
    for n in cfg.nodes:
        if n.kind != "stmt" or n.ast is None:
            continue
        for x in ast.walk(n.ast):
            if isinstance(x, ast.BinOp) and isinstance(x.op, ast.Sub) and names_in(x.right) & firsts and isinstance(x.left, ast.Name):
                subs.append((n, x.left.id, x))
            if isinstance(x, ast.AugAssign) and isinstance(x.op, ast.Sub) and names_in(x.value) & firsts and isinstance(x.target, ast.Name):
                subs.append((n, x.target.id, x))
    if not subs:
        res.notes.append("UNDECIDED: _var_std_wrapper no longer shifts by the first element (no subtraction found); rule template does not apply")
        res.inst("no shift")
        res.inst("no shift (2)")
        return res
    casts = [n for n in cfg.nodes if n.kind == "stmt" and isinstance(n.ast, ast.Assign) and isinstance(n.ast.value, ast.Call)
             and isinstance(n.ast.value.func, ast.Attribute) and n.ast.value.func.attr == "astype"
             and isinstance(n.ast.value.func.value, ast.Name)]
    for sub, lname, expr in subs:
        def is_cast_of_left(n):
            return n in casts and n is not sub and any(norm(t) == lname for t in n.ast.targets) and norm(n.ast.value.func.value) == lname
        prev = {cfg.entry.id: None}
        work = [cfg.entry.id]
        reached_uncast = False
        while work:
            i = work.pop()
            n = cfg.nodes[i]
            if n is sub:
                reached_uncast = True
                break
            if is_cast_of_left(n):
                continue
            for s_, lab in n.succ:
                if s_ not in prev:
                    prev[s_] = i
                    work.append(s_)
        res.inst(f"_var_std_wrapper: {norm(expr)[:60]}: left operand {lname} is cast on every path before the subtraction: {not reached_uncast}", "order")
        if reached_uncast:
            res.report("aggregate_npg._var_std_wrapper|subtract-before-cast", f.where(sub.ast), f.qualname,
                       f"{norm(expr)[:70]} can run on the un-widened input: for unsigned data the difference wraps modulo 2**bits before any cast "
                       "(members smaller than the group's first element become huge), so eager var/std are wrong by orders of magnitude")
    casts = [n for n in cfg.nodes if n.kind == "stmt" and isinstance(n.ast, ast.Assign) and any(
        isinstance(x, ast.Call) and isinstance(x.func, ast.Attribute) and x.func.attr == "astype" for x in ast.walk(n.ast.value))]
    # (2) the cast dtype is computed with a NumPy *signed scalar*, not a bare Python int (weak scalars do not promote unsigned dtypes)
    for c in casts:
        ac = next(x for x in ast.walk(c.ast.value) if isinstance(x, ast.Call) and isinstance(x.func, ast.Attribute) and x.func.attr == "astype")
        dt = ac.args[0] if ac.args else None
        src = dt
        if isinstance(dt, ast.Name):
            for n in cfg.nodes:
                if n.kind == "stmt" and isinstance(n.ast, ast.Assign) and any(norm(t) == dt.id for t in n.ast.targets):
                    src = n.ast.value
        txt = norm(src) if src is not None else ""
        signed_scalar = any(isinstance(x, ast.Call) and norm(x.func) in ("np.int8", "np.int16", "np.int32", "np.int64", "np.int_", "np.intp")
                            for x in ast.walk(src)) if src is not None else False
        res.inst(f"_var_std_wrapper: cast dtype = {txt[:70]}: promotes against a NumPy signed scalar: {signed_scalar}", "dtype")
        # decided exactly by R-VARSHIFT[width] whenever the abstract dtype evaluator can express the cast (np.float64 is not a bare Python number)
        expressible = src is not None and all(_dtype_of(src, T_, arr, {}) is not None for T_ in ("u1", "i8"))
        if "result_type" in txt and not signed_scalar and not expressible:
            res.report("aggregate_npg._var_std_wrapper|weak-scalar-promotion", f.where(c.ast), f.qualname,
                       f"cast dtype {txt[:70]} promotes against a bare Python number: under NumPy 2 weak-scalar rules an unsigned dtype stays unsigned, "
                       "so the shift by the first element wraps for unsigned data")
    return res


# ---------------------------------------------------------------------------------------------
# R-REINDEXDTYPE (C11): re-indexing never makes a dtype decision of its own.
# reindex_ runs inside tasks *and once more after the final cast* in groupby_reduce, on exactly those plans that leave holes
# (cohorts, blockwise).  If it widened dtypes on its own (for a fill value, say), the result dtype would depend on the plan.
# The one sanctioned promotion is xrdtypes.maybe_promote(array.dtype) under a null/NA fill.
def rule_reindexdtype(ctx) -> RuleResult:
    res = RuleResult("R-REINDEXDTYPE", "re-indexing keeps the dtype of its input, except NA promotion through xrdtypes.maybe_promote", min_instances=3)
    prog = ctx.prog
    f = prog.func("core.reindex_")
    arr = f.params[0]
    kernels = {}
    for c in calls_in(f.node):
        fn = norm(c.func)
        g = prog.funcs.get(f"core.{fn}")
        if g is not None and "dtype" in g.params and len(c.args) >= 1 and norm(c.args[0]) == arr:
            pos = g.params.index("dtype")
            d = c.args[pos] if len(c.args) > pos else kwarg(c, "dtype")
            kernels[fn] = (g, c, d)
    if not kernels:
        raise AnalysisError("core.reindex_: no call of a reindex kernel taking (array, ..., dtype, ...)")
    pm = parents_map(f.node)
    dtype_vars = {d.id for (_g, _c, d) in kernels.values() if isinstance(d, ast.Name)}
    for fn, (g, c, d) in sorted(kernels.items()):
        if d is None:
            res.report(f"core.reindex_|{fn}|no-dtype", f.where(c), f.qualname, f"'{norm(c)[:70]}' passes no dtype to the kernel")
            continue
        if not isinstance(d, ast.Name) and norm(d) != f"{arr}.dtype":
            res.inst(f"reindex_ -> {fn}: dtype argument '{norm(d)[:50]}'", f"{fn}|arg")
            res.report(f"core.reindex_|{fn}|dtype-source", f.where(c), f.qualname,
                       f"the dtype handed to {fn} is '{norm(d)[:60]}', not the input's dtype (or its NA promotion)")
    from ..astutil import guard_facts
    for v in sorted(dtype_vars):
        for a in walk_own(f.node):
            if not isinstance(a, ast.Assign):
                continue
            for t in a.targets:
                src = None
                if isinstance(t, ast.Name) and t.id == v:
                    src = a.value
                    tuple_pos = None
                elif isinstance(t, ast.Tuple):
                    for i, e in enumerate(t.elts):
                        if isinstance(e, ast.Name) and e.id == v:
                            src, tuple_pos = a.value, i
                if src is None:
                    continue
                # follow local aliases bound once (same = array.dtype; new_dtype = same)
                hops = 0
                while isinstance(src, ast.Name) and hops < 4:
                    al = [x.value for x in walk_own(f.node) if isinstance(x, ast.Assign) and len(x.targets) == 1
                          and isinstance(x.targets[0], ast.Name) and x.targets[0].id == src.id]
                    if len(al) != 1:
                        break
                    src, hops = al[0], hops + 1
                txt = norm(src)
                if txt == f"{arr}.dtype":
                    res.inst(f"reindex_: {v} = {txt} (input dtype)", f"def|{txt}")
                    continue
                if isinstance(src, ast.Call) and norm(src.func) in ("xrdtypes.maybe_promote", "dtypes.maybe_promote", "maybe_promote") \
                        and tuple_pos == 0 and len(src.args) == 1 and norm(src.args[0]) == f"{arr}.dtype":
                    facts = guard_facts(a, pm)
                    null_guard = any(pol and ("isnull(" in at or "NA ==" in at or "== xrdtypes.NA" in at or "is None" in at or "isnan(" in at)
                                     for at, pol in facts) or _enclosing_test_mentions_null(a, pm)
                    res.inst(f"reindex_: {v} = maybe_promote({arr}.dtype)[0] under a null-fill guard: {null_guard}", "def|promote")
                    if not null_guard:
                        res.report("core.reindex_|promotion-unguarded", f.where(a), f.qualname,
                                   f"'{norm(a)[:70]}' promotes the dtype for every fill value, not only for a null / NA fill: integer results "
                                   "become floating whenever the final reindex has holes to fill (plan-dependent dtype)")
                    continue
                res.inst(f"reindex_: {v} = {txt[:60]} (NOT the input dtype)", f"def|{txt[:40]}")
                res.report(f"core.reindex_|dtype-decision|{txt[:40]}", f.where(a), f.qualname,
                           f"'{norm(a)[:90]}': re-indexing makes a dtype decision of its own. The last reindex_ of groupby_reduce runs after the cast to "
                           "agg.dtype['final'] and only when a plan leaves requested labels to fill (cohorts / blockwise), so the announced and computed "
                           "dtype would depend on strategy and chunking; dtype widening for a fill_value is decided once, in _initialize_aggregation")
    # kernels: the dtype they cast to is the one they were given
    for fn, (g, _c, _d) in sorted(kernels.items()):
        n = 0
        for c in calls_in(g.node):
            dd = None
            if isinstance(c.func, ast.Attribute) and c.func.attr == "astype":
                dd = c.args[0] if c.args else kwarg(c, "dtype")
            elif norm(c.func) in ("np.full", "np.full_like", "np.empty", "np.zeros", "np.empty_like", "np.zeros_like", "np.asarray", "np.array"):
                dd = kwarg(c, "dtype")
            if dd is None:
                continue
            n += 1
            ok = norm(dd) == "dtype"
            res.inst(f"{fn}: '{norm(c)[:50]}' uses the dtype it was given: {ok}", f"{fn}|{norm(c)[:40]}")
            if not ok:
                res.report(f"core.{fn}|dtype-recomputed", g.where(c), g.qualname,
                           f"'{norm(c)[:70]}' casts to '{norm(dd)[:40]}' instead of the dtype decided by reindex_")
        if n == 0:
            res.notes.append(f"{fn}: no cast / allocation with a dtype")
    return res


def _enclosing_test_mentions_null(node, pm) -> bool:
    cur = pm.get(id(node))
    child = node
    while cur is not None:
        if isinstance(cur, ast.If) and any(child is s for s in cur.body):
            t = norm(cur.test)
            if "isnull(" in t or "NA" in t or "isnan(" in t:
                return True
        child, cur = cur, pm.get(id(cur))
    return False


# ---------------------------------------------------------------------------------------------
# R-SUBSUMED (C04, C05, C11): in a chain of dtype-class tests no branch is dead because an earlier test already catches its types.
# np.timedelta64 is a subclass of np.signedinteger (numpy issue 10685): `elif issubdtype(d, np.integer) ... elif issubdtype(d, np.timedelta64)`
# never reaches the second branch, so timedelta data silently gets the integer treatment (a finite sentinel instead of NaT).
_NP_PARENT = {
    "number": "generic", "flexible": "generic", "bool_": "generic", "datetime64": "generic", "object_": "generic",
    "integer": "number", "inexact": "number",
    "signedinteger": "integer", "unsignedinteger": "integer",
    "timedelta64": "signedinteger", "int8": "signedinteger", "int16": "signedinteger", "int32": "signedinteger", "int64": "signedinteger",
    "intp": "signedinteger", "int_": "signedinteger", "longlong": "signedinteger",
    "uint8": "unsignedinteger", "uint16": "unsignedinteger", "uint32": "unsignedinteger", "uint64": "unsignedinteger", "uintp": "unsignedinteger",
    "uint": "unsignedinteger",
    "floating": "inexact", "complexfloating": "inexact",
    "float16": "floating", "float32": "floating", "float64": "floating", "longdouble": "floating",
    "complex64": "complexfloating", "complex128": "complexfloating",
    "character": "flexible", "void": "flexible", "str_": "character", "bytes_": "character",
}


def _np_ancestors(t: str) -> set[str]:
    out = {t}
    while t in _NP_PARENT:
        t = _NP_PARENT[t]
        out.add(t)
    return out


def _dtype_class_test(e: ast.AST):
    """(subject text, set of numpy class names) for issubdtype / issubclass / isinstance tests, possibly or-ed; None otherwise"""
    if isinstance(e, ast.BoolOp) and isinstance(e.op, ast.Or):
        parts = [_dtype_class_test(v) for v in e.values]
        if all(p is not None for p in parts) and len({p[0] for p in parts}) == 1:
            return parts[0][0], set().union(*[p[1] for p in parts])
        return None
    if isinstance(e, ast.Call) and norm(e.func) in ("np.issubdtype", "numpy.issubdtype", "issubclass", "isinstance") and len(e.args) == 2:
        subj = norm(e.args[0]).replace(".type", "")
        t = e.args[1]
        ts = t.elts if isinstance(t, ast.Tuple) else [t]
        names = set()
        for x in ts:
            nx = norm(x)
            if not nx.startswith(("np.", "numpy.")):
                return None
            names.add(nx.split(".", 1)[1])
        return subj, names
    return None


def rule_subsumed(ctx) -> RuleResult:
    res = RuleResult("R-SUBSUMED", "no branch of a dtype-class test chain is dead because an earlier test subsumes it", min_instances=3)
    n_chains = 0
    for q, f in sorted(ctx.prog.funcs.items()):
        if f.is_overload or isinstance(f.node, ast.Lambda):
            continue
        chains = []
        # if / elif chains
        seen_ifs = set()
        for n in walk_own(f.node):
            if isinstance(n, ast.If) and id(n) not in seen_ifs:
                chain, cur = [], n
                while isinstance(cur, ast.If):
                    seen_ifs.add(id(cur))
                    chain.append(cur)
                    cur = cur.orelse[0] if len(cur.orelse) == 1 and isinstance(cur.orelse[0], ast.If) else None
                chains.append(chain)
        # consecutive `if ...: return/raise` statements of one block
        for n in [f.node] + [x for x in walk_own(f.node) if isinstance(x, (ast.If, ast.For, ast.While, ast.With, ast.Try))]:
            for fld in ("body", "orelse"):
                blk = getattr(n, fld, None)
                if not isinstance(blk, list):
                    continue
                run = []
                for st in blk:
                    if isinstance(st, ast.If) and not st.orelse and st.body and isinstance(st.body[-1], (ast.Return, ast.Raise)):
                        run.append(st)
                    else:
                        if len(run) > 1:
                            chains.append(run)
                        run = []
                if len(run) > 1:
                    chains.append(run)
        for chain in chains:
            tests = [(_dtype_class_test(c.test), c) for c in chain]
            typed = [(t, c) for t, c in tests if t is not None]
            if len(typed) < 2:
                continue
            n_chains += 1
            caught: dict[str, list] = {}
            for (subj, names), c in typed:
                earlier = caught.get(subj, [])
                dead = [t for t in names if any(a in {e for e, _ in earlier} for a in _np_ancestors(t))]
                res.inst(f"{q}: branch on {subj} in {sorted(names)}" + (f" -- subsumed by an earlier test" if len(dead) == len(names) else ""),
                         f"{q}|{c.lineno}")
                if names and len(dead) == len(names):
                    by = sorted({e for e, _ in earlier if any(e in _np_ancestors(t) for t in names)})
                    res.report(f"{q}|dead-dtype-branch|{'+'.join(sorted(names))}", f.where(c), q,
                               f"the branch for {', '.join('np.' + t for t in sorted(names))} can never run: np.{by[0]} is tested earlier in the same chain and "
                               f"np.{sorted(names)[0]} is a subclass of it (numpy issue 10685 for timedelta64 < signedinteger): such data gets the np.{by[0]} treatment")
                caught.setdefault(subj, []).extend((t, c) for t in names)
    res.inst(f"{n_chains} dtype-class test chains examined", "count")
    return res


# ---------------------------------------------------------------------------------------------
# R-ACCDTYPE (C20, C11): block accumulators that the blueprint does not declare are derived from the *final* dtype.
# The final dtype carries NumPy's default-integer promotion (int8 sums/products accumulate in int64).  An intermediate dtype computed from
# the raw input dtype alone makes every block accumulate in the input width: the partial products wrap, and the wide final cast comes too late.
def rule_accdtype(ctx) -> RuleResult:
    res = RuleResult("R-ACCDTYPE", "undeclared intermediate dtypes are derived from the final dtype", min_instances=2)
    f = ctx.prog.func("aggregations._initialize_aggregation")
    store = None
    for n in walk_own(f.node):
        if isinstance(n, ast.Assign) and any(isinstance(t, ast.Attribute) and t.attr == "dtype" for t in n.targets) and isinstance(n.value, ast.Dict):
            store = n
    if store is None:
        raise AnalysisError("_initialize_aggregation: 'agg.dtype = {...}' not found (anchor)")
    d = {k.value: v for k, v in zip(store.value.keys, store.value.values) if isinstance(k, ast.Constant)}
    if "final" not in d or "intermediate" not in d:
        raise AnalysisError("_initialize_aggregation: agg.dtype lacks 'final' / 'intermediate' (anchor)")
    final_names = names_in(d["final"])
    from .codes import _local_closure
    inter = d["intermediate"]
    comps = [x for x in ast.walk(inter) if isinstance(x, (ast.GeneratorExp, ast.ListComp))]
    if not comps:
        res.notes.append("UNDECIDED: intermediate dtypes are not built by a comprehension over the blueprint's declarations")
        res.inst("intermediate dtypes: unrecognised construction", "inter")
        return res
    alts = []

    def leaves(e):
        if isinstance(e, ast.IfExp):
            leaves(e.body)
            leaves(e.orelse)
        else:
            alts.append(e)
    leaves(comps[0].elt)
    comp_vars = set()
    for g in comps[0].generators:
        comp_vars |= names_in(g.target)
    for e in alts:
        declared = isinstance(e, ast.Call) and norm(e.func) in ("np.dtype", "numpy.dtype") and e.args and names_in(e.args[0]) & comp_vars
        if declared:
            res.inst(f"intermediate dtype alternative '{norm(e)[:50]}': declared by the blueprint", f"alt|{norm(e)[:30]}")
            continue
        clo = _local_closure(f, e)
        uses_final = any(names_in(x) & final_names for x in clo)
        res.inst(f"intermediate dtype alternative '{norm(e)[:60]}': derived from the final dtype ({sorted(final_names)}): {uses_final}", f"alt|{norm(e)[:30]}")
        if not uses_final:
            res.report(f"aggregations._initialize_aggregation|accumulator-from-input-dtype|{norm(e)[:30]}", f.where(e), f.qualname,
                       f"'{norm(e)[:80]}' computes an undeclared intermediate dtype without the final dtype: the block-level accumulator takes the width of the "
                       "input (int8 products wrap inside a block) although the final dtype is the promoted one; eager results are unaffected, so chunked "
                       "and eager answers differ")
    return res


# ---------------------------------------------------------------------------------------------
# R-FINALDEPS (C11): the final dtype depends on the reduction, the input dtype, the requested dtype and the fill value -- on nothing else.
# That is the property's own statement; in _initialize_aggregation it is a def-use fact: the closure of the value stored under
# agg.dtype["final"] may reach the parameters func / dtype / array_dtype / fill_value only (not min_count, finalize_kwargs, ...), and the
# fill value must arrive unconditionally (a fill that is passed on only under some condition makes the dtype depend on that condition).
def rule_finaldeps(ctx) -> RuleResult:
    res = RuleResult("R-FINALDEPS", "the final dtype depends only on the reduction, the input dtype, the requested dtype and the fill value", min_instances=2)
    f = ctx.prog.func("aggregations._initialize_aggregation")
    from .codes import _local_closure
    store = None
    for n in walk_own(f.node):
        if isinstance(n, ast.Assign) and any(isinstance(t, ast.Attribute) and t.attr == "dtype" for t in n.targets) and isinstance(n.value, ast.Dict):
            store = n
    if store is None:
        raise AnalysisError("_initialize_aggregation: 'agg.dtype = {...}' not found (anchor)")
    d = {k.value: v for k, v in zip(store.value.keys, store.value.values) if isinstance(k, ast.Constant)}
    if "final" not in d:
        raise AnalysisError("_initialize_aggregation: agg.dtype['final'] not found (anchor)")
    params = f.params
    allowed = {p for p in params if p in ("func", "dtype", "array_dtype", "fill_value")}
    other = set(params) - allowed
    clo = _local_closure(f, d["final"])
    reached = set()
    for e in clo:
        reached |= names_in(e) & set(params)
    bad = sorted(reached & other)
    res.inst(f"_initialize_aggregation: agg.dtype['final'] depends on parameters {sorted(reached)} (allowed: {sorted(allowed)})", "deps")
    for b in bad:
        res.report(f"aggregations._initialize_aggregation|final-dtype-depends-on|{b}", f.where(store), f.qualname,
                   f"the final dtype depends on the parameter '{b}': the property allows the reduction, the input dtype, the requested dtype and the fill value "
                   "only, so two calls that differ in nothing else announce and return different dtypes (and a fill written later may not fit)")
    # the fill value reaches the normaliser unconditionally
    n_calls = 0
    for e in clo:
        for c in ast.walk(e):
            if isinstance(c, ast.Call) and norm(c.func).endswith("_normalize_dtype"):
                n_calls += 1
                fv = kwarg(c, "fill_value") or (c.args[3] if len(c.args) > 3 else None)
                ok = isinstance(fv, ast.Name) and fv.id == "fill_value"
                res.inst(f"_initialize_aggregation: final dtype normalised with fill_value={norm(fv) if fv is not None else '<none>'}: the user's fill, unconditionally: {ok}", "fill-arg")
                if not ok:
                    res.report("aggregations._initialize_aggregation|final-dtype-fill-conditional", f.where(c), f.qualname,
                               f"the final dtype is normalised with fill_value={norm(fv)[:50] if fv is not None else 'nothing'} instead of the user's fill_value: "
                               "the result is not widened to hold the fill on the paths where it is withheld, although reindexing to expected_groups writes the "
                               "fill regardless (NaN is cast into an integer result)")
    if n_calls == 0:
        res.notes.append("UNDECIDED: the final dtype is not computed by _normalize_dtype(...)")
    return res


# ---------------------------------------------------------------------------------------------
# R-KINDMISSING (C10): "this dtype has no missing values" is only concluded for kinds that have none.
# A fill scan (ffill / bfill) may hand the input back unchanged when the dtype cannot hold a missing value.  The guard is a test on
# dtype.kind; evaluated over NumPy's kind alphabet it must be false for every kind that *does* have a missing value: f (NaN), c (NaN),
# m and M (NaT), O (None / NaN).  `kind != "f"` is true for c, m, M, O: datetime arrays with NaT came back unfilled.
_KINDS = "biufcmMOSUV"
_KINDS_WITH_MISSING = set("fcmMO")


def _eval_kind_test(test: ast.AST, subject_suffix: str, k: str):
    """truth value of a test built from comparisons of <x>.dtype.kind with constants, for kind k; None if not evaluable"""
    if isinstance(test, ast.BoolOp):
        vals = [_eval_kind_test(v, subject_suffix, k) for v in test.values]
        if isinstance(test.op, ast.And):
            if any(v is False for v in vals):
                return False
            return True if all(v is True for v in vals) else None
        if any(v is True for v in vals):
            return True
        return False if all(v is False for v in vals) else None
    if isinstance(test, ast.UnaryOp) and isinstance(test.op, ast.Not):
        v = _eval_kind_test(test.operand, subject_suffix, k)
        return None if v is None else (not v)
    if isinstance(test, ast.Compare) and len(test.ops) == 1 and norm(test.left).endswith(subject_suffix):
        op, r = test.ops[0], test.comparators[0]
        if isinstance(r, ast.Constant) and isinstance(r.value, str):
            cs = r.value
        elif isinstance(r, (ast.List, ast.Tuple, ast.Set)) and all(isinstance(e, ast.Constant) for e in r.elts):
            cs = [e.value for e in r.elts]
        else:
            return None
        if isinstance(op, ast.Eq):
            return k == cs
        if isinstance(op, ast.NotEq):
            return k != cs
        if isinstance(op, ast.In):
            return k in cs
        if isinstance(op, ast.NotIn):
            return k not in cs
    return None


def rule_kindmissing(ctx) -> RuleResult:
    res = RuleResult("R-KINDMISSING", "an identity shortcut for 'no missing values' fires only for dtype kinds without a missing value", min_instances=1)
    f = ctx.prog.func("core.groupby_scan")
    arr = f.params[0]
    n = 0
    for st in walk_own(f.node):
        if not isinstance(st, ast.If) or ".dtype.kind" not in norm(st.test):
            continue
        rets = [r for r in st.body if isinstance(r, ast.Return) and isinstance(r.value, ast.Name) and r.value.id == arr]
        if not rets:
            continue
        n += 1
        # leaves that are not kind tests (is this a fill scan?) are taken as true: the shortcut can be reached
        def ev(t, k):
            if isinstance(t, ast.BoolOp) and isinstance(t.op, ast.And):
                vals = [ev(v, k) for v in t.values]
                return False if any(v is False for v in vals) else True
            v = _eval_kind_test(t, ".dtype.kind", k)
            return True if v is None else v
        fires = sorted(k for k in _KINDS if ev(st.test, k))
        bad = sorted(set(fires) & _KINDS_WITH_MISSING)
        res.inst(f"groupby_scan: 'if {norm(st.test)[:70]}: return {arr}' fires for kinds {''.join(fires)}; kinds with a missing value among them: {''.join(bad) or 'none'}",
                 f"shortcut|{st.lineno}")
        if bad:
            res.report(f"core.groupby_scan|identity-shortcut-kinds|{''.join(bad)}", f.where(st), f.qualname,
                       f"the input is returned unchanged when '{norm(st.test)[:70]}', which holds for dtype kinds {''.join(bad)}: those have a missing value "
                       "(c: NaN, m/M: NaT, O: None/NaN), so ffill / bfill of a datetime64 array with NaT comes back unfilled")
    # second obligation: a shortcut "every position is its own group" hands the values on without scanning them.  That is the scan
    # itself for fills, but a NaN-skipping accumulation (nancumsum) of a lone NaN is the identity: the shortcut must substitute it.
    for st in walk_own(f.node):
        if not isinstance(st, ast.If) or "grp_shape" not in norm(st.test) and ".shape[-1] == 1" not in norm(st.test):
            continue
        rets = [r for r in ast.walk(st) if isinstance(r, ast.Return) and r.value is not None and arr in names_in(r.value)]
        if not rets:
            continue
        n += 1
        body_txt = " ".join(norm(b) for b in st.body)
        substitutes = ("isnull(" in body_txt or "nan_to_num" in body_txt or "np.isnan(" in body_txt) and ("identity" in body_txt or "np.where" in body_txt)
        fills_only = any(k in norm(st.test) for k in ("is_fill", "ffill", "bfill", "concat_then_scan"))
        res.inst(f"groupby_scan: singleton-group shortcut 'if {norm(st.test)[:50]}': substitutes the identity for missing values: {substitutes}; restricted to fills: {fills_only}",
                 f"singleton|{st.lineno}")
        if not substitutes and not fills_only:
            res.report("core.groupby_scan|singleton-shortcut-keeps-nan", f.where(st), f.qualname,
                       f"when '{norm(st.test)[:60]}' the values are returned unscanned for every scan; for the NaN-skipping accumulation (nancumsum) a lone NaN "
                       "must become the identity: groupby_scan([1, nan, 2], by=[0, 1, 2], func='nancumsum') returns [1, nan, 2], NumPy's nancumsum per group gives [1, 0, 2]")
    # third obligation (block level): chunk_scan is the whole scan of a block.  A `return` whose values do not come out of the scan kernel
    # (def-use closure without a generic_aggregate call) hands the block on unscanned; that is right for a block *without members* only --
    # a one-member block still needs the NaN-skipping accumulation to turn a lone NaN into the identity, and the fills to be run.
    # Accepted guards: a pure emptiness test (`.size == 0`, `.shape[...] == 0`, `len(...) == 0`), a restriction to fills, or an explicit
    # NaN -> identity substitution in the guarded body.
    import re as _re
    from ..astutil import guard_facts
    cs = ctx.prog.funcs.get("core.chunk_scan")
    if cs is not None:
        defs: dict[str, list] = {}
        for a in walk_own(cs.node):
            if isinstance(a, ast.Assign):
                for t in a.targets:
                    for nm in ast.walk(t):
                        if isinstance(nm, ast.Name):
                            defs.setdefault(nm.id, []).append(a.value)
        def from_kernel(e, seen=None) -> bool:
            seen = set() if seen is None else seen
            for x in ast.walk(e):
                if isinstance(x, ast.Call) and norm(x.func).split(".")[-1] in ("generic_aggregate", "chunk_reduce"):
                    return True
                if isinstance(x, ast.Name) and x.id in defs and x.id not in seen:
                    seen.add(x.id)
                    if any(from_kernel(v, seen) for v in defs[x.id]):
                        return True
            return False
        pm = parents_map(cs.node)
        kernel_returns = 0
        for r in walk_own(cs.node):
            if not isinstance(r, ast.Return) or r.value is None:
                continue
            if from_kernel(r.value):
                kernel_returns += 1
                continue
            n += 1
            facts = guard_facts(r, pm)
            pos = [a for a, pol in facts if pol]
            neg = [a for a, pol in facts if not pol]
            empt = [a for a in pos if _re.search(r"(\.size|\.shape\[[^\]]+\]|len\(.+\)) == 0$", a)] + [a for a in neg if _re.fullmatch(r"[\w.]+\.size", a)]
            fills = [a for a in pos if any(k in a for k in ("concat_then_scan", "ffill", "bfill", "is_fill"))]
            body = pm.get(id(r))
            btxt = " ".join(norm(b) for b in getattr(body, "body", []) if not isinstance(b, ast.Return))
            subst = ("np.isnan(" in btxt or "isnull(" in btxt) and ("identity" in btxt)
            ok = bool(empt or fills or subst)
            res.inst(f"chunk_scan: unscanned return under {sorted(pos + ['not ' + a for a in neg]) or 'no guard'}: emptiness {bool(empt)}, fills only {bool(fills)}, substitutes {subst}",
                     f"chunk_scan|bypass|{'+'.join(sorted(pos))[:60]}")
            if not ok:
                res.report("core.chunk_scan|unscanned-block-with-members", cs.where(r), cs.qualname,
                           f"under '{' and '.join(sorted(pos)) or 'no condition'}' the block is handed on without the scan kernel; that guard admits blocks with a member: "
                           "a one-element chunk holding NaN keeps the NaN under nancumsum where the running total is expected "
                           "(groupby_scan(dask [1, nan, 2] in chunks of 1, by=[0, 0, 0], func='nancumsum') -> [1, nan, 3]; NumPy: [1, 1, 3])")
        if kernel_returns == 0:
            raise AnalysisError("chunk_scan: no return fed by the scan kernel (generic_aggregate) was found (anchor)")
    if n == 0:
        res.notes.append("groupby_scan has no identity shortcut: rule not applicable")
        res.min_instances = 0
    return res


# ---------------------------------------------------------------------------------------------
# R-VARSHIFT[batch] (C08, C20): the variance pivot is looked up per group AND per leading index.
# `_var_std_wrapper` subtracts one member of each group before the sums of squares.  Leading dimensions of the data are batch dimensions:
# the pivot of slice i must be a member of the group *in slice i* (a pivot taken from another slice couples the slices -- an infinite or
# huge first member there turns this slice's variance into NaN / 0).  Structurally: the aggregate call that produces the pivot receives the
# very array the subtraction's left operand names (no subscript, no sliced local), along the wrapper's own `axis`.
def rule_varbatch(ctx) -> RuleResult:
    res = RuleResult("R-VARSHIFT[batch]", "the variance pivot is looked up in the same batch slice it is subtracted from", min_instances=1)
    f = ctx.prog.func("aggregate_npg._var_std_wrapper")
    arr = f.params[1]
    env = {a.targets[0].id: a.value for a in walk_own(f.node) if isinstance(a, ast.Assign) and len(a.targets) == 1 and isinstance(a.targets[0], ast.Name)}
    pivots = [(a.targets[0].id, a.value) for a in walk_own(f.node) if isinstance(a, ast.Assign) and len(a.targets) == 1 and isinstance(a.targets[0], ast.Name)
              and isinstance(a.value, ast.Call) and any(isinstance(k, ast.Constant) and k.value in ("nanfirst", "first", "nanlast", "last", "nanmean", "mean")
                                                        for k in [kw.value for kw in a.value.keywords] + list(a.value.args))]
    subs = [x for x in ast.walk(f.node) if isinstance(x, ast.BinOp) and isinstance(x.op, ast.Sub) and isinstance(x.left, ast.Name) and names_in(x.right) & {p for p, _ in pivots}]
    if not subs or not pivots:
        res.notes.append("_var_std_wrapper no longer shifts by a per-group member: rule not applicable")
        res.min_instances = 0
        return res
    for sub in subs:
        for pname, call in pivots:
            if pname not in names_in(sub.right):
                continue
            data = call.args[1] if len(call.args) > 1 else kwarg(call, "array")
            ax = kwarg(call, "axis")
            same = isinstance(data, ast.Name) and data.id == sub.left.id and not (data.id in env and data.id != arr and isinstance(env[data.id], ast.Subscript))
            axis_ok = ax is not None and norm(ax) == "axis"
            res.inst(f"_var_std_wrapper: pivot '{norm(call)[:70]}' reads the array it is subtracted from ({sub.left.id}): {same}; along the wrapper's axis: {axis_ok}", f"pivot|{pname}")
            if not (same and axis_ok):
                why = f"from '{norm(data)[:40]}'" + (f" = {norm(env[data.id])[:50]}" if isinstance(data, ast.Name) and data.id in env and data.id != arr else "")
                res.report("aggregate_npg._var_std_wrapper|pivot-from-other-slice", f.where(call), f.qualname,
                           f"the pivot '{pname}' is looked up {why}, axis={norm(ax) if ax is not None else 'default'}, but subtracted from every leading slice of '{sub.left.id}': "
                           "the slices of a stack are no longer independent (var of a stack whose first slice starts with inf / 1e300 is NaN / 0 in the other slices)")
    return res


# ---------------------------------------------------------------------------------------------
# R-ARMDTYPE (C11, C12, C03): every arm of chunk_reduce's per-reduction loop yields the requested dtype.
# The loop pairs each reduction with its dtype (`for reduction, fv, kw, dt in zip(funcs, fill_values, kwargss, dtypes)`).  The kernel arm casts
# its result `.astype(dt)`; the arm for a block without any valid label *allocates* the all-fill result, and an allocation without `dtype=dt`
# takes the dtype of the fill (int64 / float64): concatenated with the uint64 / float32 / complex intermediates of the other blocks the whole
# intermediate is promoted (uint64 + int64 -> float64: max of 2**62 + 1 comes back as 2**62).
def rule_armdtype(ctx) -> RuleResult:
    res = RuleResult("R-ARMDTYPE", "every arm of chunk_reduce's per-reduction loop builds its result in the dtype paired with the reduction", min_instances=2)
    f = ctx.prog.func("core.chunk_reduce")
    loop = dt = None
    for st in walk_own(f.node):
        if isinstance(st, ast.For) and isinstance(st.iter, ast.Call) and norm(st.iter.func) == "zip" and isinstance(st.target, ast.Tuple) \
                and len(st.target.elts) == len(st.iter.args):
            for t, src in zip(st.target.elts, st.iter.args):
                if isinstance(t, ast.Name) and norm(src) in ("dtypes", "dtype"):
                    loop, dt = st, t.id
    if loop is None:
        raise AnalysisError("chunk_reduce: the loop that pairs each reduction with its dtype was not found (anchor)")
    ALLOC = {"np.full", "np.zeros", "np.ones", "np.empty", "np.full_like", "np.zeros_like", "np.empty_like", "np.broadcast_to"}
    for a in ast.walk(loop):
        if not (isinstance(a, ast.Assign) and len(a.targets) == 1 and norm(a.targets[0]) == "result"):
            continue
        v = a.value
        if isinstance(v, ast.Call) and norm(v.func) in ALLOC:
            d = kwarg(v, "dtype")
            ok = d is not None and norm(d) == dt
            res.inst(f"chunk_reduce: allocating arm '{norm(v)[:70]}' passes dtype={dt}: {ok}", f"alloc|{norm(v.func)}")
            if not ok:
                res.report(f"core.chunk_reduce|arm-allocates-in-fill-dtype|{norm(v.func)}", f.where(a), f.qualname,
                           f"'{norm(a)[:80]}' builds the result of a block without valid labels in the dtype of the fill value, not in `{dt}` like the kernel arm: "
                           "np.concatenate of that int64 / float64 placeholder with uint64 intermediates promotes them to float64 "
                           "(max of uint64 [2**62 + 1] with a float-label block of NaN comes back as 2**62)")
        elif isinstance(v, ast.Call) and isinstance(v.func, ast.Attribute) and v.func.attr == "astype":
            ok = bool(v.args) and norm(v.args[0]) == dt
            res.inst(f"chunk_reduce: kernel arm casts its result to {dt}: {ok}", f"cast|{a.lineno}")
    return res


# ---------------------------------------------------------------------------------------------
# R-SCANEMPTY (C10): a zero-length block is a legal chunking of the scanned axis.
# chunk_reduce answers a block without valid labels with ONE placeholder label -- a float NaN that "the combine drops again".  The scan
# pipeline has no such combine: it stores chunk_reduce's `groups` as *codes* (`group_idx=reduced["groups"]`) and later uses them as
# positions (`.max() + 1`, fancy indexing).  So (a) every function that turns chunk_reduce's groups into the codes of an AlignedArrays
# leaves early for a block without members (an emptiness test of its own codes that dominates the chunk_reduce call), and (b) the state
# combiner takes no identity-less reduction (`.max()` / `.min()` without `initial=`) of codes that may be empty.
def rule_scanempty(ctx) -> RuleResult:
    import re as _re
    from ..astutil import guard_facts
    res = RuleResult("R-SCANEMPTY", "the scan pipeline never takes chunk_reduce's placeholder label of an empty block for a code", min_instances=3)
    prog = ctx.prog
    cr = prog.func("core.chunk_reduce")
    has_placeholder = any(isinstance(a, ast.Assign) and norm(a.targets[0]).replace('"', "'") == "results['groups']"
                          and any(norm(x) == "np.nan" for x in ast.walk(a.value)) for a in walk_own(cr.node))
    if not has_placeholder:
        res.notes.append("chunk_reduce no longer answers an empty block with a NaN placeholder label: rule not applicable")
        res.min_instances = 0
        return res
    n = 0
    for q, f in sorted(prog.funcs.items()):
        if isinstance(f.node, ast.Lambda):
            continue
        red = {a.targets[0].id: a for a in walk_own(f.node) if isinstance(a, ast.Assign) and len(a.targets) == 1 and isinstance(a.targets[0], ast.Name)
               and isinstance(a.value, ast.Call) and norm(a.value.func).split(".")[-1] == "chunk_reduce"}
        if not red:
            continue
        for c in calls_in(f.node):
            g = kwarg(c, "group_idx")
            if norm(c.func).split(".")[-1] != "AlignedArrays" or g is None:
                continue
            src = [nm for nm in red if _re.fullmatch(_re.escape(nm) + r"\[['\"]groups['\"]\]", norm(g))]
            if not src:
                continue
            n += 1
            call = red[src[0]]
            # an earlier `if <codes>.size == 0: return ...` at the top level of the function, before the chunk_reduce call
            guards = [st for st in f.node.body if isinstance(st, ast.If) and st.lineno < call.lineno
                      and _re.search(r"(\.size|\.shape\[[^\]]+\]|len\(.+\)) == 0", norm(st.test)) and any(isinstance(b, ast.Return) for b in st.body)]
            res.inst(f"{q}: chunk_reduce(...)['groups'] stored as codes; leaves early for a block without members: {bool(guards)}", f"{q}|codes")
            if not guards:
                res.report(f"{q}|placeholder-label-as-code", f.where(c), q,
                           f"'{norm(c)[:80]}' stores chunk_reduce's labels as codes, but for a zero-length block chunk_reduce returns its placeholder [nan] (float64): "
                           "the state combiner then computes pd.RangeIndex(nan + 1) -- groupby_scan(dask array with chunks (2, 0, 1), func='nancumsum') raises TypeError inside a task")
    sb = prog.funcs.get("aggregations.scan_binary_op")
    if sb is None:
        raise AnalysisError("scan_binary_op is gone (anchor)")
    for c in calls_in(sb.node):
        if isinstance(c.func, ast.Attribute) and c.func.attr in ("max", "min") and "group_idx" in norm(c.func.value):
            n += 1
            ok = kwarg(c, "initial") is not None
            res.inst(f"scan_binary_op: '{norm(c)[:50]}' has an identity for empty codes: {ok}", f"scan_binary_op|{norm(c.func)[:40]}")
            if not ok:
                res.report(f"aggregations.scan_binary_op|identity-less-reduction-of-codes|{norm(c.func.value)}", sb.where(c), sb.qualname,
                           f"'{norm(c)}' raises for the codes of a zero-length block (\"zero-size array to reduction operation maximum which has no identity\"): "
                           "groupby_scan(dask array with chunks (3, 0), func='nancumsum') fails inside a task, the eager scan of the same data works")
    return res


# ---------------------------------------------------------------------------------------------
# R-SCANACC (C10, C20): the two halves of a chunked scan accumulate in the same dtype.
# groupby_scan decides the accumulator dtype once (agg.dtype: default-integer promotion for cumsum).  The in-block scan (chunk_scan) is given
# that dtype; the pre-op of the parallel-prefix tree (grouped_reduce), which produces the per-group totals carried into later blocks, must
# use it too.  With the block's own dtype the carried int8 totals wrap while the eager scan does not: chunked != eager.
def rule_scanacc(ctx) -> RuleResult:
    res = RuleResult("R-SCANACC", "the carried block totals of a chunked scan accumulate in the scan's dtype", min_instances=2)
    from .codes import _local_closure
    for q in ("core.chunk_scan", "core.grouped_reduce"):
        f = ctx.prog.func(q)
        bp = [p for p in f.params if p == "agg"] or sorted(blueprint_vars_of(f))
        calls = [c for c in calls_in(f.node) if norm(c.func) in ("generic_aggregate", "chunk_reduce") and kwarg(c, "dtype") is not None]
        if not calls:
            raise AnalysisError(f"{q}: no accumulating call (generic_aggregate / chunk_reduce with dtype=) found (anchor)")
        for c in calls:
            d = kwarg(c, "dtype")
            clo = _local_closure(f, d)
            txt = " ".join(norm(e) for e in clo)
            from_scan = any(f"{b}.dtype" in txt for b in bp) or ("dtype" in f.params and any(isinstance(x, ast.Name) and x.id == "dtype" for e in clo for x in ast.walk(e)))
            from_block = ".array.dtype" in txt or "inp.dtype" in txt
            res.inst(f"{q}: {norm(c.func)}(..., dtype={norm(d)}): the scan's dtype: {from_scan}; the block's own dtype: {from_block}", f"{q}|{norm(c.func)}")
            if from_block and not from_scan:
                res.report(f"{q}|accumulates-in-block-dtype", f.where(c), q,
                           f"'{norm(c.func)}(…, dtype={norm(d)})' accumulates in the dtype of the block, not in the scan's dtype ({bp[0] if bp else 'agg'}.dtype, "
                           "default-integer promoted for cumsum): the per-group totals carried into later blocks wrap for int8/uint8/int16 input "
                           "(chunked nancumsum of [100]*6 int8 in chunks of 2 gives [100, 200, 44, …], eager [100, 200, 300, …])")
    return res


def blueprint_vars_of(f):
    from ..astutil import blueprint_vars
    return blueprint_vars(f)


# ---------------------------------------------------------------------------------------------
# R-COMBINEBYPASS (C02, C12): the grouped combine hands concatenated intermediates on unreduced only for reasons of *shape*.
# _grouped_combine concatenates the blocks' intermediates and labels and reduces them again by label.  The second reduction also removes the
# placeholder label a block reports when all its labels are missing, and merges labels that recur.  Skipping it is sound when there is
# nothing to merge by construction (a single element along the reduced axis); a skip decided from the label *values* ("no label recurs")
# keeps the placeholders: a spurious NaN label with a made-up value appears among lazily discovered groups.
def rule_combinebypass(ctx) -> RuleResult:
    res = RuleResult("R-COMBINEBYPASS", "the grouped combine skips its second reduction only under shape conditions", min_instances=2)
    from .codes import _local_closure
    from ..astutil import guard_facts
    f = ctx.prog.func("core._grouped_combine")
    pm = parents_map(f.node)
    sites = []
    for n in walk_own(f.node):
        if isinstance(n, ast.Call) and isinstance(n.func, ast.Attribute) and n.func.attr == "append" and "intermediates" in norm(n.func.value) and n.args:
            sites.append((n, n.args[0]))
        if isinstance(n, ast.Dict):
            for k, v in zip(n.keys, n.values):
                if isinstance(k, ast.Constant) and k.value == "intermediates" and not (isinstance(v, (ast.List, ast.Tuple)) and not v.elts):
                    sites.append((n, v))
    if not sites:
        raise AnalysisError("_grouped_combine: no store of combined intermediates found (anchor)")
    for node, v in sites:
        clo = _local_closure(f, v, limit=3)
        reduced = any(isinstance(x, ast.Call) and norm(x.func) in ("chunk_reduce", "chunk_argreduce") for e in clo for x in ast.walk(e)) \
            or any(isinstance(x, ast.Name) and x.id.startswith("_results") for x in ast.walk(v)) or "_results" in norm(v)
        empty = isinstance(v, ast.Call) and norm(v.func) in ("np.empty", "np.zeros")
        if reduced or empty:
            res.inst(f"_grouped_combine: intermediates <- {norm(v)[:50]}: {'reduced by label' if reduced else 'empty'}", f"site|{node.lineno}")
            continue
        # a bypass: which conditions lead here?
        facts = guard_facts(node, pm)
        conds = []
        for at, pol in facts:
            if not pol:
                continue
            try:
                e = ast.parse(at, mode="eval").body
            except SyntaxError:
                continue
            conds += _local_closure(f, e, limit=3)
        value_dep = sorted({norm(x.func) for e in conds for x in ast.walk(e) if isinstance(x, ast.Call)
                            and norm(x.func) in ("_unique", "np.unique", "pd.unique", "isnull", "np.isnan", "len", "np.any", "np.all", "set")
                            and not all(isinstance(y, ast.Attribute) and y.attr in ("shape", "ndim") for y in x.args)})
        shape_only = bool(conds) and not value_dep and any(".shape" in norm(e) or ".ndim" in norm(e) for e in conds)
        res.inst(f"_grouped_combine: intermediates <- {norm(v)[:40]} (unreduced) under {[norm(e)[:40] for e in conds][:2]}: shape-only condition: {shape_only}", f"site|{node.lineno}")
        if not shape_only:
            res.report("core._grouped_combine|value-dependent-bypass", f.where(node), f.qualname,
                       f"concatenated intermediates are handed on without the second reduction under a condition computed from label values "
                       f"({', '.join(value_dep) or 'no shape test'}): the placeholder label of an all-missing block is not removed and recurring labels are "
                       "not merged by construction, so lazily discovered groups can contain a spurious NaN label with a made-up value")
    return res


# ---------------------------------------------------------------------------------------------
# R-FINITE (C04, C20, C01): finiteness never decides which values count as data.
# +inf and -inf are legal data (and the true extreme of a group); only NaN / NaT mark "missing" or "absent".  A validity mask built with
# np.isfinite / np.isinf makes a combine step or a kernel skip infinities like missing values: the result of merging per-block results then
# differs from the all-at-once reduction.  (Zero instances on today's tree; the self-test keeps a positive example.)
def rule_finite(ctx) -> RuleResult:
    res = RuleResult("R-FINITE", "np.isfinite / np.isinf are never used as a validity mask on data", min_instances=1)
    pm_cache = {}
    n = 0
    for q, f in sorted(ctx.prog.funcs.items()):
        if f.is_overload or isinstance(f.node, ast.Lambda) or f.unit.name in ("visualize", "xarray"):
            continue
        for c in calls_in(f.node):
            if norm(c.func) not in ("np.isfinite", "np.isinf", "numpy.isfinite", "numpy.isinf", "np.isposinf", "np.isneginf") or not c.args:
                continue
            n += 1
            pm = pm_cache.setdefault(q, parents_map(f.node))
            # a pure validation (`if not np.isfinite(x).all(): raise`) is not a mask
            validation = False
            for a in ancestors(c, pm):
                if isinstance(a, ast.If) and any(x is c for x in ast.walk(a.test)) and any(isinstance(r, ast.Raise) for b in a.body for r in ast.walk(b)):
                    validation = True
            on_data = bool(names_in(c.args[0]) & set(f.params))
            res.inst(f"{q}: {norm(c)[:50]} (on a parameter: {on_data}; validation only: {validation})", f"{q}|{c.lineno}")
            if on_data and not validation:
                res.report(f"{q}|finite-as-validity|{norm(c)[:30]}", f.where(c), q,
                           f"'{norm(c)[:60]}' separates data from non-data by finiteness: +inf / -inf are legal values (the true extreme, first or last member of "
                           "a group) and would be skipped like the NaN of an absent group; use isnull / np.isnan")
    res.inst(f"{n} finiteness tests found in kernel and combine code", "count")
    return res


# ---------------------------------------------------------------------------------------------
# R-EMPTYKERNEL (C10, C19): a kernel that marks run starts with a leading constant True handles an empty axis first.
# `np.concatenate(([True], x[1:] != x[:-1]))` has length 1 for an empty x: the first "group start" is then position 0 of an axis of length
# 0, and the store / reduceat that follows raises IndexError.  Zero-length chunks are legal dask arrays (they appear after slicing and
# filtering).  Each function using the idiom must return early for an empty axis, or be listed with the caller-side guard that keeps
# empty input away from it.
_EMPTYKERNEL_EXCEPTIONS = {
    # function: (reason, validator: (function, text that must occur in an `if` test guarding the kernel call))
    "aggregate_flox._np_grouped_op": ("only reached from chunk_reduce, which builds an all-fill result itself when the block is empty "
                                      "(`empty = np.all(props.nanmask)` is True for a zero-length block) and does not call the kernel",
                                      ("core.chunk_reduce", "empty")),
}


def rule_emptykernel(ctx) -> RuleResult:
    res = RuleResult("R-EMPTYKERNEL", "kernels that mark run starts with a leading constant handle an empty axis first", min_instances=2)
    prog = ctx.prog
    n = 0
    for q, f in sorted(prog.funcs.items()):
        if f.is_overload or isinstance(f.node, ast.Lambda) or not q.startswith(("aggregate_flox.", "aggregate_npg.", "aggregate_numbagg.", "aggregations.", "xrutils.")):
            continue
        idiom = None
        for c in calls_in(f.node):
            if norm(c.func) in ("np.concatenate", "numpy.concatenate") and c.args and isinstance(c.args[0], (ast.Tuple, ast.List)) and len(c.args[0].elts) == 2:
                a0, a1 = c.args[0].elts
                if "True" in norm(a0) and isinstance(a1, ast.Compare) and "[1:]" in norm(a1) and "[:-1]" in norm(a1):
                    idiom = c
        if idiom is None:
            continue
        n += 1
        guard = None
        for st in f.node.body:
            if st.lineno >= idiom.lineno:
                break
            if isinstance(st, ast.If) and any(isinstance(r, ast.Return) for r in st.body) and \
                    (("== 0" in norm(st.test) and (".shape" in norm(st.test) or ".size" in norm(st.test))) or "not " in norm(st.test) and ".size" in norm(st.test)):
                guard = norm(st.test)[:50]
        why = f"early return when {guard}" if guard else None
        if why is None and q in _EMPTYKERNEL_EXCEPTIONS:
            reason, (cq, needle) = _EMPTYKERNEL_EXCEPTIONS[q]
            cf = prog.funcs.get(cq)
            ok = cf is not None and any(isinstance(st, ast.If) and norm(st.test) == needle and any(isinstance(x, ast.Call) and norm(x.func) == "generic_aggregate" for b in st.orelse for x in ast.walk(b))
                                        for st in ast.walk(cf.node))
            if ok:
                why = f"listed exception: {reason[:90]}..."
        res.inst(f"{q}: run-start idiom '{norm(idiom)[:50]}': {why or 'NO guard for an empty axis'}", q)
        if why is None:
            res.report(f"{q}|empty-axis-unguarded", f.where(idiom), q,
                       f"'{norm(idiom)[:70]}' yields one run start for an empty axis; the code that follows indexes position 0 of an axis of length 0 "
                       "(IndexError inside a task for a dask array with a zero-length chunk); return early when the axis is empty")
    res.inst(f"{n} kernels use the run-start idiom", "count")
    return res


# ---------------------------------------------------------------------------------------------
# R-NANFINAL (C02, C04): finalizers let NaN through.
# A finalizer (mean, var, std ...) serves the NaN-propagating and the NaN-skipping variant of a reduction alike: skipping happened in the block
# kernels, and a NaN that reaches the finalizer means "this group had a NaN member" (var) or "inf - inf" and must come out as NaN, as the eager
# engines return it.  A NaN-ignoring primitive in a finalizer (np.fmax / np.fmin / np.nan_to_num / np.nanmax ...) turns it into a number.
_NAN_SWALLOWERS = {"np.fmax", "np.fmin", "np.nan_to_num", "np.nanmax", "np.nanmin", "np.nansum", "np.nanmean", "np.nanprod", "numpy.fmax", "numpy.fmin"}


def rule_nanfinal(ctx) -> RuleResult:
    res = RuleResult("R-NANFINAL", "blueprint finalizers contain no NaN-ignoring primitive", min_instances=3)
    fins = sorted(q for q in ctx.registry.slot_funcs("finalize", "agg") if q in ctx.prog.funcs)
    if len(fins) < 3:
        raise AnalysisError(f"finalizers found through the registry: {fins}; hand-confirmed: _mean_finalize, _var_finalize, _std_finalize, _pick_second")
    seen = set()
    work = list(fins)
    while work:
        q = work.pop()
        if q in seen:
            continue
        seen.add(q)
        f = ctx.prog.funcs[q]
        bad = [c for c in calls_in(f.node) if norm(c.func) in _NAN_SWALLOWERS]
        res.inst(f"{q}: NaN-ignoring primitives: {[norm(c.func) for c in bad] or 'none'}", q)
        for c in bad:
            res.report(f"{q}|nan-swallowed|{norm(c.func)}", f.where(c), q,
                       f"'{norm(c)[:60]}' ignores NaN: a group whose intermediate is NaN (a NaN member under var/std, or inf - inf) comes out as a number from the "
                       "tree-reduced plans while the eager engines return NaN (chunked != eager)")
        for c in calls_in(f.node):          # finalizers calling each other (_std_finalize -> _var_finalize)
            g = f"{f.unit.name}.{norm(c.func)}"
            if g in ctx.prog.funcs and g not in seen:
                work.append(g)
    # clamp clause: a finalizer that computes a variance as a DIFFERENCE of accumulated squares (sumsq - sum**2 / n) can come out a few ulp below
    # zero for a group of (nearly) equal members; the eager kernels do not, and the square root of it is NaN.  Such a finalizer clamps the result at
    # zero with a NaN-propagating primitive (np.maximum / np.clip) before it is returned.
    for q in sorted(seen):
        f = ctx.prog.funcs[q]
        diff = [b for b in ast.walk(f.node) if isinstance(b, ast.BinOp) and isinstance(b.op, ast.Sub)
                and any(isinstance(x, ast.BinOp) and isinstance(x.op, ast.Pow) for x in ast.walk(b.right))]
        if not diff:
            continue
        clamps = [c for c in calls_in(f.node) if norm(c.func) in ("np.maximum", "np.clip") and any(isinstance(a, ast.Constant) and a.value == 0 for a in c.args)]
        res.inst(f"{q}: difference-of-squares form '{norm(diff[0])[:40]}' clamped at zero with a NaN-propagating primitive: {bool(clamps)}", f"{q}|clamp")
        if not clamps:
            res.report(f"{q}|difference-of-squares-not-clamped", f.where(diff[0]), q,
                       f"'{norm(diff[0])[:50]}' can round to a tiny negative number for a group of (nearly) equal members: the chunked var is then negative and std NaN "
                       "(groupby_reduce(dask [c, c, c], func='std') -> nan for 46 of 300 random constants c), while the eager result is 0")
    return res


# ---------------------------------------------------------------------------------------------
# R-ROUNDTRIP (C11): what the entry point converted on the way in, it converts back on the way out, under the same flags.
# groupby_reduce views datetime64 / timedelta64 data as int64 (and bool as int) before reducing and saves the original dtype; the tail casts
# the result back.  Whether the cast happens must depend on the flags computed at the head (is_npdatetime, requires_numeric, func), never on
# what the result looks like: a float result (mean, or a NaN fill) is still a datetime.
def rule_roundtrip(ctx) -> RuleResult:
    res = RuleResult("R-ROUNDTRIP", "the result is cast back to a saved input dtype under head flags only, not depending on the result", min_instances=1)
    from ..astutil import guard_facts
    f = ctx.prog.func("core.groupby_reduce")
    arr = f.params[0]
    res_name = None
    for r in walk_own(f.node):
        if isinstance(r, ast.Return) and isinstance(r.value, ast.Tuple) and r.value.elts and isinstance(r.value.elts[0], ast.Name):
            res_name = r.value.elts[0].id
    if res_name is None:
        raise AnalysisError("groupby_reduce: cannot identify the returned result variable (anchor)")
    saved = {a.targets[0].id for a in walk_own(f.node) if isinstance(a, ast.Assign) and len(a.targets) == 1 and isinstance(a.targets[0], ast.Name)
             and norm(a.value) == f"{arr}.dtype"}
    pm = parents_map(f.node)
    n = 0
    for a in walk_own(f.node):
        if not (isinstance(a, ast.Assign) and len(a.targets) == 1 and norm(a.targets[0]) == res_name and isinstance(a.value, ast.Call)
                and isinstance(a.value.func, ast.Attribute) and a.value.func.attr in ("astype", "view") and norm(a.value.func.value) == res_name and a.value.args):
            continue
        tgt = a.value.args[0]
        restores = (isinstance(tgt, ast.Name) and tgt.id in saved) or norm(tgt) in ("bool", "np.bool_")
        if not restores:
            continue
        n += 1
        facts = guard_facts(a, pm)
        on_result = sorted(at for at, _pol in facts if res_name in {x.id for x in ast.walk(ast.parse(at, mode="eval")) if isinstance(x, ast.Name)})
        res.inst(f"groupby_reduce: '{norm(a)[:50]}' guarded by {sorted(at for at, _ in facts)[:4]}: inspects the result: {bool(on_result)}", f"restore|{a.lineno}")
        if on_result:
            res.report(f"core.groupby_reduce|restore-depends-on-result|{norm(tgt)}", f.where(a), f.qualname,
                       f"the cast back to the saved input dtype ('{norm(a)[:50]}') is skipped depending on the result itself ({on_result[0][:50]}): a float result "
                       "(mean, median, or min/max/sum with a NaN fill) of datetime64 / timedelta64 input comes back as float64 epoch numbers instead of datetimes")
    if n == 0:
        raise AnalysisError("groupby_reduce: no cast of the result back to a saved input dtype found (anchor)")
    # value clause: the restore applies only to results that ARE values of the input's type.  Blueprints whose final dtype is the platform
    # integer (counts, arg reductions: positions) must be excluded by the guard -- evaluated over the finite alphabet of blueprint names.
    int_results = sorted({rec.name for _k, rec in ctx.registry.agg_items() if not rec.errors and str(rec.args.get("final_dtype")) in ("np.intp", "Sym('np.intp')", str(T.INTP))})
    helpers = {}
    for q, h in ctx.prog.funcs.items():
        if q.startswith("core._is_") and len(h.params) == 1:
            names = set()
            for c in walk_own(h.node):
                if isinstance(c, ast.Compare) and len(c.ops) == 1 and isinstance(c.ops[0], ast.In) and isinstance(c.comparators[0], (ast.List, ast.Tuple, ast.Set)) \
                        and norm(c.left) == h.params[0]:
                    names |= {e.value for e in c.comparators[0].elts if isinstance(e, ast.Constant)}
            helpers[q.split(".")[-1]] = names
    fvar = "func"

    def excluded(name: str, facts) -> str | None:
        for at, pol in facts:
            e = ast.parse(at, mode="eval").body
            val = None
            if isinstance(e, ast.Compare) and len(e.ops) == 1 and norm(e.left) == fvar:
                r = e.comparators[0]
                if isinstance(e.ops[0], ast.Eq) and isinstance(r, ast.Constant):
                    val = name == r.value
                elif isinstance(e.ops[0], ast.In) and isinstance(r, (ast.List, ast.Tuple, ast.Set)):
                    val = name in {x.value for x in r.elts if isinstance(x, ast.Constant)}
            elif isinstance(e, ast.Call) and isinstance(e.func, ast.Name) and e.func.id in helpers and len(e.args) == 1 and norm(e.args[0]) == fvar:
                val = name in helpers[e.func.id]
            if val is not None and val != pol:
                return at
        return None

    for a in walk_own(f.node):
        if not (isinstance(a, ast.Assign) and len(a.targets) == 1 and norm(a.targets[0]) == res_name and isinstance(a.value, ast.Call)
                and isinstance(a.value.func, ast.Attribute) and a.value.func.attr in ("astype", "view") and a.value.args
                and isinstance(a.value.args[0], ast.Name) and a.value.args[0].id in saved):
            continue
        facts = guard_facts(a, pm)
        for name in int_results:
            by = excluded(name, facts)
            res.inst(f"groupby_reduce: '{norm(a)[:40]}' for func={name!r} (integer result): excluded by {by!r}", f"value|{a.lineno}|{name}")
            if by is None:
                res.report(f"core.groupby_reduce|restore-applied-to-integer-result|{name}", f.where(a), f.qualname,
                           f"'{norm(a)[:50]}' is also reached for func={name!r}, whose result is a platform integer (a position / a count), not a value of the input: "
                           f"the {name} of datetime64 / timedelta64 data comes back as datetimes near the epoch instead of integers")
    return res


# ---------------------------------------------------------------------------------------------
# R-FILLWIDEN (C05, C11): every path through the dtype normaliser considers widening for the fill value.
# xrdtypes._normalize_dtype ends with `if fill_value not in [None, INF, NINF, NA]: dtype = np.result_type(dtype, fill_value)`: that is what
# makes an integer max/min/first result float when the user asks for a NaN fill.  A path that returns before that test (an early return for
# dtype-preserving reductions, say) lets _finalize_results write NaN into the slot and then cast it back to the integer dtype.
def rule_fillwiden(ctx) -> RuleResult:
    res = RuleResult("R-FILLWIDEN", "every path through _normalize_dtype passes the fill-value widening test", min_instances=1)
    from ..cfg import CFG
    f = ctx.prog.func("xrdtypes._normalize_dtype")
    if "fill_value" not in f.params:
        raise AnalysisError("xrdtypes._normalize_dtype lost its fill_value parameter (anchor)")
    cfg = CFG(f)
    widen_tests = [n for n in cfg.nodes if n.kind == "test" and n.ast is not None and "fill_value" in names_in(n.ast)]
    widen_calls = [c for c in calls_in(f.node) if norm(c.func) in ("np.result_type", "np.promote_types") and "fill_value" in names_in(c)]
    if not widen_tests or not widen_calls:
        res.inst("_normalize_dtype: no fill-value widening found", "widen")
        res.report("xrdtypes._normalize_dtype|no-fill-widening", f.where(), f.qualname,
                   "the dtype normaliser no longer widens the dtype for the user's fill value (np.result_type(dtype, fill_value)): a NaN fill is cast into integer results")
        return res
    dom = cfg.dominators()
    tids = {n.id for n in widen_tests}
    rets = [n for n in cfg.nodes if n.kind == "return"]
    for r in rets:
        ok = bool(tids & dom.get(r.id, set()))
        res.inst(f"_normalize_dtype: 'return {norm(r.ast.value) if r.ast is not None and r.ast.value is not None else ''}' (line {getattr(r.ast, 'lineno', '?')}) after the fill-value test: {ok}", f"ret|{getattr(r.ast, 'lineno', 0)}")
        if not ok:
            res.report(f"xrdtypes._normalize_dtype|return-before-fill-widening|{getattr(r.ast, 'lineno', 0)}", f.where(r.ast), f.qualname,
                       f"'{norm(r.ast)[:50]}' returns before the fill value has been considered: on this path an integer result is not widened for a NaN / fractional / "
                       "out-of-range fill_value, which _finalize_results then writes and casts back (NaN becomes int64.min)")
    # value clause: np.result_type(dtype, <Python int>) treats the fill as a WEAK scalar (NEP 50): it never widens an integer dtype, however large
    # the fill is.  Some widening call must therefore look at the VALUE of the fill (np.min_scalar_type(fill_value), np.asarray(fill_value),
    # or an explicit np.iinfo range test on the way).
    value_based = any(isinstance(x, ast.Call) and norm(x.func) in ("np.min_scalar_type", "np.asarray", "np.array", "np.iinfo", "np.can_cast")
                      and ("fill_value" in names_in(x) or norm(x.func) == "np.iinfo") for x in ast.walk(f.node))
    res.inst(f"_normalize_dtype: some widening step looks at the value of an integer fill (weak scalars never widen): {value_based}", "value")
    if not value_based:
        res.report("xrdtypes._normalize_dtype|integer-fill-is-a-weak-scalar", f.where(widen_calls[0]), f.qualname,
                   f"'{norm(widen_calls[0])[:50]}' is the only widening: for a Python integer fill NumPy 2 keeps the integer dtype whatever the value, so fill_value=1000 with "
                   "int8 max/min/first/last raises OverflowError eagerly and wraps to -24 on the chunked plans; fill_value=-1 with unsigned data likewise")
    return res


# ---------------------------------------------------------------------------------------------
# R-FILLCAST (C05, C11): the user's fill is never written into a value that has not been cast to the final dtype yet.
# _normalize_dtype widens the FINAL dtype for the user's fill (any/all with a negative fill become integer, count with a fractional fill float;
# R-FILLWIDEN).  reindex_ itself only promotes for NaN/NA fills: handed the un-cast finalized value (bool, intp) it writes -1 as True and 0.5
# as 0, and the cast that follows cannot bring the fill back.  Every reindex_ call of _finalize_results that carries the user's fill receives
# either `<value>.astype(agg.dtype["final"] ...)` or a value whose final cast dominates the call.  (np.where promotes by itself.)
def rule_fillcast(ctx) -> RuleResult:
    res = RuleResult("R-FILLCAST", "the finalizer re-indexes with the user's fill only values already cast to the final dtype", min_instances=1)
    f = ctx.prog.func("core._finalize_results")
    cfg = CFG(f)
    dom = cfg.dominators()
    casts = [n for n in cfg.nodes if n.kind == "stmt" and _is_final_cast(n)]
    from .codes import _local_closure
    from ..dataflow import node_containing
    n_calls = 0
    for c in calls_in(f.node):
        if norm(c.func) != "reindex_":
            continue
        fv = kwarg(c, "fill_value")
        if fv is None:
            continue
        clo = " ".join(norm(e) for e in _local_closure(f, fv))
        if "fill_value['user']" not in clo and 'fill_value["user"]' not in clo:
            continue
        n_calls += 1
        arr = c.args[0] if c.args else kwarg(c, "array")
        inline = isinstance(arr, ast.Call) and isinstance(arr.func, ast.Attribute) and arr.func.attr == "astype" and arr.args \
            and access_path(arr.args[0]) == "agg.dtype['final']"
        node = node_containing(cfg, c)
        dominated = node is not None and any(k.id in dom.get(node.id, ()) for k in casts)
        res.inst(f"_finalize_results: {norm(c)[:50]}: value cast inline: {inline}; final cast dominates the call: {dominated}", f"reindex|{c.lineno}")
        if not inline and not dominated:
            res.report("core._finalize_results|fill-written-before-final-cast", f.where(c), f.qualname,
                       f"'{norm(c)[:60]}' writes the user's fill into '{norm(arr)[:40]}', which still has the accumulator / kernel dtype (bool for any/all, intp for "
                       "count): reindex_ promotes only for NaN fills, so fill_value=-1 becomes True and 0.5 becomes 0 on the plans that reindex in the finalizer "
                       "(map-reduce with reindex=False, cohorts), while the other plans return the fill verbatim")
    if n_calls == 0:
        res.notes.append("_finalize_results no longer re-indexes with the user's fill: rule not applicable")
        res.min_instances = 0
    return res


# ---------------------------------------------------------------------------------------------
# R-VARSHIFT, width clause (C20, C01): the dtype in which the shift `array - first` is computed can hold the difference of ANY two values of
# the input dtype.  The cast's dtype expression is evaluated abstractly over the integer dtype alphabet with NumPy's promotion rules (frozen
# below): for an N-bit signed or unsigned input the shift dtype must be floating or a signed integer with more than N bits; for 64-bit input
# only floating qualifies (np.var itself computes integer input in float64).
_INT_ALPHABET = ["i1", "i2", "i4", "i8", "u1", "u2", "u4", "u8"]
_NP_SCALARS = {"np.int8": "i1", "np.int16": "i2", "np.int32": "i4", "np.int64": "i8", "np.intp": "i8", "np.int_": "i8",
               "np.uint8": "u1", "np.uint16": "u2", "np.uint32": "u4", "np.uint64": "u8", "np.uint": "u8",
               "np.float16": "f2", "np.float32": "f4", "np.float64": "f8", "float": "f8", "np.floating": "f8"}


def _np_result_type(a: str, b: str) -> str:
    """NumPy's promotion for the bool/int/float kinds used here (value-independent, NEP 50)"""
    if a == b:
        return a
    for x, y in ((a, b), (b, a)):
        if x == "WEAK":
            return y
        if x == "WEAKF":
            return y if y[0] == "f" or y.startswith("WEAK") else "f8"
    ka, na, kb, nb = a[0], int(a[1:]), b[0], int(b[1:])
    if ka == kb:
        return f"{ka}{max(na, nb)}"
    if "f" in (ka, kb):
        (kf, nf), (ki, ni) = ((ka, na), (kb, nb)) if ka == "f" else ((kb, nb), (ka, na))
        need = 2 if ni == 1 else (4 if ni == 2 else 8)      # float16 holds 8-bit ints, float32 16-bit, float64 the rest
        return f"f{max(nf, need)}"
    # signed with unsigned
    (ns, nu) = (na, nb) if ka == "i" else (nb, na)
    if ns > nu:
        return f"i{ns}"
    return f"i{nu * 2}" if nu < 8 else "f8"


def _dtype_of(e, T: str, arr: str, env: dict):
    """abstract dtype of an expression for input dtype T; None when not expressible"""
    t = norm(e)
    if t in (arr, f"{arr}.dtype") or (isinstance(e, ast.Subscript) and norm(e.value) == arr):
        return T
    if t in _NP_SCALARS:
        return _NP_SCALARS[t]
    if isinstance(e, ast.Constant) and isinstance(e.value, bool):
        return "WEAK"
    if isinstance(e, ast.Constant) and isinstance(e.value, int):
        return "WEAK"            # a bare Python int is a weak scalar: it adopts the other operand's dtype (NEP 50)
    if isinstance(e, ast.Constant) and isinstance(e.value, float):
        return "WEAKF"
    if isinstance(e, ast.Name) and e.id in env:
        return _dtype_of(env[e.id], T, arr, {k: v for k, v in env.items() if k != e.id})
    if isinstance(e, ast.Call):
        fn = norm(e.func)
        if fn in _NP_SCALARS and len(e.args) <= 1:
            return _NP_SCALARS[fn]
        if fn in ("np.result_type", "np.promote_types", "np.find_common_type") and e.args:
            out = None
            for a in e.args:
                d = _dtype_of(a, T, arr, env)
                if d is None:
                    return None
                out = d if out is None else _np_result_type(out, d)
            return out
        if fn == "np.dtype" and len(e.args) == 1:
            return _dtype_of(e.args[0], T, arr, env)
        return None
    if isinstance(e, ast.BinOp) and isinstance(e.op, (ast.Mult, ast.Add, ast.Sub)):
        l, r = _dtype_of(e.left, T, arr, env), _dtype_of(e.right, T, arr, env)
        return None if l is None or r is None else _np_result_type(l, r)
    if isinstance(e, ast.UnaryOp) and isinstance(e.op, ast.USub):
        return _dtype_of(e.operand, T, arr, env)
    if isinstance(e, ast.IfExp):
        c = e.test
        # <arr>.dtype.kind in "iub" / == "u" ...
        if isinstance(c, ast.Compare) and len(c.ops) == 1 and norm(c.left) == f"{arr}.dtype.kind" and isinstance(c.comparators[0], ast.Constant) \
                and isinstance(c.comparators[0].value, str):
            kinds = c.comparators[0].value
            hit = (T[0] in kinds) if isinstance(c.ops[0], (ast.In, ast.Eq)) else (T[0] not in kinds)
            return _dtype_of(e.body if hit else e.orelse, T, arr, env)
        return None
    return None


def rule_varwidth(ctx) -> RuleResult:
    res = RuleResult("R-VARSHIFT[width]", "the variance shift is computed in a dtype that holds the difference of any two input values", min_instances=8)
    f = ctx.prog.func("aggregate_npg._var_std_wrapper")
    arr = f.params[1]
    env = {a.targets[0].id: a.value for a in walk_own(f.node)
           if isinstance(a, ast.Assign) and len(a.targets) == 1 and isinstance(a.targets[0], ast.Name) and a.targets[0].id != arr}
    casts = [a for a in walk_own(f.node) if isinstance(a, ast.Assign) and len(a.targets) == 1 and norm(a.targets[0]) == arr and isinstance(a.value, ast.Call)
             and isinstance(a.value.func, ast.Attribute) and a.value.func.attr == "astype" and norm(a.value.func.value) == arr and a.value.args]
    subs = [x for x in ast.walk(f.node) if isinstance(x, ast.BinOp) and isinstance(x.op, ast.Sub) and norm(x.left) == arr]
    if not subs:
        res.notes.append("_var_std_wrapper no longer shifts by a per-group element: rule not applicable")
        res.min_instances = 0
        return res
    if len(casts) != 1:
        res.notes.append(f"UNDECIDED: {len(casts)} casts of the input before the shift (expected one)")
        res.min_instances = 0
        return res
    cast = casts[0]
    for T in _INT_ALPHABET:
        D = _dtype_of(cast.value.args[0], T, arr, env)
        if D is None:
            res.inst(f"_var_std_wrapper: input {T}: shift dtype not expressible [UNDECIDED]", f"w|{T}")
            res.notes.append(f"UNDECIDED: dtype expression '{norm(cast.value.args[0])[:60]}' is outside the abstract evaluator")
            continue
        bits = int(T[1:]) * 8
        ok = D[0] == "f" or (D[0] == "i" and int(D[1:]) * 8 > bits)
        res.inst(f"_var_std_wrapper: input {T} -> shift computed in {D}: holds every difference: {ok}", f"w|{T}")
        if not ok:
            res.report(f"aggregate_npg._var_std_wrapper|shift-dtype-too-narrow|{T}", f.where(cast), f.qualname,
                       f"for {T} input the shift '{norm(subs[0])[:40]}' is computed in {D} ('{norm(cast.value.args[0])[:60]}'): the difference of two {T} values "
                       f"needs more than {bits} bits, so e.g. var([100, -100]) of int8 wraps (784 instead of 10000); np.var computes integer input in float64")
    return res


# ---------------------------------------------------------------------------------------------
# R-ACCFORWARD (C20, C01): the accumulation dtype asked of an engine wrapper reaches the kernel.
# chunk_reduce hands every kernel `dtype=` (int64 for an int8 sum).  numbagg's grouped kernels take no dtype and accumulate in the dtype of the
# data, so the wrapper must widen the data itself -- *before* the kernel -- for every reduction whose result grows with the number of members
# (sums, products, sums of squares, counts); a cast of the result afterwards cannot undo the wrap-around.  And every named function of the
# module that reaches the wrapper for such a reduction forwards its own `dtype`.
_ACCUMULATING = {"nansum", "nanprod", "nansum_of_squares", "nancount"}


def rule_accforward(ctx) -> RuleResult:
    res = RuleResult("R-ACCFORWARD", "engine wrappers whose kernels take no dtype widen the data to the requested dtype before accumulating", min_instances=2)
    from ..astutil import guard_facts
    prog = ctx.prog
    w = prog.funcs.get("aggregate_numbagg._numbagg_wrapper")
    if w is None:
        res.notes.append("no numbagg wrapper in the package: rule not applicable")
        res.min_instances = 0
        return res
    if "dtype" not in w.params or "func" not in w.params:
        raise AnalysisError("_numbagg_wrapper lost its dtype / func parameter (anchor)")
    arr = w.params[1]
    # the kernel call: a call of a local bound to getattr(numbagg.grouped, ...)
    kern_names = {a.targets[0].id for a in walk_own(w.node) if isinstance(a, ast.Assign) and len(a.targets) == 1 and isinstance(a.targets[0], ast.Name)
                  and isinstance(a.value, ast.Call) and norm(a.value.func) == "getattr" and "numbagg" in norm(a.value.args[0])}
    kcalls = [c for c in calls_in(w.node) if isinstance(c.func, ast.Name) and c.func.id in kern_names]
    if not kcalls:
        raise AnalysisError("_numbagg_wrapper: the kernel call (a local bound to getattr(numbagg.grouped, ...)) was not found (anchor)")
    consts = {}
    for a in w.unit.tree.body:
        if isinstance(a, ast.Assign) and len(a.targets) == 1 and isinstance(a.targets[0], ast.Name) and isinstance(a.value, (ast.Tuple, ast.List, ast.Set)):
            consts[a.targets[0].id] = {e.value for e in a.value.elts if isinstance(e, ast.Constant)}
    pm = parents_map(w.node)
    for k in kcalls:
        forwarded = kwarg(k, "dtype") is not None
        covered: set[str] = set()
        kinds_ok = True
        if not forwarded:
            for a in walk_own(w.node):
                if isinstance(a, ast.Assign) and len(a.targets) == 1 and norm(a.targets[0]) == arr and isinstance(a.value, ast.Call) \
                        and isinstance(a.value.func, ast.Attribute) and a.value.func.attr == "astype" and a.value.args and "dtype" in names_in(a.value.args[0]) \
                        and a.lineno < k.lineno:
                    for at, pol in guard_facts(a, pm):
                        e = ast.parse(at, mode="eval").body
                        if pol and isinstance(e, ast.Compare) and len(e.ops) == 1 and isinstance(e.ops[0], ast.In) and norm(e.left) == "func":
                            r = e.comparators[0]
                            covered |= consts.get(norm(r), set()) if isinstance(r, ast.Name) else {x.value for x in getattr(r, "elts", []) if isinstance(x, ast.Constant)}
                        if pol and isinstance(e, ast.Compare) and norm(e.left) == f"{arr}.dtype.kind" and isinstance(e.comparators[0], ast.Constant):
                            kinds_ok = {"i", "u"} <= set(str(e.comparators[0].value))
                    if not any(at_.startswith("func in") for at_, _ in guard_facts(a, pm)):
                        covered |= _ACCUMULATING          # unconditional widening
        missing = sorted(_ACCUMULATING - covered) if not forwarded else []
        res.inst(f"_numbagg_wrapper: kernel call takes dtype=: {forwarded}; data widened to `dtype` first for: {sorted(covered) or '-'} (integer kinds covered: {kinds_ok})", "wrapper")
        if not forwarded and (missing or not kinds_ok):
            res.report("aggregate_numbagg._numbagg_wrapper|accumulates-in-input-dtype|" + "+".join(missing or ["kinds"]), w.where(k), w.qualname,
                       f"'{norm(k)[:50]}' accumulates in the dtype of the data (the kernels take no dtype) and the requested `dtype` is applied to the result only: "
                       f"for {missing or 'some integer kinds'} narrow integers wrap before the cast (nansum of int8 [100, 100] -> -56 on the automatically chosen engine)")
    # named functions that reach the wrapper for an accumulating kernel forward their dtype
    for q, f in sorted(prog.funcs.items()):
        if not q.startswith("aggregate_numbagg.") or f is w or isinstance(f.node, ast.Lambda) or "dtype" not in f.params:
            continue
        for c in calls_in(f.node):
            if norm(c.func) != "_numbagg_wrapper":
                continue
            fn = kwarg(c, "func")
            if not (isinstance(fn, ast.Constant) and fn.value in _ACCUMULATING):
                continue
            d = kwarg(c, "dtype")
            ok = d is not None and norm(d) == "dtype"
            res.inst(f"{q}: _numbagg_wrapper(func={fn.value!r}) forwards its dtype: {ok}", f"{q}|{fn.value}")
            if not ok:
                res.report(f"{q}|dtype-not-forwarded|{fn.value}", f.where(c), q,
                           f"{q} receives `dtype` (np.intp for counts) but calls the wrapper without it: the count is accumulated in the dtype of the data "
                           "(count of 300 int8 values -> 44) and only converted afterwards")
    # transform clause: kernels that square the data before summing square in the accumulation dtype.  The squares of int8 values do not fit
    # int8: `array**2` (flox engine) and numpy_groupies' "sumofsquares" (which squares internally) must see data already widened towards `dtype`,
    # or delegate to a sibling of the same module that does, forwarding dtype.
    for unit in ("aggregate_flox", "aggregate_npg"):
        for q, f in sorted(prog.funcs.items()):
            if not q.startswith(unit + ".") or not q.endswith("sum_of_squares") or isinstance(f.node, ast.Lambda) or "dtype" not in f.params:
                continue
            data = f.params[1]
            widened = any(isinstance(a, ast.Assign) and len(a.targets) == 1 and norm(a.targets[0]) == data and isinstance(a.value, ast.Call)
                          and isinstance(a.value.func, ast.Attribute) and a.value.func.attr == "astype" and a.value.args and "dtype" in names_in(a.value.args[0])
                          for a in walk_own(f.node))
            delegates = any(norm(c.func).endswith("sum_of_squares") and norm(c.func) != f.name and kwarg(c, "dtype") is not None and norm(kwarg(c, "dtype")) == "dtype"
                            and f"{unit}.{norm(c.func)}" in prog.funcs for c in calls_in(f.node))
            res.inst(f"{q}: data widened towards `dtype` before squaring: {widened}; delegates to a sibling with dtype=dtype: {delegates}", f"{q}|square")
            if not widened and not delegates:
                res.report(f"{q}|squares-in-input-dtype", f.where(), q,
                           f"{q} squares the data (itself or inside the external kernel) in the dtype of the input and applies `dtype` to the sum only: the squares of "
                           "narrow integers wrap, so the chunked var of int8 [100, -100, 50, 20] is -341.25 (eager 5418.75) and std is NaN")
    return res


# ---------------------------------------------------------------------------------------------
# R-NOVALID (C18, C01): positions computed from a per-group count of valid members are masked where that count is zero.
# quantile_ turns the number of valid members of each group into positions (`q * (count - 1)` + the running offset of the group starts) and
# gathers with them.  For a group with no valid member the positions fall into the neighbouring groups, so the function must overwrite those
# groups afterwards, on a path that the NaN-skipping variant takes: a store `result[..., M] = nan` whose mask M is derived from a comparison
# of the valid-count variable, not guarded by "not skipna".
def rule_novalid(ctx) -> RuleResult:
    res = RuleResult("R-NOVALID", "positions derived from per-group valid counts are masked for groups without a valid member", min_instances=1)
    from ..astutil import guard_facts
    from .codes import _local_closure
    f = ctx.prog.funcs.get("aggregate_flox.quantile_")
    if f is None:
        raise AnalysisError("aggregate_flox.quantile_ is gone (anchor)")
    # the valid-count variable: assigned from a reduceat / sum of a validity mask
    counts = {a.targets[0].id for a in walk_own(f.node) if isinstance(a, ast.Assign) and len(a.targets) == 1 and isinstance(a.targets[0], ast.Name)
              and any(isinstance(c, ast.Call) and norm(c.func).endswith("reduceat") for c in ast.walk(a.value))
              and any("valid" in nm or "notnull" in nm for nm in names_in(a.value) | {norm(c.func) for c in ast.walk(a.value) if isinstance(c, ast.Call)})}
    gathers = [c for c in calls_in(f.node) if norm(c.func) in ("np.take_along_axis", "np.take")]
    if not counts or not gathers:
        res.notes.append("quantile_ no longer derives gather positions from a per-group count of valid members: rule not applicable")
        res.min_instances = 0
        return res
    pm = parents_map(f.node)
    ok = []
    for a in walk_own(f.node):
        if not (isinstance(a, ast.Assign) and len(a.targets) == 1 and isinstance(a.targets[0], ast.Subscript) and norm(a.value) in ("np.nan", "nan", "float('nan')")):
            continue
        mask_names = names_in(a.targets[0].slice)
        clo = _local_closure(f, a.targets[0].slice)
        from_count_compare = any(isinstance(x, ast.Compare) and (names_in(x) & counts) and not (names_in(x) - counts - {"np"}) for e in clo for x in ast.walk(e))
        facts = guard_facts(a, pm)
        skip_only_off = any(at.strip() in ("skipna",) and pol is False for at, pol in facts)
        res.inst(f"quantile_: '{norm(a)[:50]}': mask from a comparison of {sorted(counts)} alone: {from_count_compare}; only on the non-skipping path: {skip_only_off}",
                 f"store|{a.lineno}")
        if from_count_compare and not skip_only_off:
            ok.append(a)
    if not ok:
        res.report("aggregate_flox.quantile_|no-valid-member-unmasked", f.where(gathers[0]), f.qualname,
                   f"'{norm(gathers[0])[:50]}' gathers at positions computed from {sorted(counts)} (valid members per group); for a group whose members are all NaN the "
                   "count is 0 and the positions point into the neighbouring groups, and no store masks such groups on the NaN-skipping path: nanmedian / "
                   "nanquantile return a value made of the neighbours' members (the default engine for medians) where NumPy returns NaN")
    return res


# ---------------------------------------------------------------------------------------------
# R-PROMOTEIDEM (C11, C05): maybe_promote keeps every dtype that already has a missing value.
# maybe_promote(dtype) answers "a dtype that can hold NaN / NaT, and that missing value".  Floating, complex, datetime64 and timedelta64
# dtypes can: the function must hand them back unchanged.  The tail re-index of groupby_reduce runs AFTER the final cast, so a maybe_promote
# that widens float32 to float64 makes the result dtype depend on the plan (cohorts / blockwise pass through that re-index, the eager path
# and map-reduce do not).  The if/elif chain is evaluated over concrete dtypes with the frozen NumPy scalar hierarchy: in the arm taken by
# a dtype that has its own missing value, `dtype` is not re-bound (or is re-bound to an expression that evaluates to the same dtype).
_HAS_MISSING = {"float16": 2, "float32": 4, "float64": 8, "complex64": 8, "complex128": 16, "datetime64": 8, "timedelta64": 8}


def rule_promoteidem(ctx) -> RuleResult:
    res = RuleResult("R-PROMOTEIDEM", "maybe_promote returns dtypes that already have a missing value unchanged", min_instances=5)
    f = ctx.prog.func("xrdtypes.maybe_promote")
    dvar = f.params[0]
    chain = next((st for st in f.node.body if isinstance(st, ast.If)), None)
    if chain is None:
        raise AnalysisError("xrdtypes.maybe_promote: no if/elif chain over dtype classes (anchor)")
    arms = []
    cur = chain
    while isinstance(cur, ast.If):
        arms.append((cur.test, cur.body))
        cur = cur.orelse[0] if len(cur.orelse) == 1 and isinstance(cur.orelse[0], ast.If) else None
    for tname, size in _HAS_MISSING.items():
        anc = _np_ancestors(tname)
        taken = None
        for test, body in arms:
            t = _dtype_class_test(test)
            if t is None or t[0] != dvar:
                continue
            if {c.split(".")[-1] for c in t[1]} & anc:
                taken = (test, body)
                break
        if taken is None:
            res.inst(f"maybe_promote({tname}): no arm of the chain takes it (falls to the object branch) [UNDECIDED]", f"idem|{tname}")
            res.notes.append(f"UNDECIDED: maybe_promote has no recognisable arm for {tname}")
            continue
        test, body = taken
        rebinds = [a for b in body for a in ast.walk(b) if isinstance(a, ast.Assign) and any(norm(t_) == dvar for t_ in a.targets)]
        changed = None
        for a in rebinds:
            v = a.value
            # dtype = X if dtype.itemsize <= K else Y  -> evaluate for this itemsize
            if isinstance(v, ast.IfExp) and isinstance(v.test, ast.Compare) and norm(v.test.left) == f"{dvar}.itemsize" and isinstance(v.test.comparators[0], ast.Constant):
                k = v.test.comparators[0].value
                op = v.test.ops[0]
                hit = size <= k if isinstance(op, ast.LtE) else size < k if isinstance(op, ast.Lt) else size >= k if isinstance(op, ast.GtE) else size > k if isinstance(op, ast.Gt) else None
                v = v.body if hit else v.orelse
            got = norm(v).split(".")[-1].strip("'\"")
            if got != tname and norm(v) != dvar:
                changed = norm(a)
        res.inst(f"maybe_promote({tname}): arm '{norm(test)[:50]}' re-binds the dtype to something else: {changed or False}", f"idem|{tname}")
        if changed:
            res.report(f"xrdtypes.maybe_promote|promotes-a-dtype-that-has-a-missing-value|{tname}", f.where(test), f.qualname,
                       f"for {tname} the arm '{norm(test)[:60]}' executes '{changed[:50]}': the dtype already holds NaN / NaT and must come back unchanged; the re-index in the "
                       "tail of groupby_reduce (after the final cast) then returns another dtype for cohorts / blockwise than for the eager and map-reduce plans")
    return res


# ---------------------------------------------------------------------------------------------
# R-REINDEXSKIP (C16, C05): the finalizer's re-index onto the requested labels is skipped only when the found labels EQUAL them, in order.
# reindex_(values, from_=found, to=expected) fills absent labels, drops unrequested ones -- and re-orders.  "Nothing to fill, nothing to drop"
# (same number of labels, all of them requested) is a statement about SETS; when the found labels are a permutation of the requested ones the
# values stay in found order under the requested labels.  Any extra condition on the path to that call must be an order-sensitive equality
# (Index.equals / np.array_equal / identity), never a membership or length test.
def rule_reindexskip(ctx) -> RuleResult:
    res = RuleResult("R-REINDEXSKIP", "the finalizer skips its re-index only for labels that are equal in order, not merely as sets", min_instances=1)
    from ..astutil import guard_facts
    from .codes import _local_closure
    f = ctx.prog.func("core._finalize_results")
    pm = parents_map(f.node)
    n = 0
    for c in calls_in(f.node):
        if norm(c.func) != "reindex_":
            continue
        n += 1
        # every leaf of every enclosing test (conjunctions AND disjunctions: `if not complete or <other>:` skips the call when `complete`)
        leaves = []
        cur = c
        for a in ancestors(c, pm):
            if isinstance(a, ast.If) and any(cur is b or any(cur is y for y in ast.walk(b)) for b in a.body + a.orelse):
                work = [a.test]
                while work:
                    e = work.pop()
                    if isinstance(e, ast.BoolOp):
                        work.extend(e.values)
                    elif isinstance(e, ast.UnaryOp) and isinstance(e.op, ast.Not):
                        work.append(e.operand)
                    else:
                        leaves.append(e)
            if a is f.node:
                break
        extra = [(norm(e), True) for e in leaves if "blockwise" not in norm(e) and "is None" not in norm(e) and "is not None" not in norm(e)]
        bad = []
        for at, pol in extra:
            e = ast.parse(at, mode="eval").body
            clo = _local_closure(f, e)
            txt = " ".join(norm(x) for x in clo)
            setlike = any(k in txt for k in (".isin(", "np.isin(", "len(", "set(", ".difference(", ".issubset(", "np.in1d(", ".size"))
            ordered = any(k in txt for k in (".equals(", "np.array_equal(", ".identical("))
            if setlike and not ordered:
                bad.append(at)
        res.inst(f"_finalize_results: '{norm(c)[:50]}' extra conditions on the path: {[a for a, _ in extra] or '-'}; set-like: {bad or '-'}", f"reindex|{c.lineno}")
        for at in bad:
            res.report(f"core._finalize_results|reindex-skipped-on-set-equality|{at[:30]}", f.where(c), f.qualname,
                       f"the re-index onto the requested labels is skipped depending on '{at[:60]}', a membership / length test: found labels that are a permutation of the "
                       "requested ones (sort=False, expected_groups in another order than first appearance) pass it, and the values then stay in found order "
                       "under the requested labels")
    if n == 0:
        res.notes.append("_finalize_results no longer re-indexes: rule not applicable")
        res.min_instances = 0
    return res


# ---------------------------------------------------------------------------------------------
# R-COMBINECAST (C03, C02, C11): the combine path of the reduction tree never casts intermediates to a dtype derived from the data.
# Intermediates are created by chunk_reduce in the blueprint's intermediate dtypes and change dtype only through NumPy's promotion when the
# children of a tree node are concatenated.  A cast on that path whose target is computed from the children's own dtypes (the "narrowest",
# the first child's, ...) crosses kinds -- the all-fill placeholder of a label-free block is int64 / float64, so complex128 partial sums
# become integers at the nodes that contain such a block and the result depends on the bracketing.  Only blueprint dtype slots
# (agg.dtype[...], a `dtype` / `dt` parameter handed down from them) are legal cast targets in _conc2, _simple_combine and _grouped_combine.
def rule_combinecast(ctx) -> RuleResult:
    res = RuleResult("R-COMBINECAST", "the tree-combine path casts intermediates only to blueprint dtype slots", min_instances=0)
    n = 0
    for q in ("core._conc2", "core._simple_combine", "core._grouped_combine", "core._aggregate", "core._expand_dims"):
        f = ctx.prog.funcs.get(q)
        if f is None:
            continue
        for c in calls_in(f.node):
            if not (isinstance(c.func, ast.Attribute) and c.func.attr == "astype" and c.args):
                continue
            n += 1
            t = c.args[0]
            slot = any(isinstance(x, ast.Subscript) and ".dtype[" in norm(x) for x in ast.walk(t)) or (isinstance(t, ast.Name) and t.id in ("dtype", "dt") and t.id in f.params)
            res.inst(f"{q}: {norm(c)[:60]}: target is a blueprint dtype slot: {slot}", f"{q}|{norm(c)[:40]}")
            if not slot:
                res.report(f"{q}|cast-to-data-derived-dtype|{norm(t)[:30]}", f.where(c), q,
                           f"'{norm(c)[:60]}' casts the intermediates of a tree node to '{norm(t)[:30]}', a dtype that is not a blueprint slot: a dtype picked from the "
                           "children (by item size, say) crosses kinds when a label-free block contributes its int64 / float64 placeholder -- complex partial sums lose "
                           "their imaginary part at some nodes only, so the result depends on split_every")
    if n == 0:
        res.notes.append("no cast on the tree-combine path today (the self-test keeps a positive example)")
    return res
