"""R-ATTR, R-DICTKEYS, R-NAMES (C19): three more exact ways an internal error escapes.

  R-NAMES     every global name a function reads is bound at module level, imported, or a builtin (NameError otherwise), judged with
              `symtable` scoping: a refactor that leaves a dangling name in a rarely executed branch (cubed, sparse, numbagg paths)
              passes the suite and raises NameError in the field.
  R-ATTR      every attribute read on a value whose flox class is known (annotated parameter, constructor result, `self`) is a member
              of that class: field, property, method, class attribute, or assigned on `self` in some method (AttributeError otherwise).
  R-DICTKEYS  the string keys read from the blueprint's slot dictionaries (`agg.fill_value[...]`, `agg.dtype[...]`) are keys that some
              store writes: writer's and reader's tables agree (KeyError otherwise).
"""
from __future__ import annotations

import ast
import builtins
import symtable

from ..astutil import blueprint_vars, calls_in, kwarg
from ..model import norm, walk_own
from ..report import RuleResult

_ENUM_MEMBERS = {"name", "value"}
_NAMEDTUPLE_MEMBERS = {"_replace", "_asdict", "_fields", "count", "index", "_make"}
_OBJECT_MEMBERS = set(dir(object)) | {"__dict__", "__class__", "__dataclass_fields__", "__annotations__", "__wrapped__", "__name__", "__qualname__", "__module__"}


def class_table(prog) -> dict[str, dict]:
    """class name -> {"members": set, "bases": [...], "unit": unit, "open": bool (has __getattr__ / unknown base)}"""
    table: dict[str, dict] = {}
    for u in prog.units.values():
        for cname, cdef in u.classes.items():
            members: set[str] = set()
            open_ = False
            for st in cdef.body:
                if isinstance(st, ast.AnnAssign) and isinstance(st.target, ast.Name):
                    members.add(st.target.id)
                elif isinstance(st, ast.Assign):
                    for t in st.targets:
                        for nm in ast.walk(t):
                            if isinstance(nm, ast.Name):
                                members.add(nm.id)
                elif isinstance(st, (ast.FunctionDef, ast.AsyncFunctionDef)):
                    members.add(st.name)
                    if st.name in ("__getattr__", "__getattribute__"):
                        open_ = True
                    selfname = st.args.args[0].arg if st.args.args else None
                    for n in ast.walk(st):
                        if isinstance(n, ast.Attribute) and isinstance(n.ctx, ast.Store) and isinstance(n.value, ast.Name) and n.value.id == selfname:
                            members.add(n.attr)
                        if isinstance(n, ast.Call) and norm(n.func) == "setattr" and n.args and isinstance(n.args[0], ast.Name) and n.args[0].id == selfname:
                            open_ = True
            bases = [norm(b) for b in cdef.bases]
            table[cname] = {"members": members, "bases": bases, "unit": u.name, "open": open_, "line": cdef.lineno}
        # namedtuples bound at module level
        for name, vals in u.bindings.items():
            for v in vals:
                if isinstance(v, ast.Call) and norm(v.func) in ("namedtuple", "collections.namedtuple") and len(v.args) >= 2:
                    fields = v.args[1]
                    fs: set[str] = set()
                    if isinstance(fields, ast.Constant) and isinstance(fields.value, str):
                        fs = set(fields.value.replace(",", " ").split())
                    elif isinstance(fields, (ast.List, ast.Tuple)):
                        fs = {e.value for e in fields.elts if isinstance(e, ast.Constant)}
                    table[name] = {"members": fs | _NAMEDTUPLE_MEMBERS, "bases": [], "unit": u.name, "open": False, "line": v.lineno}
    # inherit
    for cname, rec in table.items():
        seen = set()
        work = list(rec["bases"])
        while work:
            b = work.pop()
            short = b.split(".")[-1]
            if short in seen:
                continue
            seen.add(short)
            if short in table and short != cname:
                rec["members"] |= table[short]["members"]
                rec["open"] = rec["open"] or table[short]["open"]
                work += table[short]["bases"]
            elif short in ("Enum", "IntEnum", "StrEnum"):
                rec["members"] |= _ENUM_MEMBERS
            elif short in ("TypedDict",):
                rec["typeddict"] = True
            elif short in ("object", "Generic", "Protocol"):
                pass
            else:
                rec["open"] = True      # a base we cannot see
    return table


def _ann_classes(ann: ast.AST | None, table) -> set[str] | None:
    """flox classes named by an annotation; None if the annotation admits anything else than flox classes / None"""
    if ann is None:
        return None
    if isinstance(ann, ast.Constant) and isinstance(ann.value, str):
        try:
            ann = ast.parse(ann.value, mode="eval").body
        except SyntaxError:
            return None
    if isinstance(ann, ast.BinOp) and isinstance(ann.op, ast.BitOr):
        l, r = _ann_classes(ann.left, table), _ann_classes(ann.right, table)
        if l is None or r is None:
            return None
        return l | r
    if isinstance(ann, ast.Constant) and ann.value is None:
        return set()
    txt = norm(ann).split(".")[-1]
    if txt in table and not table[txt].get("typeddict"):
        return {txt}
    return None


def rule_attr(ctx) -> RuleResult:
    res = RuleResult("R-ATTR", "every attribute read on a value of a known flox class is a member of that class", min_instances=150)
    prog = ctx.prog
    table = class_table(prog)
    res.inst(f"class table: {', '.join(f'{c}({len(r['members'])})' for c, r in sorted(table.items()))}", "table")
    n_reads = 0
    for q, f in sorted(prog.funcs.items()):
        if isinstance(f.node, ast.Lambda):
            continue
        typed: dict[str, set[str]] = {}
        a = f.node.args
        for arg in a.posonlyargs + a.args + a.kwonlyargs:
            cs = _ann_classes(arg.annotation, table)
            if cs:
                typed[arg.arg] = cs
        if f.cls and f.cls in table and a.args and not any(isinstance(d, ast.Name) and d.id in ("staticmethod", "classmethod") for d in f.node.decorator_list):
            typed[a.args[0].arg] = {f.cls}
        # blueprint variables (the parameter named agg is the per-call Aggregation)
        for v in blueprint_vars(f):
            typed.setdefault(v, {"Aggregation"})
        # locals bound once, to a constructor call
        assigns: dict[str, list] = {}
        for n in walk_own(f.node):
            if isinstance(n, ast.Assign):
                for t in n.targets:
                    if isinstance(t, ast.Name):
                        assigns.setdefault(t.id, []).append(n.value)
                    else:
                        for nm in ast.walk(t):
                            if isinstance(nm, ast.Name) and isinstance(nm.ctx, ast.Store):
                                assigns.setdefault(nm.id, []).append(None)
            elif isinstance(n, (ast.AnnAssign, ast.AugAssign)) and isinstance(n.target, ast.Name):
                assigns.setdefault(n.target.id, []).append(None)
            elif isinstance(n, (ast.For, ast.comprehension)):
                for nm in ast.walk(n.target):
                    if isinstance(nm, ast.Name):
                        assigns.setdefault(nm.id, []).append(None)
            elif isinstance(n, ast.NamedExpr) and isinstance(n.target, ast.Name):
                assigns.setdefault(n.target.id, []).append(None)
            elif isinstance(n, (ast.With,)):
                for it in n.items:
                    if it.optional_vars is not None:
                        for nm in ast.walk(it.optional_vars):
                            if isinstance(nm, ast.Name):
                                assigns.setdefault(nm.id, []).append(None)
        for nm, vals in assigns.items():
            if nm in typed:
                # a rebinding of a typed parameter to something else voids the type
                if any(not (isinstance(v, ast.Call) and norm(v.func).split(".")[-1] in typed[nm]) for v in vals):
                    rebound_ok = all(v is not None and isinstance(v, ast.Call) and norm(v.func) in ("copy.deepcopy", "copy.copy", "deepcopy") for v in vals)
                    if not rebound_ok:
                        typed.pop(nm)
                continue
            if len(vals) == 1 and isinstance(vals[0], ast.Call):
                c = norm(vals[0].func).split(".")[-1]
                if c in table and not table[c].get("typeddict") and norm(vals[0].func).split(".")[0] not in ("np", "pd"):
                    typed[nm] = {c}
        # class objects named directly (enum members, class attributes): ReindexArrayType.SPARSE_COO
        local_names = set(f.params) | set(assigns)
        class_refs = {c for c in table if c not in local_names and not table[c]["open"] and not table[c].get("typeddict")
                      and (c in f.unit.classes or c in f.unit.imports or c in f.unit.bindings)}
        for n in walk_own(f.node):
            if isinstance(n, ast.Attribute) and isinstance(n.ctx, ast.Load) and isinstance(n.value, ast.Name) and n.value.id in class_refs \
                    and n.value.id not in typed:
                n_reads += 1
                c = n.value.id
                ok = n.attr in _OBJECT_MEMBERS or n.attr in table[c]["members"] or n.attr in ("__members__", "_member_map_")
                if n_reads <= 400:
                    res.inst(f"{q}: {c}.{n.attr} (class attribute / enum member): {ok}", f"{q}|{c}.{n.attr}")
                if not ok:
                    res.report(f"{q}|no-class-attribute|{c}.{n.attr}", f.where(n), q,
                               f"'{c}.{n.attr}' is read, but class {c} defines no such member "
                               f"({', '.join(sorted(m for m in table[c]['members'] if not m.startswith('_'))[:12])}): AttributeError on this path")
        if not typed:
            continue
        for n in walk_own(f.node):
            if isinstance(n, ast.Attribute) and isinstance(n.ctx, ast.Load) and isinstance(n.value, ast.Name) and n.value.id in typed:
                classes = typed[n.value.id]
                if any(table[c]["open"] for c in classes):
                    continue
                n_reads += 1
                ok = n.attr in _OBJECT_MEMBERS or any(n.attr in table[c]["members"] for c in classes)
                if n_reads <= 400:
                    res.inst(f"{q}: {n.value.id}.{n.attr} in {sorted(classes)}: {ok}", f"{q}|{n.value.id}.{n.attr}")
                if not ok:
                    res.report(f"{q}|no-attribute|{n.value.id}.{n.attr}", f.where(n), q,
                               f"'{n.value.id}.{n.attr}' is read, but '{n.value.id}' is a {' | '.join(sorted(classes))} and no such field, property, method or "
                               f"instance attribute exists (members: {', '.join(sorted(m for c in classes for m in table[c]['members'] if not m.startswith('__'))[:14])} ...): AttributeError on this path")
    res.inst(f"{n_reads} attribute reads on typed names examined", "count")
    return res


# ---------------------------------------------------------------------------------------------
def rule_dictkeys(ctx) -> RuleResult:
    res = RuleResult("R-DICTKEYS", "string keys read from the blueprint's slot dictionaries are keys some store writes", min_instances=20)
    prog = ctx.prog
    SLOTS = ("fill_value", "dtype")
    written: dict[str, set[str]] = {s: set() for s in SLOTS}
    reads: list = []
    for q, f in sorted(prog.funcs.items()):
        if isinstance(f.node, ast.Lambda):
            continue
        for n in ast.walk(f.node) if f.cls in ("Aggregation", "Scan") else walk_own(f.node):
            # stores: X.slot = {...literal...} / X.slot[K] = ... / X.slot = {**..., "k": v}
            if isinstance(n, ast.Assign):
                for t in n.targets:
                    if isinstance(t, ast.Attribute) and t.attr in SLOTS and isinstance(n.value, ast.Dict):
                        for k in n.value.keys:
                            if isinstance(k, ast.Constant) and isinstance(k.value, str):
                                written[t.attr].add(k.value)
                    if isinstance(t, ast.Subscript) and isinstance(t.value, ast.Attribute) and t.value.attr in SLOTS \
                            and isinstance(t.slice, ast.Constant) and isinstance(t.slice.value, str):
                        written[t.value.attr].add(t.slice.value)
            if isinstance(n, ast.AnnAssign) and isinstance(n.target, ast.Attribute) and n.target.attr in SLOTS and isinstance(n.value, ast.Dict):
                for k in n.value.keys:
                    if isinstance(k, ast.Constant) and isinstance(k.value, str):
                        written[n.target.attr].add(k.value)
            if isinstance(n, ast.Subscript) and isinstance(n.ctx, ast.Load) and isinstance(n.value, ast.Attribute) and n.value.attr in SLOTS \
                    and isinstance(n.slice, ast.Constant) and isinstance(n.slice.value, str):
                reads.append((q, f, n))
    # TypedDict declarations count as the writer's table for dtype
    table = class_table(prog)
    for c in ("AggDtype",):
        if c in table:
            written["dtype"] |= {m for m in table[c]["members"]}
    for s in SLOTS:
        res.inst(f"keys written to .{s}: {sorted(written[s])}", f"written|{s}")
    for q, f, n in reads:
        slot, key = n.value.attr, n.slice.value
        ok = key in written[slot]
        res.inst(f"{q}: {norm(n)} reads a written key: {ok}", f"{q}|{norm(n)}")
        if not ok:
            res.report(f"{q}|unknown-key|{slot}|{key}", f.where(n), q,
                       f"'{norm(n)}' reads key {key!r}, but only {sorted(written[slot])} are ever stored in .{slot}: KeyError on this path")
    return res


# ---------------------------------------------------------------------------------------------
def rule_names(ctx) -> RuleResult:
    res = RuleResult("R-NAMES", "every global name read by a function is bound at module level, imported or a builtin", min_instances=300)
    prog = ctx.prog
    bi = set(dir(builtins)) | {"__file__", "__name__", "__doc__", "__spec__", "__builtins__", "__package__"}
    total = 0
    for uname, u in sorted(prog.units.items()):
        try:
            st = symtable.symtable(u.src, u.relpath, "exec")
        except SyntaxError as e:       # cannot happen: the unit parsed
            res.notes.append(f"{uname}: symtable failed: {e}")
            continue
        top = {s.get_name() for s in st.get_symbols() if s.is_assigned() or s.is_imported() or s.is_namespace()}
        # names bound by 'from x import *' cannot be enumerated
        star = any(isinstance(n, ast.ImportFrom) and any(a.name == "*" for a in n.names) for n in ast.walk(u.tree))
        # names bound conditionally at module level (try/except ImportError, TYPE_CHECKING) are still bound names for this rule
        type_checking_only: set[str] = set()
        for n in u.tree.body:
            if isinstance(n, ast.If) and "TYPE_CHECKING" in norm(n.test):
                for x in ast.walk(n):
                    if isinstance(x, (ast.Import, ast.ImportFrom)):
                        for al in x.names:
                            type_checking_only.add((al.asname or al.name).split(".")[0])
        uses: dict[str, list] = {}

        def visit(tab, path):
            nonlocal total
            for s in tab.get_symbols():
                if s.is_global() and s.is_referenced() and not s.is_assigned():
                    total += 1
                    nm = s.get_name()
                    if nm not in top and nm not in bi and not star:
                        uses.setdefault(nm, []).append(path)
            for ch in tab.get_children():
                visit(ch, path + [ch.get_name()])

        for ch in st.get_children():
            visit(ch, [ch.get_name()])
        for nm, paths in sorted(uses.items()):
            where = ".".join(paths[0])
            ln = next((n.lineno for n in ast.walk(u.tree) if isinstance(n, ast.Name) and n.id == nm and isinstance(n.ctx, ast.Load)), 0)
            res.report(f"{uname}.{where}|undefined-name|{nm}", f"{u.relpath}:{ln}", f"{uname}.{where}",
                       f"name '{nm}' is read in {uname}.{where} but is neither a local, a module-level binding, an import nor a builtin: NameError on this path")
        # run-time use of names imported only under TYPE_CHECKING (outside annotations)
        ann_nodes = set()
        for n in ast.walk(u.tree):
            for fld in ("annotation", "returns"):
                a = getattr(n, fld, None)
                if a is not None:
                    for x in ast.walk(a):
                        ann_nodes.add(id(x))
        for n in ast.walk(u.tree):      # code under 'if TYPE_CHECKING:' never runs
            if isinstance(n, ast.If) and "TYPE_CHECKING" in norm(n.test):
                for st_ in n.body:
                    for x in ast.walk(st_):
                        ann_nodes.add(id(x))
        future_ann = any(isinstance(n, ast.ImportFrom) and n.module == "__future__" and any(a.name == "annotations" for a in n.names) for n in u.tree.body)
        rt_bound = set()
        for n in u.tree.body:
            if isinstance(n, ast.If) and "TYPE_CHECKING" in norm(n.test):
                for x in n.orelse:
                    for y in ast.walk(x):
                        if isinstance(y, (ast.Import, ast.ImportFrom)):
                            rt_bound |= {(al.asname or al.name).split(".")[0] for al in y.names}
                        if isinstance(y, ast.Name) and isinstance(y.ctx, ast.Store):
                            rt_bound.add(y.id)
            elif not isinstance(n, ast.If):
                for y in ast.walk(n) if isinstance(n, (ast.Import, ast.ImportFrom, ast.Assign, ast.Try)) else ():
                    if isinstance(y, (ast.Import, ast.ImportFrom)):
                        rt_bound |= {(al.asname or al.name).split(".")[0] for al in y.names}
        only_tc = type_checking_only - rt_bound
        if only_tc and future_ann:
            for q, f in sorted(prog.funcs.items()):
                if f.unit.name != uname or isinstance(f.node, ast.Lambda):
                    continue
                locals_ = set(f.params)
                for n in walk_own(f.node):
                    if isinstance(n, ast.Name) and isinstance(n.ctx, ast.Store):
                        locals_.add(n.id)
                    if isinstance(n, (ast.Import, ast.ImportFrom)):
                        locals_ |= {(al.asname or al.name).split(".")[0] for al in n.names}
                for n in walk_own(f.node):
                    if isinstance(n, ast.Name) and isinstance(n.ctx, ast.Load) and n.id in only_tc and n.id not in locals_ and id(n) not in ann_nodes:
                        # typing.cast's first argument is evaluated: cast(pd.Index, x) with pd imported at run time is fine; a TYPE_CHECKING-only name is not
                        total += 1
                        res.report(f"{q}|type-checking-only|{n.id}", f.where(n), q,
                                   f"'{n.id}' is imported only under TYPE_CHECKING but evaluated at run time here: NameError on this path")
        res.inst(f"{uname}: global reads resolved against {len(top)} module-level names" + (f"; TYPE_CHECKING-only names: {sorted(only_tc)}" if only_tc else ""), uname)
    res.inst(f"{total} global-name reads examined", "count")
    res.min_instances = 10
    return res


# ---------------------------------------------------------------------------------------------
# R-SEQKIND (C19): a sequence that is mutated in place is not a tuple on any path that reaches the mutation.
# The intermediate dictionaries carry their arrays under a string key ("intermediates"); some stages store a tuple there (read-only
# consumers), others append the counts or overwrite an entry.  A small typestate: for every local name X and every slot X["k"] the set of
# container kinds {list, tuple, ?} that may reach a statement; `X.append(..)`, `X["k"].append(..)`, `X["k"][i] = ..` with "tuple" in the
# set is an AttributeError / TypeError inside a task.  Only *definite* tuples (display, tuple(...), a name bound to nothing else) are
# reported; unknown producers (call results, parameters) are accepted.
_LIST_ONLY = {"append", "extend", "insert", "pop", "remove", "sort", "reverse", "clear"}


def rule_seqkind(ctx) -> RuleResult:
    res = RuleResult("R-SEQKIND", "sequences mutated in place are not tuples on any path reaching the mutation", min_instances=10)
    from ..cfg import CFG, node_defs
    from ..dataflow import forward
    prog = ctx.prog

    def slot_of(e):
        """X or X["k"] -> state key"""
        if isinstance(e, ast.Name):
            return e.id
        if isinstance(e, ast.Subscript) and isinstance(e.value, ast.Name) and isinstance(e.slice, ast.Constant) and isinstance(e.slice.value, str):
            return (e.value.id, e.slice.value)
        return None

    def kind(v, st) -> frozenset:
        if isinstance(v, (ast.List, ast.ListComp)):
            return frozenset({"list"})
        if isinstance(v, ast.Tuple):
            return frozenset({"tuple"})
        if isinstance(v, ast.Call) and isinstance(v.func, ast.Name) and v.func.id in ("list", "sorted"):
            return frozenset({"list"})
        if isinstance(v, ast.Call) and isinstance(v.func, ast.Name) and v.func.id == "tuple":
            return frozenset({"tuple"})
        k = slot_of(v)
        if k is not None and k in st:
            return st[k]
        if isinstance(v, ast.Subscript) and isinstance(v.slice, ast.Slice):
            return kind(v.value, st)          # a slice keeps the container kind
        if isinstance(v, ast.BinOp) and isinstance(v.op, ast.Add):
            l, r = kind(v.left, st), kind(v.right, st)
            return l if l == r else frozenset({"?"})
        if isinstance(v, ast.IfExp):
            return kind(v.body, st) | kind(v.orelse, st)
        return frozenset({"?"})

    sites = 0
    for q, f in sorted(prog.funcs.items()):
        if isinstance(f.node, ast.Lambda):
            continue
        muts = []
        for n in walk_own(f.node):
            if isinstance(n, ast.Call) and isinstance(n.func, ast.Attribute) and n.func.attr in _LIST_ONLY and slot_of(n.func.value) is not None:
                muts.append((n, n.func.value, f".{n.func.attr}(…)"))
            if isinstance(n, (ast.Assign, ast.AugAssign)):
                for t in (n.targets if isinstance(n, ast.Assign) else [n.target]):
                    if isinstance(t, ast.Subscript) and not (isinstance(t.slice, ast.Constant) and isinstance(t.slice.value, str)) and slot_of(t.value) is not None \
                            and not isinstance(t.value, ast.Name):
                        muts.append((n, t.value, "[i] = …"))
        if not muts:
            continue
        cfg = CFG(f)

        def transfer(n, st):
            a = n.ast
            d = dict(st)
            defs = node_defs(n)
            if n.kind == "stmt" and isinstance(a, (ast.Assign, ast.AnnAssign)) and a.value is not None:
                targets = a.targets if isinstance(a, ast.Assign) else [a.target]
                for t in targets:
                    k = slot_of(t)
                    if isinstance(t, ast.Name):
                        for key in [x for x in d if isinstance(x, tuple) and x[0] == t.id]:
                            del d[key]
                        d[t.id] = kind(a.value, dict(st))
                        if isinstance(a.value, ast.Dict):
                            for kk, vv in zip(a.value.keys, a.value.values):
                                if isinstance(kk, ast.Constant) and isinstance(kk.value, str):
                                    d[(t.id, kk.value)] = kind(vv, dict(st))
                        defs = defs - {t.id}
                    elif k is not None:
                        d[k] = kind(a.value, dict(st))
            for v in defs:          # any other rebinding (loop target, with-as, tuple unpacking, augmented assignment): unknown
                for key in [x for x in d if x == v or (isinstance(x, tuple) and x[0] == v)]:
                    del d[key]
            return frozenset(d.items())

        def join(x, y):
            dx, dy = dict(x), dict(y)
            out = {}
            for k in set(dx) | set(dy):
                out[k] = dx.get(k, frozenset({"?"})) | dy.get(k, frozenset({"?"}))
            return frozenset(out.items())

        ins, _ = forward(cfg, frozenset(), transfer, join=join)
        from ..dataflow import node_containing
        for stmt, recv, how in muts:
            node = node_containing(cfg, stmt if isinstance(stmt, ast.Call) else stmt)
            if node is None:
                continue
            st = dict(ins.get(node.id, frozenset()))
            ks = st.get(slot_of(recv), frozenset({"?"}))
            sites += 1
            res.inst(f"{q}: {norm(recv)}{how}: kinds reaching it: {sorted(ks)}", f"{q}|{norm(recv)}|{how}|{getattr(stmt, 'lineno', 0)}")
            if "tuple" in ks:
                res.report(f"{q}|tuple-mutated|{norm(recv)}", f.where(stmt), q,
                           f"'{norm(recv)}{how}' mutates the sequence in place, but on some path it was bound to a tuple (kinds reaching this statement: {sorted(ks)}): "
                           "AttributeError / TypeError when the path runs (inside a task for the combine stages)")
    return res


# ---------------------------------------------------------------------------------------------
# R-OUTALIAS (C18, C01): a buffer written through `out=` never shares memory with a value that is read afterwards.
# `x.astype(dtype, copy=False)`, np.asarray(x), reshapes, views and basic slices MAY return x's own memory.  If such a value is used as the
# destination of a ufunc (`out=`), every later read of x sees the overwritten data -- silently, and only for the dtypes for which no copy was
# made.  Intra-procedural may-alias sets (flow-insensitive, symmetric closure over the view-returning forms), then: for every call with
# out=<name>, no *other* member of the name's alias set is loaded in a statement reachable after the call.
_VIEW_METHODS = {"reshape", "view", "ravel", "squeeze", "swapaxes", "transpose"}
_VIEW_FUNCS = {"np.asarray", "np.asanyarray", "np.atleast_1d", "np.atleast_2d", "np.squeeze", "np.reshape", "np.ravel", "np.broadcast_to", "np.moveaxis", "np.swapaxes"}


def rule_outalias(ctx) -> RuleResult:
    res = RuleResult("R-OUTALIAS", "a buffer written through out= shares no memory with a value read afterwards", min_instances=2)
    from ..cfg import CFG, node_uses
    from ..dataflow import node_containing

    def viewed(e):
        """name whose memory the value of e may share, or None"""
        if isinstance(e, ast.Name):
            return e.id
        if isinstance(e, ast.Attribute) and e.attr == "T":
            return viewed(e.value)
        if isinstance(e, ast.Subscript):
            return viewed(e.value)
        if isinstance(e, ast.Call):
            fn = norm(e.func)
            if isinstance(e.func, ast.Attribute) and e.func.attr == "astype":
                cp = kwarg(e, "copy")
                if isinstance(cp, ast.Constant) and cp.value is False:
                    return viewed(e.func.value)
                return None
            if isinstance(e.func, ast.Attribute) and e.func.attr in _VIEW_METHODS:
                return viewed(e.func.value)
            if fn in _VIEW_FUNCS and e.args:
                return viewed(e.args[0])
        return None

    n_sites = 0
    for q, f in sorted(ctx.prog.funcs.items()):
        if isinstance(f.node, ast.Lambda) or f.is_overload:
            continue
        outs = [(c, kwarg(c, "out")) for c in calls_in(f.node) if isinstance(kwarg(c, "out"), ast.Name)]
        if not outs:
            continue
        alias: dict[str, set[str]] = {}
        for a in walk_own(f.node):
            if isinstance(a, ast.Assign) and len(a.targets) == 1 and isinstance(a.targets[0], ast.Name):
                src = viewed(a.value)
                if src and src != a.targets[0].id:
                    alias.setdefault(a.targets[0].id, set()).add(src)
                    alias.setdefault(src, set()).add(a.targets[0].id)
        cfg = None
        for c, o in outs:
            n_sites += 1
            seen, work = {o.id}, [o.id]
            while work:
                for y in alias.get(work.pop(), ()):
                    if y not in seen:
                        seen.add(y)
                        work.append(y)
            others = seen - {o.id}
            late = []
            if others:
                cfg = cfg or CFG(f)
                start = node_containing(cfg, c)
                if start is not None:
                    vis, wk = set(), [s_ for s_, lab in start.succ]
                    while wk:
                        i = wk.pop()
                        if i in vis:
                            continue
                        vis.add(i)
                        m = cfg.nodes[i]
                        for u in node_uses(m):
                            if u.id in others:
                                late.append((m, u.id))
                        wk.extend(s_ for s_, lab in m.succ)
            res.inst(f"{q}: {norm(c.func)}(…, out={o.id}): may share memory with {sorted(others) or '-'}; read after the write: {sorted({x for _, x in late}) or '-'}",
                     f"{q}|{c.lineno}|{o.id}")
            if late:
                m, nm = late[0]
                res.report(f"{q}|out-buffer-aliases-later-read|{o.id}|{nm}", f.where(c), q,
                           f"'{norm(c)[:60]}' writes into '{o.id}', which may share memory with '{nm}' (a copy=False cast / view of it), and '{nm}' is read again afterwards "
                           f"('{norm(m.ast)[:50] if m.ast is not None else ''}'): whenever no copy was made the later statement sees the overwritten values")
    if n_sites == 0:
        res.notes.append("no call with out=<name> in the package")
        res.min_instances = 0
    return res


# ---------------------------------------------------------------------------------------------
# R-INPLACECAST (C19, C01): a floating-point result is never forced in place into a buffer whose dtype the user chose.
# The flox-engine kernels accumulate into / allocate `out` with the dtype= they are given.  NumPy refuses to store the result of a true division
# or of an interpolation into an integer buffer under the default same-kind casting (UFuncTypeError, a TypeError): `out /= counts` and
# `np.add(a, b * t, out=out)` therefore need either a not-in-place form followed by a cast, or casting="unsafe" -- an integer dtype= is legal
# (np.mean(a, dtype=int16) truncates, and the numpy engine returns exactly that).
def rule_inplacecast(ctx) -> RuleResult:
    res = RuleResult("R-INPLACECAST", "float results are not stored in place into a buffer of the requested dtype under same-kind casting", min_instances=2)
    n = 0
    for q, f in sorted(ctx.prog.funcs.items()):
        if not q.startswith("aggregate_flox.") or isinstance(f.node, ast.Lambda) or "dtype" not in f.params:
            continue
        # names holding a buffer of the requested dtype: allocated / accumulated with dtype=dtype, or the `out` parameter that is
        typed = set()
        for a in walk_own(f.node):
            if isinstance(a, ast.Assign) and len(a.targets) == 1 and isinstance(a.targets[0], ast.Name) and isinstance(a.value, ast.Call):
                d = kwarg(a.value, "dtype")
                if d is not None and norm(d) == "dtype":
                    typed.add(a.targets[0].id)
        if "out" in f.params:
            typed.add("out")
        for x in walk_own(f.node):
            if isinstance(x, ast.AugAssign) and isinstance(x.op, ast.Div) and isinstance(x.target, ast.Name) and x.target.id in typed:
                n += 1
                res.inst(f"{q}: '{norm(x)[:50]}' divides a buffer of the requested dtype in place", f"{q}|{norm(x)[:30]}")
                res.report(f"{q}|inplace-true-division|{x.target.id}", f.where(x), q,
                           f"'{norm(x)[:50]}' stores a true division into '{x.target.id}', which has the dtype the caller asked for: with an integer dtype= NumPy raises "
                           "UFuncTypeError (\"Cannot cast ufunc 'divide' output from float64 to int16\") on the flox engine, while the numpy engine returns the truncated result")
            if isinstance(x, ast.Call) and norm(x.func) in ("np.add", "np.subtract", "np.multiply", "np.true_divide", "np.divide") \
                    and isinstance(kwarg(x, "out"), ast.Name) and kwarg(x, "out").id in typed:
                n += 1
                cs = kwarg(x, "casting")
                ok = isinstance(cs, ast.Constant) and cs.value == "unsafe"
                floaty = any(isinstance(y, ast.BinOp) and isinstance(y.op, (ast.Mult, ast.Div)) for a_ in x.args for y in ast.walk(a_))
                res.inst(f"{q}: '{norm(x)[:60]}' into a buffer of the requested dtype: casting='unsafe': {ok}; float-valued operand: {floaty}", f"{q}|{norm(x)[:40]}")
                if floaty and not ok:
                    res.report(f"{q}|ufunc-into-requested-dtype|{norm(x.func)}", f.where(x), q,
                               f"'{norm(x)[:60]}' writes a float-valued result into '{kwarg(x, 'out').id}' (dtype chosen by the caller) under same-kind casting: an integer "
                               "dtype= raises UFuncTypeError on the flox engine (median / quantile), the numpy engine truncates")
        for a in walk_own(f.node):
            # accepted form, listed as an instance: X = (X / counts).astype(X.dtype)
            if isinstance(a, ast.Assign) and len(a.targets) == 1 and isinstance(a.targets[0], ast.Name) and a.targets[0].id in typed \
                    and any(isinstance(y, ast.BinOp) and isinstance(y.op, ast.Div) for y in ast.walk(a.value)):
                n += 1
                res.inst(f"{q}: '{norm(a)[:60]}': division out of place, cast back", f"{q}|{norm(a)[:40]}")
    if n == 0:
        res.notes.append("no in-place float arithmetic on buffers of the requested dtype in the flox engine")
        res.min_instances = 0
    return res
