"""R-DEFASSIGN: no local is read on a path where it is not bound (C19).

Definite assignment on the CFG; the classic false positive (bound and used under the same
condition) is removed by guard correlation: for each candidate the analysis is re-run
path-sensitively on the atoms that guard the candidate's definitions and uses.
"""
from __future__ import annotations

import ast

from ..astutil import parents_map
from ..cfg import CFG, node_defs, node_uses
from ..dataflow import forward, atom_of, add_fact, kill_facts, atom_vars, eq_lhs
from ..model import Func, func_locals, norm, walk_own
from ..report import RuleResult

# frozen exceptions: function -> variable -> reason  (one symbol each)
EXCEPTIONS = {
    "core._grouped_combine":
        "if/elif over agg.reduction_type in {'reduce','argreduce'}: _get_chunk_reduction raises ValueError for any other value "
        "before a graph is built (checked structurally below)",
    "core.reindex_":
        "if/elif over the ReindexArrayType enum after AUTO has been rewritten to NUMPY: all members covered (checked structurally below)",
}


def _plain(cfg: CFG, f: Func, locals_: set[str]):
    params = set(f.params)

    def transfer(n, st):
        d = node_defs(n) & locals_
        if n.ast is not None and isinstance(n.ast, ast.Delete):
            gone = {t.id for t in n.ast.targets if isinstance(t, ast.Name)}
            return st - gone
        return st | d if d else st

    ins, _ = forward(cfg, frozenset(params), transfer, join=lambda a, b: a & b)
    cands = []
    for n in cfg.nodes:
        if n.id not in ins:
            continue
        for u in node_uses(n):
            if u.id in locals_ and u.id not in ins[n.id]:
                cands.append((u.id, n, u))
    return cands


def _leaves(test: ast.AST, out: set[str]):
    if isinstance(test, ast.BoolOp):
        for v in test.values:
            _leaves(v, out)
    elif isinstance(test, ast.UnaryOp) and isinstance(test.op, ast.Not):
        _leaves(test.operand, out)
    else:
        out.add(atom_of(test)[0])


def _ast_guards(pm, node: ast.AST) -> set[str]:
    """atoms of the if/while tests lexically enclosing an AST node (control guards of a definition)."""
    out: set[str] = set()
    cur = pm.get(id(node))
    while cur is not None:
        if isinstance(cur, (ast.If, ast.While, ast.IfExp)):
            _leaves(cur.test, out)
        cur = pm.get(id(cur))
    return out


def _correlated(cfg: CFG, f: Func, var: str, use_node, locals_, pm) -> tuple[bool, set[str]]:
    atoms: set[str] = set()
    for n in cfg.nodes:
        if var in node_defs(n) and n.ast is not None:
            atoms |= _ast_guards(pm, n.ast)
    # equality/membership atoms on the same left-hand side are relevant too (mutual exclusion)
    lhs = {eq_lhs(a) for a in atoms} - {None}

    def relevant(a: str) -> bool:
        return a in atoms or (eq_lhs(a) in lhs)

    def transfer(n, st):
        d = node_defs(n)
        if not d:
            return st
        out = set()
        for assigned, facts in st:
            out.add((assigned or var in d, kill_facts(facts, d)))
        return frozenset(out)

    def edge(n, lab, st):
        if n.kind != "test" or lab not in ("T", "F"):
            return st
        a, pol = atom_of(n.ast)
        val = pol if lab == "T" else not pol
        out = set()
        for assigned, facts in st:
            nf = add_fact(facts, a, val, relevant)
            if nf is not None:
                out.add((assigned, nf))
        return frozenset(out) if out else None

    init = frozenset({(var in f.params, frozenset())})
    ins, _ = forward(cfg, init, transfer, edge=edge, join=lambda a, b: a | b)
    st = ins.get(use_node.id)
    if st is None:
        return True, atoms
    return all(assigned for assigned, _ in st), atoms


def _assigned_in_all_arms(chain: ast.If) -> set[str]:
    """names assigned (at top level) in every arm of an if/elif chain without a final else"""
    arms = []
    cur = chain
    while True:
        arms.append(cur.body)
        if len(cur.orelse) == 1 and isinstance(cur.orelse[0], ast.If):
            cur = cur.orelse[0]
        else:
            if cur.orelse:
                arms.append(cur.orelse)
            break
    sets = []
    for arm in arms:
        names = set()
        for st in arm:
            for n in ast.walk(st):
                if isinstance(n, ast.Name) and isinstance(n.ctx, ast.Store):
                    names.add(n.id)
        sets.append(names)
    return set.intersection(*sets) if sets else set()


def _exception_vars(ctx, fn: str) -> set[str]:
    """variables covered by the frozen exception of a function, discovered structurally (empty = exception void)"""
    prog = ctx.prog
    f = prog.funcs.get(fn)
    if f is None:
        return set()
    if fn == "core._grouped_combine":
        g = prog.funcs.get("core._get_chunk_reduction")
        if g is None:
            return set()
        txt = norm(g.node)
        if not ("raise ValueError" in txt and "'reduce'" in txt and "'argreduce'" in txt):
            return set()
        out = set()
        for n in walk_own(f.node):
            if isinstance(n, ast.If) and "reduction_type == 'argreduce'" in norm(n.test) and n.orelse \
                    and isinstance(n.orelse[0], ast.If) and "reduction_type == 'reduce'" in norm(n.orelse[0].test):
                out |= _assigned_in_all_arms(n)
        return out
    if fn == "core.reindex_":
        txt = norm(f.node)
        enum = prog.unit("core").classes.get("ReindexArrayType")
        members = [t.id for st in enum.body if isinstance(st, ast.Assign) for t in st.targets if isinstance(t, ast.Name)] if enum else []
        out = set()
        for n in walk_own(f.node):
            if isinstance(n, ast.If) and "is ReindexArrayType." in norm(n.test) and n.orelse and isinstance(n.orelse[0], ast.If):
                handled = {m for m in members if f"is ReindexArrayType.{m}" in norm(n)}
                var = norm(n.test).split(" is ")[0]
                rewritten = f"{var} = ReindexArrayType.NUMPY" in txt and f"{var} is ReindexArrayType.AUTO" in txt
                if members and (handled | ({"AUTO"} if rewritten else set())) == set(members):
                    out |= _assigned_in_all_arms(n)
        return out
    return set()


def rule_defassign(ctx) -> RuleResult:
    res = RuleResult("R-DEFASSIGN", "no local variable is read on a path on which it is unbound", min_instances=150)
    nfun = 0
    for f in ctx.prog.all_funcs():
        nfun += 1
        locals_ = func_locals(f)
        cfg = CFG(f)
        cands = _plain(cfg, f, locals_)
        seen = set()
        pm = parents_map(f.node) if cands else None
        res.inst(f"{f.qualname}: {len(locals_)} locals, {len(cfg.nodes)} CFG nodes, {len(cands)} path-insensitive candidates")
        for var, node, use in cands:
            if (var, node.id) in seen:
                continue
            seen.add((var, node.id))
            ok, atoms = _correlated(cfg, f, var, node, locals_, pm)
            key = f"{f.qualname}|{var}"
            res.nontrivial.add(key)
            if ok:
                res.inst(f"{f.qualname}: {var!r} at L{use.lineno} discharged by guard correlation on {sorted(atoms)[:4]}", key)
                continue
            ex = EXCEPTIONS.get(f.qualname)
            if ex and var in _exception_vars(ctx, f.qualname):
                res.inst(f"{f.qualname}: {var!r} at L{use.lineno} frozen exception: {ex}", key)
                res.notes.append(f"exception {f.qualname}:{var}: {ex}")
                continue
            res.report(key, f.where(use), f.qualname,
                       f"local {var!r} may be unbound when read at line {use.lineno} ({norm(node.ast)[:70]}): UnboundLocalError for the inputs that take that path")
    return res
