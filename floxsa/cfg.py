"""Statement-level control-flow graph for the statement kinds flox uses.

Branch conditions (if / while / assert / short-circuit and-or-not) are split into
'test' nodes with T/F edges so that rules can filter on guards.  try/except is
modelled conservatively: every statement of the try body may transfer to every
handler.  Conditional *expressions* inside a statement are not split here; the rules
that need their guards (R-LAZY) walk the expression with a guard stack.
"""
from __future__ import annotations

import ast
from dataclasses import dataclass, field

from .model import Func, norm


@dataclass
class Node:
    id: int
    kind: str                  # entry | exit | raise | stmt | test | for | with | return | case | except | join
    ast: ast.AST | None = None
    succ: list = field(default_factory=list)   # (node id, label)  label in {None,'T','F','next','done','exc'}
    pred: list = field(default_factory=list)

    def __repr__(self):
        return f"<{self.id}:{self.kind} {norm(self.ast)[:50] if self.ast is not None else ''}>"


class CFG:
    def __init__(self, f: Func):
        self.f = f
        self.nodes: list[Node] = []
        self.entry = self._new("entry")
        self.exit = self._new("exit")
        self.raise_exit = self._new("raise")
        self._loops: list[tuple[Node, Node]] = []     # (continue target, break target)
        self._handlers: list[list[Node]] = []         # stack of handler-entry node lists
        end = self._block(f.body, [self.entry])
        self._connect(end, self.exit)
        for n in self.nodes:
            for (s, lab) in n.succ:
                self.nodes[s].pred.append((n.id, lab))

    # ---------------------------------------------------------------- construction
    def _new(self, kind, node=None) -> Node:
        n = Node(len(self.nodes), kind, node)
        self.nodes.append(n)
        return n

    def _edge(self, a: Node, b: Node, label=None):
        if (b.id, label) not in a.succ:
            a.succ.append((b.id, label))

    def _connect(self, preds: list, b: Node):
        for p in preds:
            if isinstance(p, tuple):
                self._edge(p[0], b, p[1])
            else:
                self._edge(p, b)

    def _may_raise(self, n: Node):
        """Inside a try body: any statement may transfer to any handler of the innermost try."""
        if self._handlers:
            for h in self._handlers[-1]:
                self._edge(n, h, "exc")

    def _cond(self, e: ast.AST, preds: list) -> tuple[list, list]:
        """Build test nodes for expression e; returns (true-exits, false-exits) as lists of (node,label)."""
        if isinstance(e, ast.BoolOp):
            if isinstance(e.op, ast.And):
                falses: list = []
                cur = preds
                for v in e.values:
                    t, f = self._cond(v, cur)
                    falses += f
                    cur = t
                return cur, falses
            else:
                trues: list = []
                cur = preds
                for v in e.values:
                    t, f = self._cond(v, cur)
                    trues += t
                    cur = f
                return trues, cur
        if isinstance(e, ast.UnaryOp) and isinstance(e.op, ast.Not):
            t, f = self._cond(e.operand, preds)
            return f, t
        n = self._new("test", e)
        self._connect(preds, n)
        self._may_raise(n)
        return [(n, "T")], [(n, "F")]

    def _block(self, body: list[ast.stmt], preds: list) -> list:
        cur = preds
        for st in body:
            cur = self._stmt(st, cur)
        return cur

    def _stmt(self, st: ast.stmt, preds: list) -> list:
        if not preds:
            # unreachable code still gets nodes (so anchors are found), but no incoming edges
            pass
        if isinstance(st, ast.If):
            t, f = self._cond(st.test, preds)
            a = self._block(st.body, t)
            b = self._block(st.orelse, f) if st.orelse else f
            return a + b
        if isinstance(st, ast.While):
            head = self._new("join", st)
            self._connect(preds, head)
            t, f = self._cond(st.test, [head])
            brk = self._new("join", st)
            self._loops.append((head, brk))
            end = self._block(st.body, t)
            self._loops.pop()
            self._connect(end, head)
            out = self._block(st.orelse, f) if st.orelse else f
            self._connect(out, brk)
            return [brk]
        if isinstance(st, (ast.For, ast.AsyncFor)):
            it = self._new("stmt", ast.Expr(value=st.iter, lineno=st.lineno, col_offset=0))
            self._connect(preds, it)
            self._may_raise(it)
            head = self._new("for", st)
            self._edge(it, head)
            brk = self._new("join", st)
            self._loops.append((head, brk))
            end = self._block(st.body, [(head, "next")])
            self._loops.pop()
            self._connect(end, head)
            out = self._block(st.orelse, [(head, "done")]) if st.orelse else [(head, "done")]
            self._connect(out, brk)
            return [brk]
        if isinstance(st, (ast.With, ast.AsyncWith)):
            n = self._new("with", st)
            self._connect(preds, n)
            self._may_raise(n)
            return self._block(st.body, [n])
        if isinstance(st, ast.Try) or (hasattr(ast, "TryStar") and isinstance(st, ast.TryStar)):
            hnodes = [self._new("except", h) for h in st.handlers]
            fin_raise = None
            self._handlers.append(hnodes)
            pre = self._new("join", st)
            self._connect(preds, pre)
            self._may_raise(pre)
            end = self._block(st.body, [pre])
            self._handlers.pop()
            end = self._block(st.orelse, end) if st.orelse else end
            outs = list(end)
            for h, hn in zip(st.handlers, hnodes):
                outs += self._block(h.body, [hn])
            if st.finalbody:
                outs = self._block(st.finalbody, outs)
            return outs
        if isinstance(st, ast.Match):
            subj = self._new("stmt", ast.Expr(value=st.subject, lineno=st.lineno, col_offset=0))
            self._connect(preds, subj)
            outs = []
            cur: list = [subj]
            irrefutable = False
            for case in st.cases:
                cn = self._new("case", case)
                self._connect(cur, cn)
                body_pred: list = [(cn, "T")]
                if case.guard is not None:
                    t, f = self._cond(case.guard, [(cn, "T")])
                    body_pred = t
                    cur = [(cn, "F")] + f
                else:
                    cur = [(cn, "F")]
                    if isinstance(case.pattern, ast.MatchAs) and case.pattern.pattern is None:
                        irrefutable = True
                        cur = []
                outs += self._block(case.body, body_pred)
            return outs + cur
        if isinstance(st, ast.Return):
            n = self._new("return", st)
            self._connect(preds, n)
            self._may_raise(n)
            self._edge(n, self.exit)
            return []
        if isinstance(st, ast.Raise):
            n = self._new("stmt", st)
            self._connect(preds, n)
            if self._handlers:
                for h in self._handlers[-1]:
                    self._edge(n, h, "exc")
            self._edge(n, self.raise_exit)
            return []
        if isinstance(st, ast.Assert):
            t, f = self._cond(st.test, preds)
            for (n, lab) in f:
                self._edge(n, self.raise_exit, lab)
            return t
        if isinstance(st, ast.Break):
            n = self._new("stmt", st)
            self._connect(preds, n)
            if self._loops:
                self._edge(n, self._loops[-1][1])
            return []
        if isinstance(st, ast.Continue):
            n = self._new("stmt", st)
            self._connect(preds, n)
            if self._loops:
                self._edge(n, self._loops[-1][0])
            return []
        n = self._new("stmt", st)
        self._connect(preds, n)
        self._may_raise(n)
        return [n]

    # ---------------------------------------------------------------- queries
    def reachable(self) -> set[int]:
        seen = {self.entry.id}
        work = [self.entry.id]
        while work:
            i = work.pop()
            for (s, _) in self.nodes[i].succ:
                if s not in seen:
                    seen.add(s)
                    work.append(s)
        return seen

    def dominators(self) -> dict[int, set[int]]:
        reach = self.reachable()
        ids = sorted(reach)
        dom = {i: set(ids) for i in ids}
        dom[self.entry.id] = {self.entry.id}
        changed = True
        while changed:
            changed = False
            for i in ids:
                if i == self.entry.id:
                    continue
                ps = [p for (p, _) in self.nodes[i].pred if p in reach]
                new = set.intersection(*(dom[p] for p in ps)) if ps else set()
                new = new | {i}
                if new != dom[i]:
                    dom[i] = new
                    changed = True
        return dom

    def must_pass_before_exit(self, pred_fn, ignore_raise=True, start: int | None = None) -> list[list[int]]:
        """Paths from entry (or start) to the normal exit that avoid every node satisfying pred_fn.
        Returns a list with one witness path (node ids) if such a path exists, else []."""
        start = self.entry.id if start is None else start
        target = self.exit.id
        prev: dict[int, int | None] = {start: None}
        work = [start]
        while work:
            i = work.pop(0)
            if i == target:
                path = []
                cur: int | None = i
                while cur is not None:
                    path.append(cur)
                    cur = prev[cur]
                return [list(reversed(path))]
            n = self.nodes[i]
            if i != start and pred_fn(n):
                continue
            if i == start and pred_fn(n):
                continue
            for (s, lab) in n.succ:
                if lab == "exc":
                    continue
                if s not in prev:
                    prev[s] = i
                    work.append(s)
        return []

    def describe_path(self, path: list[int]) -> list[str]:
        out = []
        for i in path:
            n = self.nodes[i]
            if n.kind in ("entry", "exit", "join"):
                continue
            ln = getattr(n.ast, "lineno", "?")
            out.append(f"L{ln}:{n.kind}:{norm(n.ast)[:60]}")
        return out


def node_defs(n: Node) -> set[str]:
    """Names (re)bound by executing this node."""
    out: set[str] = set()
    a = n.ast
    if n.kind == "for":
        _targets(a.target, out)
        return out
    if n.kind == "with":
        for it in a.items:
            if it.optional_vars is not None:
                _targets(it.optional_vars, out)
        return out
    if n.kind == "except":
        if a.name:
            out.add(a.name)
        return out
    if n.kind == "case":
        for sub in ast.walk(a.pattern):
            if isinstance(sub, (ast.MatchAs, ast.MatchStar)) and sub.name:
                out.add(sub.name)
            if isinstance(sub, ast.MatchMapping) and sub.rest:
                out.add(sub.rest)
        return out
    if a is None:
        return out
    if isinstance(a, ast.Assign):
        for t in a.targets:
            _targets(t, out)
    elif isinstance(a, ast.AnnAssign):
        if a.value is not None:
            _targets(a.target, out)
    elif isinstance(a, ast.AugAssign):
        _targets(a.target, out)
    elif isinstance(a, (ast.FunctionDef, ast.AsyncFunctionDef, ast.ClassDef)):
        out.add(a.name)
    elif isinstance(a, ast.Import):
        for al in a.names:
            out.add(al.asname or al.name.split(".")[0])
    elif isinstance(a, ast.ImportFrom):
        for al in a.names:
            out.add(al.asname or al.name)
    # walrus anywhere in the node's expression
    for sub in _walk_expr(a):
        if isinstance(sub, ast.NamedExpr):
            out.add(sub.target.id)
    return out


def _targets(t: ast.AST, out: set[str]):
    if isinstance(t, ast.Name):
        out.add(t.id)
    elif isinstance(t, (ast.Tuple, ast.List)):
        for e in t.elts:
            _targets(e, out)
    elif isinstance(t, ast.Starred):
        _targets(t.value, out)


def _walk_expr(a: ast.AST):
    stack = [a]
    while stack:
        n = stack.pop()
        yield n
        for ch in ast.iter_child_nodes(n):
            if isinstance(ch, (ast.FunctionDef, ast.AsyncFunctionDef, ast.Lambda, ast.ClassDef)):
                continue
            stack.append(ch)


def node_exprs(n: Node) -> list[ast.AST]:
    """Expressions evaluated by this node (not the bodies of compound statements)."""
    a = n.ast
    if a is None:
        return []
    if n.kind == "test":
        return [a]
    if n.kind == "for":
        return []          # the iterable is evaluated by the preceding synthetic stmt node
    if n.kind == "with":
        return [it.context_expr for it in a.items]
    if n.kind == "except":
        return [a.type] if a.type is not None else []
    if n.kind == "case":
        return []
    if n.kind == "join":
        return []
    if isinstance(a, (ast.FunctionDef, ast.AsyncFunctionDef)):
        return list(a.decorator_list) + [d for d in a.args.defaults] + [d for d in a.args.kw_defaults if d is not None]
    if isinstance(a, ast.ClassDef):
        return []
    return [a]


def node_uses(n: Node) -> list[ast.Name]:
    """Name loads evaluated by this node, in own scope (comprehension targets excluded)."""
    out: list[ast.Name] = []
    for e in node_exprs(n):
        _uses(e, out, set())
    return out


def _uses(e: ast.AST, out: list, bound: set[str]):
    if isinstance(e, ast.Name):
        if isinstance(e.ctx, ast.Load) and e.id not in bound:
            out.append(e)
        return
    if isinstance(e, (ast.ListComp, ast.SetComp, ast.GeneratorExp, ast.DictComp)):
        b = set(bound)
        for i, g in enumerate(e.generators):
            _uses(g.iter, out, b if i else bound)
            t: set[str] = set()
            _targets(g.target, t)
            b |= t
            for c in g.ifs:
                _uses(c, out, b)
        if isinstance(e, ast.DictComp):
            _uses(e.key, out, b)
            _uses(e.value, out, b)
        else:
            _uses(e.elt, out, b)
        return
    if isinstance(e, ast.Lambda):
        b = set(bound) | {a.arg for a in e.args.posonlyargs + e.args.args + e.args.kwonlyargs}
        if e.args.vararg:
            b.add(e.args.vararg.arg)
        if e.args.kwarg:
            b.add(e.args.kwarg.arg)
        for d in e.args.defaults + [d for d in e.args.kw_defaults if d is not None]:
            _uses(d, out, bound)
        _uses(e.body, out, b)
        return
    if isinstance(e, (ast.FunctionDef, ast.AsyncFunctionDef, ast.ClassDef)):
        return
    for ch in ast.iter_child_nodes(e):
        _uses(ch, out, bound)
