"""floxsa: repository-specific static analysis for xarray-contrib/flox.

Every verdict is computed from the source under $FLOXSA_REPO (default /repo) as
parsed on this run; nothing here imports or executes flox, numpy or dask.
"""
