"""Small AST helpers shared by the rules."""
from __future__ import annotations

import ast

from .model import Func, norm, walk_own


def parents_map(root: ast.AST) -> dict[int, ast.AST]:
    pm: dict[int, ast.AST] = {}
    for n in ast.walk(root):
        for ch in ast.iter_child_nodes(n):
            pm[id(ch)] = n
    return pm


def ancestors(node: ast.AST, pm: dict[int, ast.AST]):
    cur = pm.get(id(node))
    while cur is not None:
        yield cur
        cur = pm.get(id(cur))


def access_path(e: ast.AST) -> str | None:
    """'agg.fill_value["user"]' style access path text for Name/Attribute/Subscript-with-constant chains."""
    if isinstance(e, ast.Name):
        return e.id
    if isinstance(e, ast.Attribute):
        b = access_path(e.value)
        return None if b is None else f"{b}.{e.attr}"
    if isinstance(e, ast.Subscript):
        b = access_path(e.value)
        if b is None:
            return None
        if isinstance(e.slice, ast.Constant):
            return f"{b}[{e.slice.value!r}]"
        return f"{b}[{norm(e.slice)}]"
    return None


def root_name(e: ast.AST) -> str | None:
    while isinstance(e, (ast.Attribute, ast.Subscript, ast.Starred)):
        e = e.value
    if isinstance(e, ast.Call):
        return root_name(e.func)
    return e.id if isinstance(e, ast.Name) else None


def names_in(e: ast.AST) -> set[str]:
    return {n.id for n in ast.walk(e) if isinstance(n, ast.Name)}


def calls_in(root: ast.AST, own=True):
    it = walk_own(root) if own else ast.walk(root)
    for n in it:
        if isinstance(n, ast.Call):
            yield n


def kwarg(call: ast.Call, name: str) -> ast.AST | None:
    for k in call.keywords:
        if k.arg == name:
            return k.value
    return None


def const_str(e: ast.AST | None) -> str | None:
    return e.value if isinstance(e, ast.Constant) and isinstance(e.value, str) else None


def enclosing_stmt(node: ast.AST, pm) -> ast.stmt | None:
    cur = node
    while cur is not None and not isinstance(cur, ast.stmt):
        cur = pm.get(id(cur))
    return cur


def stmt_key(f: Func, node: ast.AST) -> str:
    return f"{f.qualname}|{norm(node)[:160]}"


def guard_facts(node: ast.AST, pm) -> frozenset:
    """(atom, bool) facts implied by the conditional expressions and if-statements lexically enclosing node.
    Only single-leaf tests (and 'and' chains on the true side / 'or' chains on the false side) contribute."""
    from .dataflow import atom_of
    facts = set()

    def add(test, val: bool):
        if isinstance(test, ast.BoolOp):
            if isinstance(test.op, ast.And) and val:
                for v in test.values:
                    add(v, True)
            elif isinstance(test.op, ast.Or) and not val:
                for v in test.values:
                    add(v, False)
            return
        if isinstance(test, ast.UnaryOp) and isinstance(test.op, ast.Not):
            add(test.operand, not val)
            return
        a, pol = atom_of(test)
        facts.add((a, pol if val else not pol))

    child = node
    cur = pm.get(id(node))
    while cur is not None:
        if isinstance(cur, ast.IfExp):
            if child is cur.body:
                add(cur.test, True)
            elif child is cur.orelse:
                add(cur.test, False)
        elif isinstance(cur, ast.If):
            if any(child is st for st in cur.body):
                add(cur.test, True)
            elif any(child is st for st in cur.orelse):
                add(cur.test, False)
        child = cur
        cur = pm.get(id(cur))
    return frozenset(facts)


def returned_name(f) -> str | None:
    """the single Name returned by a function (e.g. the blueprint variable of _initialize_aggregation)"""
    names = set()
    for n in walk_own(f.node):
        if isinstance(n, ast.Return) and isinstance(n.value, ast.Name):
            names.add(n.value.id)
    return names.pop() if len(names) == 1 else None


def blueprint_vars(f) -> set[str]:
    """names of parameters / locals of f that hold the per-call Aggregation blueprint"""
    out = set()
    if isinstance(f.node, ast.FunctionDef):
        for a in f.node.args.posonlyargs + f.node.args.args + f.node.args.kwonlyargs:
            ann = norm(a.annotation) if a.annotation is not None else ""
            if a.arg == "agg" or ("Aggregation" in ann and "Scan" not in ann and "str" not in ann):
                out.add(a.arg)
    return out
