"""Small AST helpers shared by the rules."""
from __future__ import annotations

import ast

from .model import Func, norm, walk_own


def parents_map(root: ast.AST) -> dict[int, ast.AST]:
    pm: dict[int, ast.AST] = {}
    for n in ast.walk(root):
        for ch in ast.iter_child_nodes(n):
            pm[id(ch)] = n
    return pm


def ancestors(node: ast.AST, pm: dict[int, ast.AST]):
    cur = pm.get(id(node))
    while cur is not None:
        yield cur
        cur = pm.get(id(cur))


def access_path(e: ast.AST) -> str | None:
    """'agg.fill_value["user"]' style access path text for Name/Attribute/Subscript-with-constant chains."""
    if isinstance(e, ast.Name):
        return e.id
    if isinstance(e, ast.Attribute):
        b = access_path(e.value)
        return None if b is None else f"{b}.{e.attr}"
    if isinstance(e, ast.Subscript):
        b = access_path(e.value)
        if b is None:
            return None
        if isinstance(e.slice, ast.Constant):
            return f"{b}[{e.slice.value!r}]"
        return f"{b}[{norm(e.slice)}]"
    return None


def root_name(e: ast.AST) -> str | None:
    while isinstance(e, (ast.Attribute, ast.Subscript, ast.Starred)):
        e = e.value
    if isinstance(e, ast.Call):
        return root_name(e.func)
    return e.id if isinstance(e, ast.Name) else None


def names_in(e: ast.AST) -> set[str]:
    return {n.id for n in ast.walk(e) if isinstance(n, ast.Name)}


def calls_in(root: ast.AST, own=True):
    it = walk_own(root) if own else ast.walk(root)
    for n in it:
        if isinstance(n, ast.Call):
            yield n


def kwarg(call: ast.Call, name: str) -> ast.AST | None:
    for k in call.keywords:
        if k.arg == name:
            return k.value
    return None


def const_str(e: ast.AST | None) -> str | None:
    return e.value if isinstance(e, ast.Constant) and isinstance(e.value, str) else None


def enclosing_stmt(node: ast.AST, pm) -> ast.stmt | None:
    cur = node
    while cur is not None and not isinstance(cur, ast.stmt):
        cur = pm.get(id(cur))
    return cur


def stmt_key(f: Func, node: ast.AST) -> str:
    return f"{f.qualname}|{norm(node)[:160]}"
